"""Models of the Python builtins used by the code under contract."""
import math
from fractions import Fraction
from numbers import Number

from . import core
from .core import S, C, Unsupported, sbool, s_and, s_or, s_not, s_if


def install(I):
    from . import interp as ip
    B = I.builtins

    def reg(name):
        def deco(fn):
            B[name] = ip.Builtin(name, fn)
            return fn
        return deco

    for n, c in ip._EXC.items():
        B[n] = c
    B['object'] = ip.OBJECT
    B['NotImplemented'] = ip.NOTIMPL
    B['Ellipsis'] = Ellipsis
    B['True'], B['False'], B['None'] = True, False, None
    B['__name__'] = '<module>'

    # ---- type tags used with isinstance
    class TypeTag(object):
        def __init__(self, name, pred):
            self.name, self.pred = name, pred

        def __repr__(self):
            return '<type %s>' % self.name

        def pv_call(self, I, fr, args, kwargs):
            return B['$conv_' + self.name].fn(I, fr, args, kwargs)

        def pv_getattr(self, I, fr, name):
            if name == '__name__':
                return self.name
            raise ip.PyRaise(I.make_exc('AttributeError', name))

    def kind(v):
        """numeric tower kind of a scalar value"""
        if isinstance(v, bool):
            return 'bool'
        if isinstance(v, int):
            return 'int'
        if isinstance(v, (float, Fraction)):
            return 'real'
        if isinstance(v, complex):
            return 'complex'
        if isinstance(v, S):
            return 'bool' if v.is_bool else ('int' if v.is_int else 'real')
        if isinstance(v, C):
            return 'complex'
        return None

    I.scalar_kind = kind
    tags = {
        'int': lambda v: kind(v) in ('bool', 'int'),
        'float': lambda v: kind(v) == 'real',
        'complex': lambda v: kind(v) == 'complex',
        'bool': lambda v: kind(v) == 'bool',
        'str': lambda v: isinstance(v, str),
        'basestring': lambda v: isinstance(v, str),
        'bytes': lambda v: isinstance(v, bytes),
        'tuple': lambda v: isinstance(v, tuple),
        'list': lambda v: isinstance(v, list),
        'dict': lambda v: isinstance(v, dict),
        'set': lambda v: isinstance(v, set),
        'frozenset': lambda v: isinstance(v, frozenset),
        'slice': lambda v: isinstance(v, (slice, ip.SymSlice)),
        'range': lambda v: isinstance(v, range),
        'Integral': lambda v: kind(v) in ('bool', 'int'),
        'Real': lambda v: kind(v) in ('bool', 'int', 'real'),
        'Complex': lambda v: kind(v) is not None,
        'Number': lambda v: kind(v) is not None,
        'type': lambda v: isinstance(v, (ip.ClassV, ip.ExtClass, TypeTag)),
        'Callable': lambda v: isinstance(v, (ip.FuncV, ip.BoundM, ip.Builtin, ip.ClassV)),
    }
    I.type_tags = {}
    for n, p in tags.items():
        I.type_tags[n] = TypeTag(n, p)
        if n not in ('Integral', 'Real', 'Complex', 'Number', 'Callable'):
            B[n] = I.type_tags[n]
    I.TypeTag = TypeTag

    def conv_num(target):
        def f(I, fr, args, kwargs):
            if not args:
                return {'int': 0, 'float': 0.0, 'complex': 0j, 'bool': False}[target]
            v = args[0]
            if target == 'complex' and len(args) == 2:
                a, b = args
                if isinstance(a, (S, C)) or isinstance(b, (S, C)):
                    return C(a, b)
                return complex(a, b)
            if hasattr(v, 'pv_to_scalar'):
                return v.pv_to_scalar(I, fr, target)
            if isinstance(v, ip.Obj):
                dn = '__%s__' % target
                if I._has_dunder(v, dn):
                    return I.call(I._getattr(v, dn, fr), [], {}, fr)
                if target == 'bool':
                    return I.truth(v, fr)
                raise ip.PyRaise(I.make_exc('TypeError', '%s() argument must be a number' % target))
            if isinstance(v, S):
                if target == 'float':
                    if v.is_bool:
                        return s_if(v, 1.0, 0.0)
                    return v + 0.0 if v.is_int else v
                if target == 'int':
                    if v.is_int:
                        return v
                    if v.is_bool:
                        return s_if(v, 1, 0)
                    c = v.concrete()
                    if c is not None:
                        return int(c)
                    # truncation of a symbolic real
                    import z3
                    t = v.t
                    return S(z3.If(t >= 0, z3.ToInt(t), -z3.ToInt(-t)))
                if target == 'complex':
                    return C(v, 0.0)
                if target == 'bool':
                    return sbool(v)
            if isinstance(v, C):
                if target == 'complex':
                    return v
                if target == 'bool':
                    return s_or(v.re != 0, v.im != 0)
                raise ip.PyRaise(I.make_exc('TypeError', "can't convert complex to %s" % target))
            if v is None or isinstance(v, (tuple, list, dict)) and target != 'bool':
                raise ip.PyRaise(I.make_exc('TypeError', '%s() argument must be a string or a number' % target))
            if target == 'bool':
                return I.truth(v, fr)
            try:
                return {'int': int, 'float': float, 'complex': complex}[target](v)
            except TypeError as e:
                raise ip.PyRaise(I.make_exc('TypeError', str(e)))
            except ValueError as e:
                raise ip.PyRaise(I.make_exc('ValueError', str(e)))
            except OverflowError as e:
                raise ip.PyRaise(I.make_exc('OverflowError', str(e)))
        return f

    for t in ('int', 'float', 'complex', 'bool'):
        B['$conv_' + t] = ip.Builtin(t, conv_num(t))

    @reg('$conv_str')
    def _str(I, fr, args, kwargs):
        if not args:
            return ''
        v = args[0]
        if isinstance(v, str):
            return v
        if ip.is_conc(v):
            return str(v)
        return '<str of symbolic>'

    @reg('$conv_tuple')
    def _tuple(I, fr, args, kwargs):
        if args and type(args[0]).__name__ == 'PArr':
            return ArrTuple(args[0])
        return tuple(I.iterate(args[0], fr)) if args else ()

    @reg('$conv_list')
    def _list(I, fr, args, kwargs):
        return list(I.iterate(args[0], fr)) if args else []

    @reg('$conv_dict')
    def _dict(I, fr, args, kwargs):
        d = {}
        if args:
            a = args[0]
            if isinstance(a, dict):
                d.update(a)
            else:
                for k, v in I.iterate(a, fr):
                    d[k] = v
        d.update(kwargs)
        return d

    @reg('$conv_set')
    def _set(I, fr, args, kwargs):
        items = list(I.iterate(args[0], fr)) if args else []
        if all(ip.is_conc(x) for x in items):
            return set(items)
        return SymSet(items, frozen=False)

    @reg('$conv_frozenset')
    def _fset(I, fr, args, kwargs):
        items = list(I.iterate(args[0], fr)) if args else []
        if all(ip.is_conc(x) for x in items):
            return frozenset(items)
        return SymSet(items, frozen=True)

    @reg('$conv_slice')
    def _slice(I, fr, args, kwargs):
        a = list(args)
        if len(a) == 1:
            a = [None, a[0], None]
        elif len(a) == 2:
            a = a + [None]
        if all(isinstance(x, (int, type(None))) for x in a):
            return slice(*a)
        return ip.SymSlice(*a)

    @reg('$conv_range')
    def _range(I, fr, args, kwargs):
        if all(isinstance(a, int) for a in args):
            return range(*args)
        conc = [a.concrete() if isinstance(a, S) else a for a in args]
        if all(isinstance(a, int) for a in conc):
            return range(*conc)
        return SymRange(*args)

    @reg('$conv_type')
    def _type(I, fr, args, kwargs):
        v = args[0]
        if isinstance(v, ip.Obj):
            return v.cls
        for n in ('bool', 'int', 'float', 'complex', 'str', 'tuple', 'list', 'dict'):
            if I.type_tags[n].pred(v):
                return I.type_tags[n]
        if v is None:
            return I.type_tags.setdefault('NoneType', TypeTag('NoneType', lambda v: v is None))
        if hasattr(v, 'pv_type'):
            return v.pv_type(I, fr)
        raise Unsupported('type() of %r' % (v,))

    @reg('isinstance')
    def _isinstance(I, fr, args, kwargs):
        v, cls = args
        return _isinst(I, v, cls)

    def _isinst(I, v, cls):
        if isinstance(cls, (tuple, list)):
            return any(_isinst(I, v, c) for c in cls)
        if isinstance(cls, TypeTag):
            return bool(cls.pred(v))
        if isinstance(cls, (ip.ClassV, ip.ExtClass)):
            if isinstance(v, ip.Obj):
                return cls in v.cls.mro
            if hasattr(v, 'pv_isinstance'):
                return v.pv_isinstance(I, cls)
            if cls is ip.OBJECT:
                return True
            return False
        if hasattr(cls, 'pv_instancecheck'):
            return cls.pv_instancecheck(I, v)
        if isinstance(cls, ip.ExtAttr):
            if hasattr(v, 'pv_isinstance'):
                return v.pv_isinstance(I, cls)
            return False
        raise Unsupported('isinstance against %r' % (cls,))
    I.isinstance = lambda v, cls: _isinst(I, v, cls)

    @reg('issubclass')
    def _issubclass(I, fr, args, kwargs):
        c, p = args
        if isinstance(p, (tuple, list)):
            return any(_issubclass(I, fr, [c, x], {}) for x in p)
        if isinstance(c, (ip.ClassV, ip.ExtClass)) and isinstance(p, (ip.ClassV, ip.ExtClass)):
            return p in c.mro
        if isinstance(c, TypeTag) and isinstance(p, TypeTag):
            return c is p
        return False

    @reg('getattr')
    def _getattr(I, fr, args, kwargs):
        if len(args) == 3:
            return I.getattr(args[0], args[1], fr, default=args[2])
        return I._getattr(args[0], args[1], fr)

    @reg('hasattr')
    def _hasattr(I, fr, args, kwargs):
        sentinel = object()
        return I.getattr(args[0], args[1], fr, default=sentinel) is not sentinel

    @reg('setattr')
    def _setattr(I, fr, args, kwargs):
        I.setattr(args[0], args[1], args[2], fr)

    @reg('callable')
    def _callable(I, fr, args, kwargs):
        v = args[0]
        if isinstance(v, (ip.FuncV, ip.BoundM, ip.Builtin, ip.ClassV, ip.ExtClass, TypeTag)):
            return True
        if isinstance(v, ip.Obj):
            return I._has_dunder(v, '__call__')
        return hasattr(v, 'pv_call')

    @reg('len')
    def _len(I, fr, args, kwargs):
        v = args[0]
        if isinstance(v, (tuple, list, dict, str, set, frozenset, range, bytes)):
            return len(v)
        if isinstance(v, ip.GenList):
            raise ip.PyRaise(I.make_exc('TypeError', 'object of type generator has no len()'))
        if isinstance(v, ip.Obj):
            if I._has_dunder(v, '__len__'):
                return I.call(I._getattr(v, '__len__', fr), [], {}, fr)
            raise ip.PyRaise(I.make_exc('TypeError', 'object has no len()'))
        if hasattr(v, 'pv_len'):
            return v.pv_len(I, fr)
        raise ip.PyRaise(I.make_exc('TypeError', 'object of type %r has no len()' % (v,)))

    @reg('id')
    def _id(I, fr, args, kwargs):
        return id(args[0])

    @reg('hash')
    def _hash(I, fr, args, kwargs):
        return I.py_hash(args[0], fr)

    def py_hash(v, fr):
        """hash as an abstract value: equal abstract values <=> equal hashes assumed (K10)"""
        if isinstance(v, ip.Obj):
            if getattr(v, 'key', None) is not None and not I._has_dunder(v, '__hash__'):
                return ('leafhash', v.key)         # abstract leaf object: hash is a function of its equivalence class
            if I._has_dunder(v, '__hash__'):
                return I.call(I._getattr(v, '__hash__', fr), [], {}, fr)
            return ('idhash', id(v))
        if isinstance(v, (list, set, dict)):
            raise ip.PyRaise(I.make_exc('TypeError', "unhashable type: '%s'" % type(v).__name__))
        if isinstance(v, frozenset):
            return ('fset', tuple(py_hash(x, fr) for x in v))
        if hasattr(v, 'pv_hash'):
            return v.pv_hash(I, fr)
        if isinstance(v, tuple):
            return ('hash', tuple(py_hash(x, fr) for x in v))
        if isinstance(v, (ip.ClassV, ip.ExtClass, TypeTag)):
            return ('clshash', id(v))
        if isinstance(v, float) and (v != v or v in (float('inf'), float('-inf'))):
            return ('val', repr(v))
        if isinstance(v, (bool, int, float, Fraction)) and not isinstance(v, bool) or isinstance(v, bool):
            return ('num', Fraction(v) if not isinstance(v, bool) else Fraction(int(v)))
        if isinstance(v, (S, C)):
            return ('symhash', v)
        if ip.is_conc(v):
            return ('val', repr(v))
        if hasattr(v, 'pv_hash'):
            return v.pv_hash(I, fr)
        return ('idhash', id(v))
    I.py_hash = py_hash

    @reg('repr')
    def _repr(I, fr, args, kwargs):
        return '<repr>'

    @reg('print')
    def _print(I, fr, args, kwargs):
        return None

    @reg('abs')
    def _abs(I, fr, args, kwargs):
        v = args[0]
        if isinstance(v, (S, C, int, float, complex, Fraction)):
            return abs(v)
        if isinstance(v, ip.Obj) and I._has_dunder(v, '__abs__'):
            return I.call(I._getattr(v, '__abs__', fr), [], {}, fr)
        if hasattr(v, 'pv_unop'):
            return v.pv_unop(I, fr, '__abs__')
        raise Unsupported('abs of %r' % (v,))

    @reg('any')
    def _any(I, fr, args, kwargs):
        for x in I.iterate(args[0], fr):
            if I.truth(x, fr):
                return True
        return False

    @reg('all')
    def _all(I, fr, args, kwargs):
        for x in I.iterate(args[0], fr):
            if not I.truth(x, fr):
                return False
        return True

    @reg('sum')
    def _sum(I, fr, args, kwargs):
        acc = args[1] if len(args) > 1 else 0
        import operator
        for x in I.iterate(args[0], fr):
            acc = I.binop('add', operator.add, acc, x, fr)
        return acc

    def _minmax(name, pick):
        def f(I, fr, args, kwargs):
            items = I.iterate(args[0], fr) if len(args) == 1 else list(args)
            key = kwargs.get('key')
            if not items:
                if 'default' in kwargs:
                    return kwargs['default']
                raise ip.PyRaise(I.make_exc('ValueError', name + '() arg is an empty sequence'))
            best = items[0]
            bk = I.call(key, [best], {}, fr) if key else best
            import ast as _ast
            for x in items[1:]:
                xk = I.call(key, [x], {}, fr) if key else x
                r = I.compare(_ast.Lt() if pick == 'min' else _ast.Gt(), xk, bk, fr)
                if isinstance(r, S) and all(isinstance(v, (S, int, float, Fraction)) for v in (x, best)) and not key:
                    best = s_if(r, x, best)
                    bk = best
                elif I.truth(r, fr):
                    best, bk = x, xk
            return best
        return f
    B['min'] = ip.Builtin('min', _minmax('min', 'min'))
    B['max'] = ip.Builtin('max', _minmax('max', 'max'))

    @reg('zip')
    def _zip(I, fr, args, kwargs):
        for a in args:
            if hasattr(a, 'pv_zip'):
                return a.pv_zip(I, fr, args)
        seqs = [I.iterate(a, fr) for a in args]
        return list(zip(*seqs))

    @reg('enumerate')
    def _enumerate(I, fr, args, kwargs):
        start = args[1] if len(args) > 1 else kwargs.get('start', 0)
        return list(enumerate(I.iterate(args[0], fr), start))

    @reg('reversed')
    def _reversed(I, fr, args, kwargs):
        return list(reversed(I.iterate(args[0], fr)))

    @reg('sorted')
    def _sorted(I, fr, args, kwargs):
        items = I.iterate(args[0], fr)
        if ip.is_conc(items) and not kwargs.get('key'):
            return sorted(items, reverse=bool(kwargs.get('reverse', False)))
        raise Unsupported('sorted on symbolic data')

    @reg('map')
    def _map(I, fr, args, kwargs):
        f = args[0]
        seqs = [I.iterate(a, fr) for a in args[1:]]
        return ip.GenList([I.call(f, list(xs), {}, fr) for xs in zip(*seqs)])

    @reg('filter')
    def _filter(I, fr, args, kwargs):
        f, seq = args
        return ip.GenList([x for x in I.iterate(seq, fr) if I.truth(I.call(f, [x], {}, fr) if f is not None else x, fr)])

    @reg('iter')
    def _iter(I, fr, args, kwargs):
        return ip.GenList(I.iterate(args[0], fr))

    @reg('next')
    def _next(I, fr, args, kwargs):
        g = args[0]
        if isinstance(g, ip.GenList):
            if g.items:
                return g.items.pop(0)
            if len(args) > 1:
                return args[1]
            raise ip.PyRaise(I.make_exc('StopIteration'))
        raise Unsupported('next on %r' % (g,))

    @reg('super')
    def _super(I, fr, args, kwargs):
        return ip.SuperV(args[0], args[1])

    @reg('round')
    def _round(I, fr, args, kwargs):
        if ip.is_conc(args):
            return round(*args)
        raise Unsupported('round of symbolic')

    @reg('divmod')
    def _divmod(I, fr, args, kwargs):
        if ip.is_conc(args):
            return divmod(*args)
        a, b = args
        return (a // b, a % b)

    @reg('pow')
    def _pow(I, fr, args, kwargs):
        return args[0] ** args[1]

    @reg('property')
    def _property(I, fr, args, kwargs):
        raise Unsupported('property() call')

    @reg('staticmethod')
    def _static(I, fr, args, kwargs):
        return args[0]

    @reg('vars')
    def _vars(I, fr, args, kwargs):
        return args[0].fields

    @reg('locals')
    def _locals(I, fr, args, kwargs):
        raise Unsupported('locals()')

    @reg('ord')
    def _ord(I, fr, args, kwargs):
        return ord(args[0])

    @reg('chr')
    def _chr(I, fr, args, kwargs):
        return chr(args[0])

    # ---- stdlib modules
    class PyModule(object):
        def __init__(self, name, table):
            self.name, self.table = name, table

        def pv_getattr(self, I, fr, name):
            if name in self.table:
                return self.table[name]
            return ip.ExtAttr(self.name, name)

        def __repr__(self):
            return '<pymodule %s>' % self.name

    I.PyModule = PyModule
    numbers = PyModule('numbers', {n: I.type_tags[n] for n in ('Integral', 'Real', 'Complex', 'Number')})
    I.ext_modules['numbers'] = numbers

    def bi(name, fn):
        return ip.Builtin(name, fn)

    def _sqrt(I, fr, args, kwargs):
        v = args[0]
        if isinstance(v, S):
            return core.ssqrt(v)
        if isinstance(v, (int, float)):
            if v < 0:
                raise ip.PyRaise(I.make_exc('ValueError', 'math domain error'))
            return math.sqrt(v)
        raise Unsupported('sqrt of %r' % (v,))

    def _mathfn(name):
        def f(I, fr, args, kwargs):
            if ip.is_conc(args):
                try:
                    return getattr(math, name)(*args)
                except (ValueError, TypeError, OverflowError) as e:
                    raise ip.PyRaise(I.make_exc(type(e).__name__, str(e)))
            if name in ('exp', 'log', 'sin', 'cos', 'tan', 'atan', 'acos', 'asin'):
                return core.sfun(name, *args)
            raise Unsupported('math.%s of symbolic' % name)
        return f

    mtab = {'sqrt': bi('math.sqrt', _sqrt), 'pi': math.pi, 'e': math.e, 'inf': float('inf')}
    for n in ('exp', 'log', 'sin', 'cos', 'tan', 'atan', 'acos', 'asin', 'floor', 'ceil', 'isnan', 'isinf', 'log10', 'atan2', 'fabs', 'isfinite'):
        mtab[n] = bi('math.' + n, _mathfn(n))
    I.ext_modules['math'] = PyModule('math', mtab)

    def _partial(I, fr, args, kwargs):
        return Partial(args[0], list(args[1:]), dict(kwargs))

    def _wraps(I, fr, args, kwargs):
        return ip.Builtin('wraps-decorator', lambda I, fr, a, k: a[0])

    def _reduce(I, fr, args, kwargs):
        f, seq = args[0], I.iterate(args[1], fr)
        acc = args[2] if len(args) > 2 else seq.pop(0)
        for x in seq:
            acc = I.call(f, [acc, x], {}, fr)
        return acc

    def _lru_cache(I, fr, args, kwargs):
        # memoisation of a pure function is the identity semantically
        if args and isinstance(args[0], (ip.FuncV,)):
            return args[0]
        return ip.Builtin('lru_cache-decorator', lambda I, fr, a, k: a[0])

    I.ext_modules['functools'] = PyModule('functools', {'partial': bi('partial', _partial), 'wraps': bi('wraps', _wraps), 'reduce': bi('reduce', _reduce),
                                                        'lru_cache': bi('lru_cache', _lru_cache)})

    def _product(I, fr, args, kwargs):
        import itertools
        seqs = [I.iterate(a, fr) for a in args]
        rep = kwargs.get('repeat', 1)
        return [tuple(x) for x in itertools.product(*seqs, repeat=rep)]

    I.ext_modules['itertools'] = PyModule('itertools', {'product': bi('product', _product)})

    def _warn(I, fr, args, kwargs):
        fr.st.events.append(('warn', args[0] if args else None))

    def _copy(I, fr, args, kwargs):
        v = args[0]
        if isinstance(v, ip.Obj) and I._has_dunder(v, '__copy__'):
            return I.call(I._getattr(v, '__copy__', fr), [], {}, fr)
        if isinstance(v, (int, float, complex, str, tuple, S, C, type(None))):
            return v
        if isinstance(v, list):
            return list(v)
        if isinstance(v, dict):
            return dict(v)
        raise Unsupported('copy.copy of %r' % (v,))

    I.ext_modules['copy'] = PyModule('copy', {'copy': bi('copy', _copy), 'deepcopy': bi('deepcopy', _copy)})
    I.ext_modules['warnings'] = PyModule('warnings', {'warn': bi('warn', _warn)})
    I.ext_modules['builtins'] = PyModule('builtins', {'object': ip.OBJECT, 'super': B['super'], 'range': B['range'], 'str': B['str'], 'zip': B['zip'], 'int': B['int'], 'map': B['map'], 'basestring': B['basestring']})
    I.ext_modules['future'] = PyModule('future', {})
    I.ext_modules['__future__'] = PyModule('__future__', {})
    I.ext_modules['past'] = PyModule('past', {})
    I.ext_modules['past.builtins'] = PyModule('past.builtins', {'basestring': B['basestring']})
    I.ext_modules['future.utils'] = PyModule('future.utils', {'native': bi('native', lambda I, fr, a, k: a[0]),'raise_from': bi('raise_from', lambda I, fr, a, k: (_ for _ in ()).throw(ip.PyRaise(a[0])))})
    I.ext_modules['contextlib'] = PyModule('contextlib', {})
    I.ext_modules['sys'] = PyModule('sys', {'version_info': (3, 12, 1), 'maxsize': 2 ** 63 - 1})


class Partial(object):
    def __init__(self, f, args, kwargs):
        self.f, self.args, self.kwargs = f, args, kwargs

    def pv_call(self, I, fr, args, kwargs):
        kw = dict(self.kwargs)
        kw.update(kwargs)
        return I.call(self.f, self.args + list(args), kw, fr)


class ArrTuple(object):
    """tuple(ndarray) of a 1-d array of symbolic length: the sequence of its values"""

    def __init__(self, arr):
        self.arr = arr
        self.content, self.shape = arr.buf.content, arr.buf.shape

    def pv_hash(self, I, fr):
        return ('numseq', self)

    def pv_len(self, I, fr):
        return I.builtin_len(self.arr, fr) if hasattr(I, 'builtin_len') else self.shape[0]


class SymSet(object):
    """set / frozenset whose members are objects or symbolic values: kept as the list of its members (duplicates w.r.t. == are
    not merged; contracts that depend on the cardinality must not use it)"""

    def __init__(self, items, frozen):
        self.items, self.frozen = list(items), frozen

    def pv_iter(self, I, fr):
        return list(self.items)

    def pv_len(self, I, fr):
        raise Unsupported('len of a set of symbolic members')

    def pv_contains(self, I, fr, item):
        return I.contains(tuple(self.items), item, fr)

    def pv_hash(self, I, fr):
        from . import interp as ip
        if not self.frozen:
            raise ip.PyRaise(I.make_exc('TypeError', "unhashable type: 'set'"))
        return ('fset', tuple(I.py_hash(x, fr) for x in self.items))

    def pv_eq(self, I, fr, o):
        if not isinstance(o, SymSet):
            return False
        a = [I.contains(tuple(o.items), x, fr) for x in self.items]
        b = [I.contains(tuple(self.items), x, fr) for x in o.items]
        return core.s_and(*[core.sbool(x) for x in a + b]) if a + b else True


class SymRange(object):
    """range with a symbolic bound; iterating needs a loop contract"""

    def __init__(self, *args):
        if len(args) == 1:
            self.start, self.stop, self.step = 0, args[0], 1
        elif len(args) == 2:
            self.start, self.stop, self.step = args[0], args[1], 1
        else:
            self.start, self.stop, self.step = args

    def pv_forloop(self, I, fr, node, env):
        h = getattr(fr.st, 'loop_handler', None)
        if h is None:
            raise Unsupported('loop over symbolic range without a loop contract')
        return h(I, fr, node, env, self)

    def pv_len(self, I, fr):
        return core.s_if(self.stop - self.start > 0, self.stop - self.start, 0)
