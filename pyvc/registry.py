"""Which properties are claimed (and how), and which are not yet / not applicable.
bin/mkmanifest turns this into MANIFEST.json."""

PROPS = {}

_NYB = "deductive core designed (DESIGN.md section 4) but not built yet; not claimed until its obligations are generated and discharged"
NOT_APPLICABLE = {"C%02d" % i: _NYB for i in range(1, 21)}
