"""Which properties are claimed (and how), and which are not yet / not applicable.
bin/mkmanifest turns this into MANIFEST.json."""

PROPS = {}

_NYB = "deductive core designed (DESIGN.md section 4) but not built yet; not claimed until its obligations are generated and discharged"
NOT_APPLICABLE = {"C%02d" % i: _NYB for i in range(1, 21)}


PROPS['C01'] = {
    'level': 'proof',
    'text': 'Deductive: every path of the real _lincomb_impl (all dtypes kinds x 5 alias patterns x symbolic size / layout flags / scalars / values), '
            'the NumpyTensorSpace kernels, LinearSpace.lincomb/multiply/divide/zero and all LinearSpaceElement arithmetic dunders are symbolically '
            'executed from /repo source and every postcondition (value, frame, identity of result, errors before any write) is discharged by z3/sympy/cvc5; '
            'callers are checked against callee contracts. Proof level is right because the code is a finite decision tree over pointwise primitives.',
    'note': 'trusted: pyvc interpreter + NumPy/BLAS kernel contracts K1-K5, floats as reals (A1), no memory overlap between distinct elements (A2); '
            '__pow__/__ipow__ for exponents -4..8 only (bounded-in: exponent)',
    'technique': 'contract-based deductive verification: VC generation by symbolic execution of the real source (ast) against sidecar contracts, z3/sympy/cvc5',
}
PROPS['C04'] = {
    'level': 'proof',
    'text': 'Deductive: the 9 operator-expression classes are instantiated through their real __init__ with abstract operands (arbitrary maps '
            'app(A,.), linear or not, space- or field-valued) and the real _call (both call forms) is proved equal to the table semantics; '
            'every Operator arithmetic overload (incl. the OperatorRightScalarMult.__mul__ override and scalar merging) is proved to return an operator '
            'whose semantics equals the table for all v; domain/range/linearity as implied. Arbitrary depth by structural induction over contracts.',
    'note': 'trusted: pyvc interpreter, contract of Operator.__new__ dispatch (checked natively in C03), contracts of element/space arithmetic (C01) and '
            'Operator.__call__ (C03); A ** n unrolled for n <= 6 (bounded-in: n); Functional overloads are in C09',
    'technique': 'contract-based deductive verification: symbolic execution of the real source against sidecar contracts, structural induction over operator expressions, z3',
}
PROPS['C10'] = {
    'level': 'proof',
    'text': 'Deductive: for every pointwise / norm-coupled proximal _call (all option combinations), the default operators and the 9 expression '
            'classes, the real Operator.__call__ is executed symbolically as op(x), op(x,out=y), op(x,out=x) on one symbolic input of arbitrary size; '
            'the value left in x by the aliased call is proved equal to op(x) (z3). Expression classes are alias-safe given alias-safe operands, so '
            'arbitrary wrappers follow by structural induction.',
    'note': 'trusted: pyvc interpreter, element-API contracts (arithmetic C01, ufuncs pointwise like NumPy C17, weighted norms C02), reals (A1); '
            'not reached: proj_l1/proj_simplex based proximals (sorting), Lambert-W, product-space (group) proximals',
    'technique': 'contract-based deductive verification: symbolic execution of the real _call under the alias pattern x is out, relational obligation vs the non-aliased run, z3',
}
PROPS['C03'] = {
    'level': 'proof',
    'text': 'Deductive: the real Operator.__call__ and the two bridging functions are proved to refine the call contract for an arbitrary operator '
            '(error classes, errors before the implementation is invoked - ghost counter -, result in range, out returned as the very object, '
            'value independent of stale out, x untouched); the implementation contract (new result object that is no view, in-place == out-of-place, '
            'frames) is proved for every proximal, default operator and expression-class _call over arbitrary sizes/values.',
    'note': 'trusted: pyvc interpreter, element-API contracts, Operator.__new__ dispatch contract (cross-checked natively over all 200+ Operator subclasses, '
            'bounded unit); _calls of tensor_ops / pspace_ops / transforms are not under contract here',
    'technique': 'contract-based deductive verification: refinement of the call contract by the real __call__ (symbolic execution, z3), per-class implementation contracts',
}
PROPS['C05'] = {
    'level': 'proof',
    'text': 'Deductive: the adjoint returned by each of the 7 operator-expression classes (abstract linear operands known only through Adj(A, A*)) '
            'and by the pointwise / rank-one default operators on an arbitrary weighted space is proved to satisfy <Ax,y> = <x,A*y> for all x, y '
            '(Gram normal form: sesquilinearity, adjoint law, conjugate-multiplication law; summand-wise on the documented weighted sum), to map range to domain '
            'and to have an adjoint acting like the operator; non-linear instances must raise. Finite-difference / resizing transposes: C13 / C16.',
    'note': 'trusted: pyvc interpreter, C01/C03/C04 contracts, inner product = positive weighted sum (C02). Not under contract: MatrixOperator, sampling, '
            'block operators, FFT/wavelet/ray transforms (external kernels); non-uniformly weighted discretizations for difference/resizing operators',
    'technique': 'contract-based deductive verification: adjoint identity as a postcondition over abstract inner products (Gram normal form), z3',
}
PROPS['C06'] = {
    'level': 'proof',
    'text': 'Deductive: for each of the 9 operator-expression classes with abstract operands (derivatives of operands are arbitrary linear maps dA[p], one per '
            'semantically distinct point) the operator returned by the real derivative(x0) is proved to act on every direction as the textbook sum / chain / '
            'product rule at the correct inner point, to be linear and to have the right domain/range; closed-form derivatives of the pointwise default operators '
            'are proved equal to the symbolic derivative of the expression extracted from _call.',
    'note': 'trusted: pyvc interpreter, C01/C03/C04 contracts, the textbook rules as specification. Not under contract: PointwiseNorm, ufunc operators, '
            'Norm/Dist operators, product-space operators; central-difference convergence order is an analysis fact',
    'technique': 'contract-based deductive verification: derivative rules as postconditions over abstract Frechet derivatives, symbolic differentiation of extracted pointwise terms, z3',
}
PROPS['C09'] = {
    'level': 'proof',
    'text': 'Deductive: each derived functional class (14 constructions) is built through its real constructor from abstract functionals (fval, grad, '
            'Lipschitz constant) and proved to take the documented value, to return a gradient equal to the sum / chain / product / quotient rule at the '
            'correct inner points, derivative(x)(d) = <grad h(x), d>, and a finite grad_lipschitz that dominates the bound of the Lipschitz algebra; '
            'Functional.__mul__/__rmul__/__add__/__sub__ are proved against the algebra table incl. linearity shortcuts.',
    'note': 'trusted: pyvc interpreter, C01/C03-C06 contracts, calculus rules and Lipschitz algebra as specification, real spaces. Not under contract: '
            'gradients of built-in functionals (KL, Huber, group norms), SeparableSum',
    'technique': 'contract-based deductive verification: gradient / value / Lipschitz rules as postconditions over abstract functionals, Gram normal form, z3',
}
PROPS['C08'] = {
    'level': 'proof',
    'text': 'Deductive: for every derived functional class with a convex_conj (9 constructions incl. nested scalings, translation, linear perturbation, '
            'infimal convolution, Bregman distance) the expression returned by the real property is proved to take the value of the Fenchel rule in f* of the '
            'abstract parts (signs and reciprocals exactly), the biconjugate computed by the code takes the values of h, the default conjugate proximal satisfies '
            'the Moreau decomposition for all x and sigma > 0; Fenchel-Young with equality at the gradient for the L2-squared pair on extracted integrands.',
    'note': 'trusted: pyvc interpreter, C01/C03/C04/C09 contracts, Fenchel calculus as specification, f** = f for abstract parts (A6). Partial: built-in '
            'pairs other than L2NormSquared (Lp / indicator balls, KL, Huber, QuadraticForm) are not under contract',
    'technique': 'contract-based deductive verification: conjugation rules and Moreau identity as postconditions over abstract conjugates / proximals, z3 + polynomial normal form',
}
PROPS['C07'] = {
    'level': 'proof',
    'text': 'Deductive: for the pointwise closed-form proximals (L1, L2^2, their conjugates, box, Huber, constant; scalar and per-point sigma, with/without g) '
            'the value returned by the real _call at the generic index of an arbitrary weighted space is proved by z3 to minimise phi(z) + (z-x_i)^2/(2 sigma_i) '
            'over ALL real z (and to satisfy the constraint); KL conjugate by stationarity; proximal_l2 by sub-gradient optimality in the space norm; the calculus '
            'rules (translation, argument / positive scaling, quadratic perturbation, offset, conjugation, Bregman) by reduction of (x-p)/sigma in subdiff h(p) '
            'to the prox characterisation of the abstract part.',
    'note': 'trusted: pyvc interpreter, element-API contracts, separability, sub-differential calculus and prox characterisation (A6), eps fudge factors = 0. '
            'Not reached: sort/SVD/Lambert-W based proximals, product-space (group) proximals, SeparableSum',
    'technique': 'contract-based deductive verification: optimality over all z as a postcondition at the generic index (z3 QF_NRA), sub-differential calculus for derived functionals',
}
PROPS['C13'] = {
    'level': 'proof',
    'text': 'Deductive: the real finite_diff is executed by the interpreter on closure arrays of SYMBOLIC length n (free contents, stale out) for all 3 methods x '
            '10 pad modes: forward modes equal stencil(ext_mode(f))/dx at the generic index for every n >= n_min; every mode is linear; for every mode the matrix entries '
            'of the mode and of the mode named by _ADJ_METHOD/_ADJ_PADDING (read from source) satisfy M_adj(j,k) = -M(k,j) for ALL j,k,n (delta trick) - including the short-axis '
            'corrections; error paths; 2-d arrays along both axes.',
    'note': 'trusted: pyvc interpreter + closure-array kernel contracts (slice normalisation, operands captured before assignment), z3 LIA/LRA. The operator classes '
            '(PartialDerivative/Gradient/Divergence/Laplacian: delegation to finite_diff, adjoint/derivative constructor arguments) are not under contract yet',
    'technique': 'contract-based deductive verification: symbolic execution of the real slice code on closure arrays with symbolic extents, delta trick for transposes, z3',
}
PROPS['C16'] = {
    'level': 'proof',
    'text': 'Deductive: the real resize_array with all its slice helpers is executed on closure arrays with SYMBOLIC old/new extents and offsets (1-d grow/shrink/same, '
            '2-d grow-grow / grow-shrink / shrink-grow incl. corners) for the 5 pad modes: out(k) = EXT_mode(arr)(k - offset) at the generic index, block copied unchanged, '
            'independent of stale out; documented size limits raise ValueError; forward and adjoint directions are transposes for all extents (delta trick with sparse-support sums); '
            'crop(extend(a)) = a.',
    'note': 'trusted: pyvc interpreter + closure-array kernel contracts, contracts of the offset-normalisation helpers (cross-checked natively, bounded), z3 + polynomial normal form; '
            'ndim <= 2 (bounded-in: ndim); ResizingOperator / _resize_discr not under contract yet',
    'technique': 'contract-based deductive verification: symbolic execution of the real padding code on closure arrays with symbolic extents, delta trick, region case split, z3 / sympy',
}
PROPS['C14'] = {
    'level': 'proof',
    'text': 'Deductive (per axis, generic strictly increasing coordinate vector of SYMBOLIC length n): the real RectPartition.__init__ builds boundaries bdry(0)=min, '
            'bdry(n)=max, midpoints inside, strictly increasing, each node in its cell, nodes_on_bdry flags; cell_sizes_vecs = bdry differences (telescoping lemma gives the extent), '
            'boundary fractions * stride = boundary cell sizes; index(p) returns the containing cell with the tie rule and the fractional position; uniform_partition completes '
            'every parameter subset x nodes_on_bdry sides consistently; uniform_grid_fromintv places nodes by the affine formula.',
    'note': 'trusted: pyvc interpreter + closure arrays, light object models of IntervalProd/RectGrid, searchsorted / linspace kernel contracts, z3 with quantified monotonicity. '
            'Known finding: single-node axes report cell size 0. Not under contract: __getitem__/insert/append/squeeze/byaxis N-d bookkeeping',
    'technique': 'contract-based deductive verification: symbolic execution of the real partition code on closure arrays of symbolic length, induction lemma for telescoping, z3',
}
PROPS['C15'] = {
    'level': 'proof',
    'text': 'Deductive (partial): the real interpolator classes (_find_indices, the weight/edge helpers, _NearestInterpolator._evaluate, _PerAxisInterpolator._evaluate) are executed '
            'on arbitrarily many evaluation points (pointwise model over the point index) of a generic strictly increasing grid of symbolic size, ndim 1 and 2: inside the hull the point '
            'is bracketed with 0 <= ndist <= 1; nearest returns the closer node (right on ties); linear / mixed returns the multilinear blend of the surrounding nodes; node values are '
            'reproduced; affine functions are reproduced exactly.',
    'note': 'trusted: pyvc interpreter, pointwise + lookup-table kernel contracts, searchsorted contract (K6), z3 + polynomial normal form. NOT under contract: creating elements from callables '
            '(sampling_function, vectorize, _make_dual_use_func: reflection / exception-driven control flow), meshgrid input, ndim >= 3, outside the hull',
    'technique': 'contract-based deductive verification: symbolic execution of the real interpolation code at a generic evaluation point, z3 / sympy normal form',
}
PROPS['C02'] = {
    'level': 'proof',
    'text': 'Deductive: _inner_default / _norm_default / _pnorm_* and the constant / array weighting classes are executed for symbolic size (all size / BLAS regimes), '
            'real and complex dtype and free contiguity flags and proved to return the documented weighted sums (c*SUM(x conj y), SUM(w x conj y), p-norms incl. inf, '
            'dist = norm of the difference through the real lincomb); both operands raveled in the same order; DiscretizedSpace._inner/_norm/_dist hand boundary-scaled '
            'arrays (product of the boundary-cell fractions per axis, corners included; exponent 1 resp. p) to the tensor space (ndim 1, 2).',
    'note': 'trusted: pyvc interpreter, kernel contracts K3-K5 (sums invariant under a common permutation), sums linear / monotone / congruent, reals, positive weights. '
            'Axioms (symmetry, linearity, Cauchy-Schwarz, triangle inequality) are theorems about the proved closed form, not code obligations. Not under contract: product-space '
            'weightings, custom inner/norm/dist, ndim >= 3 boundary scaling',
    'technique': 'contract-based deductive verification: symbolic execution at a generic index with reduction records, closure arrays for the boundary scaling, z3',
}
PROPS['C11'] = {
    'level': 'proof',
    'text': 'Deductive, relational loop contracts with a SYMBOLIC iteration count (the loop is never unrolled): for admm_linearized / doubleprox_dc / adupdates the pre-loop code of the '
            'optimised solver and of its _simple reference reach coupled loop heads, and from ANY coupled pair (generic state, junk in the reusable buffers, private invariant tmp_ran == L(x)) '
            'one execution of each real loop body yields coupled states again and exactly one callback on the iterate object => identical iterate sequences for every niter. For landweber, kaczmarz '
            '(fixed order), proximal_gradient, (os)mlem, steepest_descent (constant step) and pdhg (x_relax, y passed back, or defaulted) the body is proved equal to the textbook update F of the '
            'exposed state only (independent of k, niter, buffer contents), pre/post-loop code leaves it alone => n then m == n+m. Abstract operators / functionals / proximals: every problem instance.',
    'note': 'trusted: pyvc interpreter, contracts C01/C03-C10 of elements, Operator.__call__ (aliasing out=x), adjoint, derivative, proximal factories of abstract functionals; induction over the '
            'iteration number / iterate lemma as meta-lemmas; exact reals (rounding not decided). Lists of operators: m in {1,2} (bounded-in: m). Thorough tier adds a bounded native monitor '
            '(real solvers, library functionals incl. KL / indicators / Huber) that is never counted as proved. Not claimed: accelerated pdhg, callable lam(k), accelerated_proximal_gradient',
    'technique': 'contract-based deductive verification: relational loop invariants (initiation + consecution from a havocked generic state) over symbolic execution of the real loop bodies, z3',
}
PROPS['C12'] = {
    'level': 'proof',
    'text': 'Deductive, on the real loop bodies from a generic loop-head state (symbolic iteration count, abstract linear operators / functionals, Gram algebra of inner products): '
            'CG: the invariant {r = b - A x, <p,r> = <r,r>, <r,Ap> = <p,Ap>} is inductive and gives E(x+) = E(x) - <r,r>^2/<p,Ap> <= E(x), <p+,Ap> = 0, <r+,r> = 0; CGN: analogous, residual never increases; '
            'Landweber / Kaczmarz (fixed and random order, m <= 3): residual resp. distance to a solution never increases for 0 < omega <= 2/||A||^2; BacktrackingLineSearch (while-loop contract) returns an '
            'Armijo step, so steepest descent never increases f; power_method_opnorm never exceeds any valid norm bound. PDHG (plain + accelerated), Douglas-Rachford, forward-backward, (accelerated) proximal '
            'gradient, linearized ADMM: one body execution == documented update; a state left unchanged satisfies the KKT inclusions (prox characterisation); a KKT point is left unchanged; default step-size rules admissible.',
    'note': 'trusted: pyvc interpreter, contracts C01-C10, Gram algebra (bilinearity, symmetry, adjoint law, Cauchy-Schwarz / operator-norm instances), prox characterisation (A6); the convergence theory on top of '
            'the one-step facts is mathematics, not code. Known finding: forward_backward_pd runs without over-relaxation (x_old aliases x). Not decided: CG exactness after n steps (bounded native monitor only), '
            'limits, Newton / BFGS / nonlinear CG. Thorough tier adds a bounded native monitor, never counted as proved',
    'technique': 'contract-based deductive verification: inductive loop invariants and one-step lemmas over symbolic execution of the real loop bodies in a Gram algebra, sub-differential calculus via prox atoms, z3',
}
PROPS['C20'] = {
    'level': 'proof',
    'text': 'Deductive: the real __eq__ / __ne__ / __hash__ / __contains__ of 23 classes (sets.py incl. CartesianProduct / SetUnion / SetIntersection / FiniteSet, IntervalProd, the weighting classes incl. the '
            'NumPy / product-space subclasses, NumpyTensorSpace, ProductSpace, RectGrid, RectPartition, DiscretizedSpace) are executed on instances with symbolic fields (lengths, shapes, exponents, constants, '
            'array contents of symbolic length, abstract leaf sets / spaces with an arbitrary equivalence) and proved reflexive, symmetric (also across 18 mixed class pairs, with Python\'s subclass-first '
            'dispatch), transitive, != the negation of ==, hashable with a == b ==> equal abstract hash keys (bytes: equal bit patterns, the two float zeros distinguished); x in space <=> x.space == space; '
            'TensorSpace._astype hands on shape, dtype and the whole weighting incl. exponent.',
    'note': 'trusted: pyvc interpreter, Python hashing guarantees for numbers / tuples / frozensets / bytes, class invariants of the instances (built field-wise, not through __init__), structural induction over the '
            'leaves, NumPy broadcasting rule for 1-d operands. 5 genuine defects found and fixed in /repo (fix: commits). Not under contract: element() factories (array conversion, memory sharing), byaxis / '
            'ProductSpace.__getitem__ / element indexing, MatrixWeighting, custom weightings',
    'technique': 'contract-based deductive verification: equivalence / hash-coherence laws as relational postconditions over symbolic execution of the real dunder methods, abstract hash keys, z3',
}
PROPS['C17'] = {
    'level': 'proof',
    'text': 'Deductive on ODL\'s dispatch around NumPy (NumPy\'s kernels are external): NumpyTensor.__array_ufunc__, writable_array, Tensor.__array__, NumpyTensorSpace.element / asarray and '
            'DiscretizedSpaceElement.__array_ufunc__ are executed with an ABSTRACT ufunc (nout 1 and 2 with different result dtypes; __call__, reduce, accumulate, outer, at, reduceat) and abstract ndarrays known by '
            'identity, for every out kind (none / element / tensor / ndarray), result dtype kind and dtype keyword: NumPy is called once with the caller\'s inputs (elements replaced by their own arrays, order kept) '
            'and keywords; results are wrapped without copy in a space of the same class with shape / dtype of the result and the operand\'s weighting (exponent) where applicable; given out objects are returned '
            'and receive the result directly or by write-back; error / NotImplemented paths; element(arr) shares memory for matching dtype and shape.',
    'note': 'trusted: pyvc interpreter, the contract of NumPy\'s ufunc call / asarray / slice assignment on abstract arrays, result-space constructor taken by its arguments. Not under contract: the numbers NumPy computes, '
            'ProductSpace ufuncs and the legacy x.ufuncs namespace, reduce / outer result spaces of DiscretizedSpaceElement (partition algebra)',
    'technique': 'contract-based deductive verification: symbolic execution of the real dispatch code against an abstract ufunc with a ghost call log and identity-tracked abstract arrays',
}
PROPS['C19'] = {
    'level': 'proof',
    'text': 'Deductive in object-array mode (arrays of small concrete shapes with SYMBOLIC entries; broadcasting / einsum / transposes are NumPy\'s own on dtype=object arrays; cos / sin of a symbolic angle is a pair '
            '(c, s) with c^2 + s^2 = 1): euler_matrix (2d, ZXZ 3d) and axis_rotation_matrix (unit axis) are orthonormal with det 1, fix the axis, have the documented shape and agree entrywise with single evaluation; '
            'Flat1d / Flat2d / Circular detectors: surface_deriv is the derivative of surface (symbolic differentiation), the normal is a unit vector orthogonal to it, the measure its length; Parallel2d / 3dAxis / '
            '3dEuler, FanBeam (flat and curved), ConeBeam (helical pitch): rotation matrices are rotations, det_point_position = det_refpoint + R surface, det_to_src = src_position - det_point_position normalised to '
            'unit length, source / detector reference points follow the textbook rigid motion, parallel rays are R n(u): constant in u and orthogonal to the rotated axes; broadcast evaluation == entrywise.',
    'note': 'trusted: pyvc interpreter in object-array mode (NumPy\'s shape semantics reused, not modelled), exact reals, geometry instances built field-wise with their class invariants (unit axes, source-detector '
            'direction perpendicular to the axis), contract of perpendicular_vector (boolean-mask code), two abstract linear-algebra lemmas proved by z3. Shapes are configurations (scalar, (2,), (2,1)x(1,2)). '
            'Not under contract: constructors / frommatrix, the factories parallel_beam_geometry / cone_beam_geometry / helical_geometry (detector coverage), geometry slicing, shift functions other than the default',
    'technique': 'contract-based deductive verification: symbolic execution of the real NumPy code on object arrays with symbolic entries, trigonometric normal form (c^2 + s^2 = 1), polynomial identities by z3 / sympy',
}
PROPS['C18'] = {
    'level': 'proof',
    'text': 'Deductive for the part of the property ODL itself implements (the FFT / wavelet kernels are external): reciprocal_grid / realspace_grid are executed on grids of 1 and 2 axes with SYMBOLIC shape, '
            'stride and minimum for every shift / halfcomplex / axes-subset / parity configuration and proved to give stride 2 pi/(n s) on transformed axes, the documented start points, n//2+1 points on the '
            'half-complex axis, untouched other axes, realspace_grid(reciprocal_grid(g)) = g, and the frequency range used by dft_postprocess_data; the DFT operators\' _call_numpy / _call_pyfftw are executed over '
            'an abstract DFT algebra (ifftn(v) = conj(F(conj v))/N, inversion theorem, rfftn / irfftn an inverse pair, documented pyfftw_call contract): forward == documented transform of each sign (for complex '
            'data), inverse(forward(x)) == x, NumPy and FFTW back-ends agree.',
    'note': 'trusted: pyvc interpreter (object-array mode), the DFT algebra axioms, uniform_grid taken by its arguments. NOT decided (out of reach of contracts on this code base): the numerical kernels of numpy.fft / '
            'pyfftw / PyWavelets, convergence of the continuous transform to the analytic Gaussian, wavelet coefficient flattening / cropping, pre-processing phase factors, in-place plan reuse, rounding',
    'technique': 'contract-based deductive verification: symbolic execution of the real grid arithmetic on object arrays with symbolic shape / stride, term algebra with the DFT inversion theorem for the back-end dispatch, z3',
}
for _k in PROPS:
    NOT_APPLICABLE.pop(_k, None)


# ---- amendments (units added after the first registration; kept as replacements so that a stale phrase cannot survive unnoticed)

def _amend(pid, field, old, new):
    assert old in PROPS[pid][field], (pid, field, old[:50])
    PROPS[pid][field] = PROPS[pid][field].replace(old, new)


_amend('C02', 'note', 'Not under contract: product-space weightings, custom inner/norm/dist, ndim >= 3 boundary scaling',
       'Product-space array / constant weightings are under contract over abstract component inner products (p in {1, 2, inf}). Not under contract: general p on product spaces, '
       'custom inner/norm/dist, ndim >= 3 boundary scaling')
_amend('C03', 'note', 'bounded unit); _calls of tensor_ops / pspace_ops / transforms are not under contract here',
       'bounded unit); ProductSpaceOperator._call is proved per entry pattern / visiting order of the operator matrix (68 enumerated patterns, all operators and inputs); the sort-based '
       'proj_simplex is taken by contract and that contract is cross-checked natively (bounded unit); _calls of tensor_ops / other pspace_ops / transforms are not under contract here')
_amend('C05', 'note', 'Not under contract: MatrixOperator, sampling, block operators',
       'PointwiseInner / PointwiseInnerAdjoint on weighted power spaces and operators between real and complex spaces are under contract. Not under contract: MatrixOperator, sampling, block operators')
_amend('C06', 'note', 'Not under contract: PointwiseNorm, ufunc operators, Norm/Dist operators, product-space operators',
       'PointwiseNorm.derivative is under contract (weights, vector field, frame; sympy gradient lemma). Not under contract: ufunc operators, Norm/Dist operators, other product-space operators')
_amend('C08', 'note', 'Partial: built-in pairs other than L2NormSquared (Lp / indicator balls, KL, Huber, QuadraticForm) are not under contract',
       'Lp-norm / dual-ball pairs are under contract; partial: other built-in pairs (KL, Huber, QuadraticForm) are not')
_amend('C10', 'note', 'not reached: proj_l1/proj_simplex based proximals (sorting), Lambert-W, product-space (group) proximals',
       'proj_l1 and the L-infinity proximals are under contract with proj_simplex (sorting) taken by contract - cross-checked natively by a bounded unit; not reached: Lambert-W, '
       'product-space (group) proximals')
_amend('C13', 'note', 'The operator classes (PartialDerivative/Gradient/Divergence/Laplacian: delegation to finite_diff, adjoint/derivative constructor arguments) are not under contract yet',
       'The operator classes (PartialDerivative/Gradient/Divergence/Laplacian) are under contract for the constructor arguments of derivative / adjoint (class units)')
_amend('C15', 'technique', 'z3 / sympy normal form',
       'z3 / sympy normal form; the sampling of callables (reflection on user callables) only by a BOUNDED native stand-in that is labelled bounded and never counted as proved')
_amend('C15', 'note', 'NOT under contract: creating elements from callables (sampling_function, vectorize, _make_dual_use_func: reflection / exception-driven control flow), meshgrid input, ndim >= 3, outside the hull',
       "Resampling's hand-over of the per-axis schemes is under contract. Creating elements from callables (sampling_function, vectorize, _make_dual_use_func: reflection / exception-driven "
       'control flow) has NO deductive contract: bounded native units sampling/* (callable kinds x floating dtypes x two-use histories of one callable object, > 1000 evaluations) stand in, '
       'never counted as proved; they found one defect that was repaired. Not decided: meshgrid bookkeeping, ndim >= 3, outside the hull')
_amend('C16', 'note', 'ResizingOperator / _resize_discr not under contract yet',
       '_resize_discr (1 axis, and with a second axis of unchanged size) and ResizingOperator.__init__ offsets are under contract')
_amend('C17', 'note', 'reduce / outer result spaces of DiscretizedSpaceElement (partition algebra)', 'reduce result spaces of DiscretizedSpaceElement (partition algebra)')
_amend('C18', 'technique', 'term algebra with the DFT inversion theorem for the back-end dispatch, z3',
       'term algebra with the DFT inversion theorem for the back-end dispatch, z3; the complex phase factors and the wavelet coefficient bookkeeping only by BOUNDED native stand-ins '
       '(every basis vector of small grids), labelled bounded and never counted as proved')
_amend('C18', 'note', 'NOT decided (out of reach of contracts on this code base): the numerical kernels of numpy.fft / pyfftw / PyWavelets, convergence of the continuous transform to the analytic Gaussian, '
       'wavelet coefficient flattening / cropping, pre-processing phase factors, in-place plan reuse, rounding',
       'Wavelet adjoint scaling / partner arguments are under contract (PyWavelets orthogonality trusted). BOUNDED stand-ins (never counted as proved): ft-definition/* compares FourierTransform '
       'of both back-ends with its defining quadrature sum on every basis vector of small grids (linear operator: a basis decides all inputs of that shape) for all axes subsets x shifts x sign x '
       'real / complex / half-complex, wavelet-roundtrip/* does the same for W.inverse(W(e)) over wavelet families x levels x padding modes. 2 known findings (half-complex with an unshifted '
       'non-halved axis; wavelet adjoint with an odd length), 1 defect repaired. NOT decided: the numerical kernels of numpy.fft / pyfftw / PyWavelets, convergence to the analytic Gaussian, '
       'arbitrary shapes for the bounded parts, plan reuse across calls, rounding')
_amend('C19', 'note', 'Not under contract: constructors / frommatrix, the factories parallel_beam_geometry / cone_beam_geometry',
       'Detector constructors (assume-guarantee), slicing and the detector coverage of parallel_beam_geometry are under contract; cone_beam_geometry coverage is a known finding. '
       'Not under contract: geometry constructors / frommatrix, sampling rates of the factories')
_amend('C20', 'note', 'Not under contract: element() factories', 'astype chains through the real / complex space caches are under contract. Not under contract: element() factories')
_amend('C03', 'note', 'the sort-based proj_simplex is taken by contract',
       'BOUNDED native stand-ins (never counted as proved) cover _calls outside the deductive subset: MatrixOperator on every basis vector of domains with 1-3 axes, and one small instance '
       'of ~40 operator classes / options of tensor_ops / pspace_ops / diff_ops / discr_ops / ufunc_ops (contracts/oppool.py; found 3 repaired defects); the sort-based proj_simplex is taken by contract')
_amend('C05', 'note', 'Not under contract: MatrixOperator, sampling, block operators',
       'A BOUNDED native unit (never counted as proved) checks the adjoint identity in the weighted inner products for the operator pool of contracts/oppool.py (MatrixOperator, sampling, '
       'block operators, difference / resizing operators on boundary-weighted spaces, Fourier / wavelet transforms); 4 open known findings come from it. No deductive contract for: MatrixOperator, sampling, block operators')
_amend('C06', 'note', 'Not under contract: ufunc operators, Norm/Dist operators, other product-space operators',
       'A BOUNDED native unit (never counted as proved) compares derivative(x)(d) with central differences for the operator pool of contracts/oppool.py. No deductive contract for: ufunc operators, '
       'Norm/Dist operators, other product-space operators')
_amend('C15', 'note', 'Not decided: meshgrid bookkeeping, ndim >= 3, outside the hull',
       'Nearest interpolation outside the hull of the nodes is under contract. Not decided: linear interpolation outside the hull, meshgrid bookkeeping, ndim >= 3')
_amend('C20', 'note', 'Not under contract: element() factories',
       'ProductSpace.element for sequences of proper elements (length check, parts, membership of the result) is under contract. Not under contract: the other element() factories')


# ---- session 3 additions (appended to the notes / techniques; DESIGN.md section 4 has the details)
def _append(pid, field, text):
    PROPS[pid][field] = PROPS[pid][field].rstrip() + ' ' + text


_append('C01', 'note', 'Added: product spaces (ProductSpace._lincomb/_multiply/_divide/zero/one and the broadcasting dunders as installed by the module-level loop, executed down to the component contracts; '
        'nesting by structural induction) and the DiscretizedSpace delegations are under contract. Not decided: a broadcast operand that is a part of the left operand (overlap of distinct operands).')
_append('C02', 'note', 'Added: the is_uniformly_weighted flag of DiscretizedSpace and product-space norms over integer-dtype components are under contract.')
_append('C03', 'note', 'Added: in non-aliased call forms no operand of an expression class is evaluated with its output aliased to its input; the bounded pool holds ~50 operators.')
_append('C04', 'note', 'Added: nested vector sums; building an expression does not write to the caller\'s vectors (snapshot before construction).')
_append('C05', 'note', 'Added (deductive): ProductSpaceOperator / Broadcast / Reduction / DiagonalOperator.adjoint and ComponentProjection(Adjoint) by constructor-argument claims over abstract blocks '
        '(with the C03 call contract this is the adjoint in the unweighted product spaces the constructors accept); ResizingOperator forward / adjoint / adjoint.adjoint resize_array call claims for 5 pad modes x 8 shape pairs.')
_append('C06', 'note', 'Added (deductive): ProductSpaceOperator / Broadcast / Reduction / DiagonalOperator.derivative (block k is the derivative of block k at the component named by its column), PointwiseNorm._call for exponents 1, 2, inf.')
_append('C07', 'note', 'Added (deductive): group proximals proximal_l1_l2 / proximal_convex_conj_l1_l2 on weighted power spaces (closed form in the weighted pointwise norm + z3 KKT lemma), SeparableSum.proximal through the real '
        'combine_proximals. Added (BOUNDED, never counted as proved): minimiser probes for 130 built-in functional x space instances (contracts/funcpool.py) - 1 defect repaired, 3 open findings.')
_append('C07', 'technique', '; bounded native objective probes for the sort / SVD / group-norm based built-ins, labelled bounded')
_append('C08', 'note', 'Added (deductive): SeparableSum.convex_conj. Added (BOUNDED): Fenchel-Young / biconjugate / Moreau for the functional pool - 1 defect repaired (QuadraticForm.convex_conj), 1 open finding.')
_append('C08', 'technique', '; bounded native Fenchel-Young / Moreau checks for built-in pairs, labelled bounded')
_append('C09', 'note', 'Added (deductive): Huber.gradient on weighted power spaces, SeparableSum value / gradient. Added (BOUNDED): gradient vs central differences for the functional pool.')
_append('C11', 'note', 'Added: Python lists handed to a solver (sensitivities, step sizes, operators, data) keep their objects and contents.')
_append('C13', 'note', 'Added (deductive): _call of Laplacian / PartialDerivative / Divergence on a 1-d domain of symbolic length against separately computed finite_diff references. Added (BOUNDED): short axes 2-7 natively for all methods x pad modes.')
_append('C14', 'note', 'Added (deductive): insert / append of IntervalProd, RectGrid, RectPartition (axes of set and grid stay aligned). Added (BOUNDED): slices / index lists / byaxis / squeeze / insert on the native partition pool.')
_append('C15', 'note', 'Added (BOUNDED): interpolation over memory layouts of the node values (C / F / transposed / strided) and Resampling between spaces of equal shape with different node placement.')
_append('C16', 'note', 'Added (BOUNDED): adjoint == transpose on every basis vector for arrays with 3-4 axes; the padding constant is stored in the dtype of the range.')
_append('C17', 'note', 'Added (deductive): the legacy product-space ufunc wrappers (wrap_ufunc_productspace); element(arr) shares memory with every writeable strided view (symbolic strides of either sign).')
_append('C18', 'note', 'Added (deductive): prepared FFTW plans - the contract of pyfftw_call executes a supplied plan as planned, init_fftw_plan followed by calls must equal the numpy back-end.')
_append('C19', 'note', 'Added (BOUNDED): mirror-image volumes get mirror-image detectors from the 3-d factories; a volume never gets a shorter detector than a sub-volume.')
_append('C20', 'note', 'Added (deductive): DiscretizedSpace.byaxis_in (class / shape / dtype / exponent / cell-volume weighting of the sub-space).')
_append('C01', 'note', 'Added (BOUNDED): NaN in the previous contents of the output never influences set_zero / lincomb / multiply / assign / in-place operator calls in any size regime (1 defect repaired).')
_append('C13', 'note', 'Added (BOUNDED): the is_linear flag of the four operator classes is truthful and (op * a)(x) == op(a x) (1 defect repaired: Laplacian).')
_append('C17', 'note', 'Added (BOUNDED): reduce with integer / negative / tuple axes against NumPy (1 defect repaired: negative axes on discretized elements).')
_append('C09', 'note', 'Added (deductive): quadratic perturbations of linear functionals incl. the affine case.')
_append('C06', 'note', 'Added (deductive): no operand derivative is taken at a temporary the expression keeps for reuse (OperatorComp with tmp).')
