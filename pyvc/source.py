"""Reads the real source of the repository under verification on every run.

Nothing is imported: modules are parsed with `ast`, functions/classes are located by
qualified name.  PYVC_REPO (default /repo) selects the tree.
"""
import ast
import hashlib
import os


def repo_root():
    return os.environ.get('PYVC_REPO', '/repo')


class ModuleInfo(object):
    def __init__(self, name, path, tree, src):
        self.name, self.path, self.tree, self.src = name, path, tree, src
        self.is_pkg = os.path.basename(path) == '__init__.py'
        self.defs = {}        # top-level name -> ast node (FunctionDef, ClassDef, Assign value)
        self.imports = {}     # local name -> ('mod', modname) | ('from', modname, attr)
        self.stars = []       # modules imported with *
        self.all = None
        self._scan()

    def _abs(self, level, module):
        if level == 0:
            return module
        parts = self.name.split('.')
        if not self.is_pkg:
            parts = parts[:-1]
        if level > 1:
            parts = parts[:-(level - 1)]
        return '.'.join(parts + ([module] if module else []))

    def _scan_stmt(self, n):
        if isinstance(n, (ast.FunctionDef, ast.ClassDef)):
            self.defs[n.name] = n
        elif isinstance(n, ast.Assign):
            for t in n.targets:
                if isinstance(t, ast.Name):
                    self.defs[t.id] = n.value
                    if t.id == '__all__':
                        try:
                            self.all = list(ast.literal_eval(n.value))
                        except Exception:
                            pass
                elif isinstance(t, ast.Tuple) and isinstance(n.value, ast.Tuple) and len(t.elts) == len(n.value.elts):
                    for tt, vv in zip(t.elts, n.value.elts):
                        if isinstance(tt, ast.Name):
                            self.defs[tt.id] = vv
        elif isinstance(n, ast.AugAssign):
            if isinstance(n.target, ast.Name) and n.target.id == '__all__':
                try:
                    self.all = (self.all or []) + list(ast.literal_eval(n.value))
                except Exception:
                    pass
        elif isinstance(n, ast.Import):
            for a in n.names:
                if a.asname:
                    self.imports[a.asname] = ('mod', a.name)
                else:
                    self.imports[a.name.split('.')[0]] = ('mod', a.name.split('.')[0])
        elif isinstance(n, ast.ImportFrom):
            mod = self._abs(n.level, n.module)
            for a in n.names:
                if a.name == '*':
                    self.stars.append(mod)
                else:
                    self.imports[a.asname or a.name] = ('from', mod, a.name)
        elif isinstance(n, (ast.If, ast.Try)):
            for b in ast.iter_child_nodes(n):
                if isinstance(b, ast.stmt):
                    self._scan_stmt(b)
            for fld in ('body', 'orelse', 'finalbody'):
                for b in getattr(n, fld, []):
                    self._scan_stmt(b)
            for h in getattr(n, 'handlers', []):
                for b in h.body:
                    self._scan_stmt(b)

    def _scan(self):
        for n in self.tree.body:
            self._scan_stmt(n)


class Repo(object):
    def __init__(self, root=None):
        self.root = root or repo_root()
        self.mods = {}

    def find(self, modname):
        """path of a repo module or None when it is external"""
        rel = modname.replace('.', os.sep)
        p = os.path.join(self.root, rel + '.py')
        if os.path.isfile(p):
            return p
        p = os.path.join(self.root, rel, '__init__.py')
        if os.path.isfile(p):
            return p
        return None

    def module(self, modname):
        if modname in self.mods:
            return self.mods[modname]
        p = self.find(modname)
        if p is None:
            self.mods[modname] = None
            return None
        src = open(p).read()
        tree = ast.parse(src, p)
        m = ModuleInfo(modname, p, tree, src)
        self.mods[modname] = m
        return m

    def resolve(self, modname, name, _seen=None):
        """Find where `name` visible in module `modname` is defined.

        Returns ('def', ModuleInfo, node) | ('mod', modname) | ('ext', modname, attr) | None
        """
        _seen = _seen or set()
        if (modname, name) in _seen:
            return None
        _seen.add((modname, name))
        m = self.module(modname)
        if m is None:
            return ('ext', modname, name)
        if name in m.defs:
            return ('def', m, m.defs[name])
        if name in m.imports:
            imp = m.imports[name]
            if imp[0] == 'mod':
                return ('mod', imp[1])
            sub = imp[1] + '.' + imp[2]
            if self.find(sub) is not None and (self.module(imp[1]) is None or imp[2] not in self.module(imp[1]).defs):
                # `from package import submodule`
                r = self.resolve(imp[1], imp[2], _seen)
                if r is not None and r[0] == 'def':
                    return r
                return ('mod', sub)
            r = self.resolve(imp[1], imp[2], _seen)
            return r
        for st in m.stars:
            sm = self.module(st)
            if sm is None:
                continue
            if sm.all is not None and name not in sm.all and not sm.is_pkg:
                continue
            r = self.resolve(st, name, _seen)
            if r is not None and r[0] != 'ext':
                return r
        if m.is_pkg and self.find(modname + '.' + name) is not None:
            return ('mod', modname + '.' + name)
        return None

    def lookup(self, qualname):
        """'pkg.mod:Class.method' -> (ModuleInfo, [nodes along the path])"""
        modname, _, path = qualname.partition(':')
        m = self.module(modname)
        if m is None:
            raise KeyError(qualname)
        node = None
        body = m.tree.body
        chain = []
        for part in path.split('.'):
            if part == '<locals>':
                continue
            found = None
            for n in _walk_defs(body):
                if isinstance(n, (ast.FunctionDef, ast.ClassDef)) and n.name == part:
                    found = n
                    break
            if found is None:
                raise KeyError(qualname)
            chain.append(found)
            body = found.body
        return m, chain


def _walk_defs(body):
    for n in body:
        if isinstance(n, (ast.FunctionDef, ast.ClassDef)):
            yield n
        elif isinstance(n, (ast.If, ast.Try, ast.With, ast.For, ast.While)):
            for fld in ('body', 'orelse', 'finalbody'):
                for x in _walk_defs(getattr(n, fld, [])):
                    yield x
            for h in getattr(n, 'handlers', []):
                for x in _walk_defs(h.body):
                    yield x


def strip_doc(body):
    if body and isinstance(body[0], ast.Expr) and isinstance(body[0].value, ast.Constant) and isinstance(body[0].value.value, str):
        return body[1:]
    return body


def node_hash(node):
    """hash of a function's AST without docstrings (what the verifier actually reads)"""
    import copy
    n = copy.deepcopy(node)
    for sub in ast.walk(n):
        if isinstance(sub, (ast.FunctionDef, ast.ClassDef)):
            sub.body = strip_doc(sub.body) or [ast.Pass()]
    return hashlib.sha256(ast.dump(n).encode()).hexdigest()[:16]
