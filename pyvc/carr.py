"""Closure arrays: N-d arrays with concrete ndim and (possibly) symbolic extents whose contents are a
function  index tuple -> scalar term.  Used for code that moves data across indices (slices, negative
indices, swapaxes, broadcasting): finite differences, padding / resizing, partitions, interpolation.

CBuf   a buffer: shape (tuple of int | S-int), f: index tuple -> scalar
CArr   an affine view on a buffer: for every view axis (buffer axis, start, step=+-1 or k>0, length) or a
       broadcast axis (None), plus fixed indices of dropped buffer axes.
NumPy semantics encoded (K1, K7): right-hand sides are fully evaluated before an assignment (operands are
captured when the expression is formed), slice bounds are normalised and clamped like Python's, integer
indices out of range raise IndexError, `np.empty*` contents are a free function of the index.
"""
import itertools

import z3

from . import core
from .core import S, C, Unsupported, EngineError, sbool, s_and, s_or, s_not, s_if
from . import interp as ip


def smax(a, b):
    if isinstance(a, int) and isinstance(b, int):
        return max(a, b)
    k = known(S.lift(a) >= S.lift(b))
    if k is not None:
        return a if k else b
    return s_if(S.lift(a) >= S.lift(b), a, b)


def smin(a, b):
    if isinstance(a, int) and isinstance(b, int):
        return min(a, b)
    k = known(S.lift(a) <= S.lift(b))
    if k is not None:
        return a if k else b
    return s_if(S.lift(a) <= S.lift(b), a, b)


_CTX = [None]      # current State (set by the interpreter entry points of this module) for term simplification


def set_ctx(st):
    _CTX[0] = st


def known(cond):
    """True / False when the path condition decides the comparison, else None"""
    st = _CTX[0]
    if isinstance(cond, bool):
        return cond
    c = cond.concrete()
    if c is not None:
        return bool(c)
    if st is None:
        return None
    if st.entails(cond):
        return True
    if st.entails(s_not(cond)):
        return False
    return None


def conc(x):
    """python int if the term is a literal, else the term"""
    if isinstance(x, S):
        c = x.concrete()
        if c is not None and not isinstance(c, bool):
            return int(c)
    return x


class CBuf(object):
    _n = itertools.count()

    def __init__(self, shape, f, dtype=None, name=None, support=None):
        self.shape = tuple(conc(s) for s in shape)
        self.f = f
        self.dtype = dtype
        self.name = name or 'cbuf%d' % next(CBuf._n)
        self.writeable = True
        # sparse-support descriptor (over-approximation): None = dense / unknown, else a list of
        # (condition, buffer index tuple): the contents are zero except possibly at those indices
        self.support = support

    def at(self, idx):
        return self.f(tuple(idx))


class Axis(object):
    """view axis -> buffer axis: index i (0 <= i < length) maps to start + step*i"""
    __slots__ = ('baxis', 'start', 'step', 'length')

    def __init__(self, baxis, start, step, length):
        self.baxis, self.start, self.step, self.length = baxis, conc(start), step, conc(length)


class CArr(object):
    def __init__(self, buf, axes=None, fixed=None):
        self.buf = buf
        if axes is None:
            axes = [Axis(k, 0, 1, n) for k, n in enumerate(buf.shape)]
        self.axes = list(axes)              # entries: Axis or None (broadcast / newaxis of length 1)
        self.fixed = dict(fixed or {})      # buffer axis -> fixed index

    # ---- basic attributes
    @property
    def shape(self):
        return tuple(1 if a is None else a.length for a in self.axes)

    @property
    def ndim(self):
        return len(self.axes)

    def __repr__(self):
        return '<carr %s %s>' % (self.buf.name, self.shape)

    def bidx(self, idx, f=None):
        """buffer index tuple for a view index tuple"""
        out = [None] * len(self.buf.shape)
        for k, v in self.fixed.items():
            out[k] = v
        for a, i in zip(self.axes, idx):
            if a is None:
                continue
            out[a.baxis] = conc(S.lift(a.start) + a.step * S.lift(i)) if not (isinstance(a.start, int) and isinstance(i, int)) else a.start + a.step * i
        return tuple(out)

    def at(self, idx, f=None):
        """value at a view index (using buffer contents `f`, default: current)"""
        f = f or self.buf.f
        return f(self.bidx(idx))

    def snapshot(self):
        """read-only copy of the current contents (operands are captured when an expression is formed)"""
        f = self.buf.f
        me = self
        return lambda idx: f(me.bidx(idx))

    # ---- interpreter protocol
    def pv_getattr(self, I, fr, name):
        if name == 'shape':
            return self.shape
        if name == 'ndim':
            return self.ndim
        if name == 'size':
            r = 1
            for s in self.shape:
                r = r * s
            return r
        if name == 'dtype':
            return self.buf.dtype
        if name == 'T':
            return CArr(self.buf, list(reversed(self.axes)), self.fixed)
        if name == 'copy':
            return ip.Builtin('copy', lambda I, fr, a, k: materialise(self))
        if name == 'swapaxes':
            return ip.Builtin('swapaxes', lambda I, fr, a, k: swapaxes(self, a[0], a[1]))
        if name == 'fill':
            def fill(I, fr, a, k):
                assign(I, fr, self, a[0])
            return ip.Builtin('fill', fill)
        if name == 'flags':
            return _Flags(self)
        if name == 'tolist':
            return ip.Builtin('tolist', lambda I, fr, a, k: tolist(I, fr, self))
        if name in ('all', 'any'):
            return ip.Builtin(name, lambda I, fr, a, k: reduce_bool(I, fr, self, name))
        if name in ('astype',):
            return ip.Builtin('astype', lambda I, fr, a, k: self)
        if name == 'ravel' or name == 'flatten' or name == 'reshape':
            raise Unsupported('CArr.%s' % name)
        if name in ('space', '__array_priority__', 'data'):
            raise ip.PyRaise(I.make_exc('AttributeError', name))
        raise Unsupported('closure array attribute %s' % name)

    def pv_len(self, I, fr):
        return self.shape[0]

    def pv_getitem(self, I, fr, idx):
        r = index(I, fr, self, idx)
        return r

    def pv_setitem(self, I, fr, idx, val):
        tgt = index(I, fr, self, idx, for_store=True)
        if not isinstance(tgt, CArr):
            raise EngineError('store target')
        assign(I, fr, tgt, val)

    def pv_binop(self, I, fr, name, other):
        op = name.strip('_')
        refl = op.startswith('r') and op[1:] in _PYOPS
        if refl:
            op = op[1:]
        if op not in _PYOPS:
            return ip.NOTIMPL
        a, b = (other, self) if refl else (self, other)
        return ufunc(I, fr, op, [a, b])

    def pv_inplace(self, I, fr, name, other):
        op = name[3:-2]
        if op not in _PYOPS:
            raise Unsupported('in-place %s on closure array' % op)
        tmp = ufunc(I, fr, op, [self, other])
        assign(I, fr, self, tmp)
        return self

    def pv_unop(self, I, fr, name):
        if name == '__neg__':
            return ufunc(I, fr, 'neg', [self])
        if name == '__pos__':
            return self
        if name == '__abs__':
            return ufunc(I, fr, 'abs', [self])
        raise Unsupported(name)

    def pv_eq(self, I, fr, other):
        return ufunc(I, fr, 'eq', [self, other])

    def pv_truth(self, I, fr):
        raise ip.PyRaise(I.make_exc('ValueError', 'truth value of an array is ambiguous'))

    def pv_isinstance(self, I, cls):
        return getattr(cls, 'name', None) == 'ndarray'

    def pv_iter(self, I, fr):
        n = self.shape[0]
        if not isinstance(n, int):
            raise Unsupported('iteration over a symbolic-length closure array')
        return [index(I, fr, self, i) for i in range(n)]


class _Flags(object):
    def __init__(self, a):
        self.a = a

    def pv_getattr(self, I, fr, name):
        if name == 'writeable':
            return self.a.buf.writeable
        if name in ('c_contiguous', 'contiguous'):
            return True
        if name == 'f_contiguous':
            return self.a.ndim <= 1
        raise Unsupported('flags.%s of a closure array' % name)


_PYOPS = {'add': lambda a, b: a + b, 'sub': lambda a, b: a - b, 'mul': lambda a, b: a * b, 'truediv': lambda a, b: a / b,
          'pow': lambda a, b: a ** b, 'lt': lambda a, b: a < b, 'le': lambda a, b: a <= b, 'gt': lambda a, b: a > b,
          'ge': lambda a, b: a >= b}
_FNS = dict(_PYOPS)
_FNS.update({'neg': lambda a: -a, 'abs': lambda a: abs(a), 'eq': lambda a, b: core.sc_eq(a, b),
             'maximum': lambda a, b: s_if(S.lift(a) >= S.lift(b), a, b), 'minimum': lambda a, b: s_if(S.lift(a) <= S.lift(b), a, b),
             'where': lambda c, a, b: s_if(c, a, b), 'sqrt': lambda a: core.ssqrt(a), 'square': lambda a: a * a,
             'and': lambda a, b: s_and(a, b), 'or': lambda a, b: s_or(a, b), 'not': lambda a: s_not(a), 'conj': lambda a: a.conjugate() if hasattr(a, 'conjugate') else a})


def is_scalar(I, x):
    return I.scalar_kind(x) is not None


def memo(f):
    cache = {}

    def g(idx):
        key = tuple(i.t.get_id() if isinstance(i, S) else ('c', i) for i in idx)
        hit = cache.get(key)
        if hit is not None:
            return hit[1]
        v = f(idx)
        cache[key] = (idx, v)
        return v
    return g


def require_equal(fr, a, b, what):
    """extents that must agree (broadcast / assignment): proved under the path condition or a ValueError"""
    if isinstance(a, int) and isinstance(b, int):
        return a == b
    return fr.st.decide(core.sc_eq(a, b))


def broadcast_shapes(I, fr, shapes):
    nd = max(len(s) for s in shapes)
    out = []
    for k in range(nd):
        ext = 1
        for s in shapes:
            j = k - (nd - len(s))
            if j < 0:
                continue
            e = s[j]
            if isinstance(e, int) and e == 1:
                continue
            if isinstance(ext, int) and ext == 1:
                ext = e
            elif not require_equal(fr, ext, e, 'broadcast'):
                # a symbolic extent may still be 1 (broadcasts); otherwise numpy raises
                if not isinstance(e, int) and fr.st.decide(core.sc_eq(e, 1)):
                    continue
                if not isinstance(ext, int) and fr.st.decide(core.sc_eq(ext, 1)):
                    ext = e
                    continue
                raise ip.PyRaise(I.make_exc('ValueError', 'operands could not be broadcast together'))
        out.append(ext)
    return tuple(out)


def reader(I, fr, x, shape):
    """index tuple (of the broadcast shape) -> value, capturing the operand's current contents"""
    if isinstance(x, CArr):
        snap = x.snapshot()
        xs = x.shape
        off = len(shape) - len(xs)
        degenerate = [isinstance(e, int) and e == 1 for e in xs]
        symbolic_one = []
        for k, e in enumerate(xs):
            # an extent that is symbolically 1 while the broadcast extent is not: broadcasting index 0
            b = shape[off + k]
            symbolic_one.append((not isinstance(e, int)) and (not (isinstance(b, S) and b.t.eq(e.t))) and fr.st.entails(core.sc_eq(e, 1)))

        def rd(idx):
            loc = []
            for k in range(len(xs)):
                loc.append(0 if (degenerate[k] or symbolic_one[k]) else idx[off + k])
            return snap(tuple(loc))
        return rd
    if is_scalar(I, x):
        return lambda idx: x
    raise Unsupported('closure-array operand %r' % (x,))


def view_support(a, shape=None):
    """support of a view in *view* coordinates: list of (cond, view index tuple) or None.
    Only for views with unit steps and no broadcasting against a larger shape."""
    sup = a.buf.support
    if sup is None:
        return None
    if shape is not None and len(shape) != a.ndim:
        return None
    out = []
    for cond, p in sup:
        conds = [cond]
        q = []
        for k, v in a.fixed.items():
            conds.append(core.sc_eq(p[k], v))
        for ax in a.axes:
            if ax is None:
                q.append(0)
                continue
            if ax.step not in (1, -1):
                return None
            l = (S.lift(p[ax.baxis]) - S.lift(ax.start)) * ax.step
            conds.append(s_and(l >= 0, l < S.lift(ax.length)))
            q.append(conc(l))
        out.append((s_and(*conds), tuple(q)))
    return out


def ufunc_support(op, args, shape):
    arrs = [a for a in args if isinstance(a, CArr)]
    def same_shape(sa, sb):
        if len(sa) != len(sb):
            return False
        for x, y in zip(sa, sb):
            if isinstance(x, int) and isinstance(y, int):
                if x != y:
                    return False
            elif known(core.sc_eq(x, y)) is not True:
                return False
        return True
    def bsupport(a):
        """support of operand a in the coordinates of the broadcast result; points are replicated along axes
        that are broadcast from extent 1 to a small concrete extent"""
        if same_shape(a.shape, shape):
            return view_support(a, shape)
        if len(a.shape) != len(shape):
            return None
        sup = view_support(a)
        if sup is None:
            return None
        rep = []
        for k, (e, t) in enumerate(zip(a.shape, shape)):
            if (isinstance(e, int) and isinstance(t, int) and e == t) or (not (isinstance(e, int) and isinstance(t, int)) and known(core.sc_eq(e, t)) is True):
                rep.append(None)
            elif isinstance(e, int) and e == 1 and isinstance(t, int) and t <= 4:
                rep.append(t)
            else:
                return None
        out = [(c, q) for c, q in sup]
        for k, t in enumerate(rep):
            if t is None:
                continue
            out = [(c, q[:k] + (i,) + q[k + 1:]) for c, q in out for i in range(t)]
        return out
    sups = [bsupport(a) for a in arrs]
    if op in ('mul',):
        for s_ in sups:
            if s_ is not None:
                return s_
        return None
    if op in ('truediv',) and isinstance(args[0], CArr):
        return sups[0]
    if op in ('add', 'sub') and len(arrs) == len(args) and all(s_ is not None for s_ in sups):
        return sups[0] + sups[1]
    if op in ('neg',):
        return sups[0]
    return None


def ufunc(I, fr, op, args, out=None):
    set_ctx(fr.st)
    arrs = [a for a in args if isinstance(a, CArr)]
    if not arrs:
        raise EngineError('ufunc without closure array')
    shape = broadcast_shapes(I, fr, [a.shape for a in arrs])
    rds = [reader(I, fr, a, shape) for a in args]
    fn = _FNS[op]
    f = memo(lambda idx: fn(*[r(idx) for r in rds]))
    dt = next((a.buf.dtype for a in arrs if a.buf.dtype is not None), None)
    res = CArr(CBuf(shape, f, dt, support=ufunc_support(op, args, shape)))
    if out is not None:
        assign(I, fr, out, res)
        return out
    return res


def materialise(a):
    snap = a.snapshot()
    return CArr(CBuf(a.shape, memo(snap), a.buf.dtype, support=view_support(a)))


def swapaxes(a, i, j):
    axes = list(a.axes)
    axes[i], axes[j] = axes[j], axes[i]
    return CArr(a.buf, axes, a.fixed)


def norm_int_index(I, fr, i, n):
    """python / numpy integer index normalisation with bounds check (IndexError)"""
    if isinstance(i, bool):
        i = int(i)
    if isinstance(i, int) and isinstance(n, int):
        if not -n <= i < n:
            raise ip.PyRaise(I.make_exc('IndexError', 'index %d is out of bounds for axis with size %d' % (i, n)))
        return i + n if i < 0 else i
    if isinstance(i, int):
        pos = (S.lift(n) + i) if i < 0 else i
        ok = (S.lift(n) + i >= 0) if i < 0 else (S.lift(n) > i)
        if not fr.st.decide(ok):
            raise ip.PyRaise(I.make_exc('IndexError', 'index %d is out of bounds' % i))
        return conc(pos)
    i = S.lift(i)
    ok = s_and(i >= -S.lift(n), i < S.lift(n))
    if not fr.st.decide(ok):
        raise ip.PyRaise(I.make_exc('IndexError', 'index out of bounds'))
    return conc(s_if(i < 0, i + S.lift(n), i))


def norm_slice(sl, n):
    """(start, step, length) of a python slice on an axis of extent n (step > 0 or -1)"""
    start, stop, step = sl.start, sl.stop, sl.step
    step = 1 if step is None else step
    if isinstance(step, S):
        step = conc(step)
    if not isinstance(step, int) or step == 0:
        raise Unsupported('symbolic / zero slice step')

    def clamp(b, lo, hi):
        # python: negative bounds are offset by n, then clamped to [lo, hi]
        if isinstance(b, int) and isinstance(n, int):
            b = b + n if b < 0 else b
            return max(lo if isinstance(lo, int) else lo, min(b, hi)) if isinstance(lo, int) and isinstance(hi, int) else b
        if isinstance(b, int):
            bb = (S.lift(n) + b) if b < 0 else S.lift(b)
        else:
            neg = known(S.lift(b) < 0)
            if neg is True:
                bb = S.lift(b) + S.lift(n)
            elif neg is False:
                bb = S.lift(b)
            else:
                bb = s_if(S.lift(b) < 0, S.lift(b) + S.lift(n), b)
        return conc(smax(lo, smin(conc(bb), hi)))
    if step > 0:
        s0 = 0 if start is None else clamp(start, 0, n)
        s1 = n if stop is None else clamp(stop, 0, n)
        span = conc(smax(conc(S.lift(s1) - S.lift(s0)), 0)) if not (isinstance(s0, int) and isinstance(s1, int)) else max(s1 - s0, 0)
        if isinstance(span, S):
            span = conc(S(z3.simplify(span.t)))
        if step == 1:
            length = span
        else:
            length = (span + step - 1) // step if isinstance(span, int) else conc((S.lift(span) + (step - 1)) // step)
        return s0, step, length
    if step == -1:
        nm1 = n - 1 if isinstance(n, int) else conc(S.lift(n) - 1)
        s0 = nm1 if start is None else clamp(start, -1, nm1)
        s1 = -1 if stop is None else clamp(stop, -1, nm1)
        length = max(s0 - s1, 0) if isinstance(s0, int) and isinstance(s1, int) else conc(smax(conc(S.lift(s0) - S.lift(s1)), 0))
        if isinstance(length, S):
            length = conc(S(z3.simplify(length.t)))
        return s0, -1, length
    raise Unsupported('negative slice step other than -1')


def index(I, fr, a, idx, for_store=False):
    set_ctx(fr.st)
    if not isinstance(idx, tuple):
        idx = (idx,)
    # expand Ellipsis
    n_real = sum(1 for x in idx if x is not None and x is not Ellipsis)
    if any(x is Ellipsis for x in idx):
        k = [i for i, x in enumerate(idx) if x is Ellipsis][0]
        idx = idx[:k] + (slice(None),) * (a.ndim - n_real) + idx[k + 1:]
    else:
        idx = idx + (slice(None),) * (a.ndim - n_real)
    if sum(1 for x in idx if x is not None) != a.ndim:
        raise ip.PyRaise(I.make_exc('IndexError', 'too many indices for array'))
    axes, fixed = [], dict(a.fixed)
    pos = 0
    for x in idx:
        if x is None:
            axes.append(None)
            continue
        ax = a.axes[pos]
        pos += 1
        n = 1 if ax is None else ax.length
        if isinstance(x, (slice, ip.SymSlice)):
            s0, step, length = norm_slice(x, n)
            if ax is None:
                axes.append(None if (isinstance(length, int) and length == 1) else Axis(None, 0, 1, length))
                if axes[-1] is not None:
                    raise Unsupported('slicing a broadcast axis to a symbolic length')
            else:
                nstart = conc(S.lift(ax.start) + ax.step * S.lift(s0)) if not (isinstance(ax.start, int) and isinstance(s0, int)) else ax.start + ax.step * s0
                axes.append(Axis(ax.baxis, nstart, ax.step * step, length))
        elif is_scalar(I, x) and I.scalar_kind(x) in ('int', 'bool'):
            i = norm_int_index(I, fr, x if not isinstance(x, S) else conc(x), n)
            if ax is not None:
                fixed[ax.baxis] = conc(S.lift(ax.start) + ax.step * S.lift(i)) if not (isinstance(ax.start, int) and isinstance(i, int)) else ax.start + ax.step * i
        else:
            raise Unsupported('closure-array index %r' % (x,))
    if not axes and not for_store:
        # scalar element
        out = [None] * len(a.buf.shape)
        for k, v in fixed.items():
            out[k] = v
        return a.buf.f(tuple(out))
    return CArr(a.buf, axes, fixed)


def assign(I, fr, tgt, val):
    """tgt[...] = val   (val: closure array, scalar); rhs captured first (K1)"""
    set_ctx(fr.st)
    if not tgt.buf.writeable:
        raise ip.PyRaise(I.make_exc('ValueError', 'assignment destination is read-only'))
    tshape = tgt.shape
    if isinstance(val, CArr):
        vs = val.shape
        if len(vs) > len(tshape):
            raise ip.PyRaise(I.make_exc('ValueError', 'could not broadcast input array'))
        for k in range(len(vs)):
            e, t = vs[k], tshape[len(tshape) - len(vs) + k]
            if isinstance(e, int) and e == 1:
                continue
            if not isinstance(e, int) and known(core.sc_eq(e, t)) is not True and known(core.sc_eq(e, 1)) is True:
                continue        # symbolic extent that is 1 on this path: broadcasts
            if not require_equal(fr, e, t, 'assignment'):
                raise ip.PyRaise(I.make_exc('ValueError', 'could not broadcast input array from shape into shape'))
        rd = reader(I, fr, val, tshape)
    elif is_scalar(I, val):
        rd = lambda idx: val
    else:
        raise Unsupported('closure-array assignment from %r' % (val,))
    # support of the buffer after the store (over-approximation)
    if tgt.buf.support is not None:
        if isinstance(val, CArr):
            vs_ = view_support(val) if len(val.shape) == len(tshape) else None
            if vs_ is not None:
                for e, t in zip(val.shape, tshape):
                    same = (e == t) if (isinstance(e, int) and isinstance(t, int)) else (known(core.sc_eq(e, t)) is True)
                    if not same:
                        vs_ = None      # broadcast along an axis: support points would have to be replicated
                        break
            if vs_ is None:
                tgt.buf.support = None
            else:
                pts = []
                for cond, q in vs_:
                    b = [None] * len(tgt.buf.shape)
                    for k, v in tgt.fixed.items():
                        b[k] = v
                    ok = True
                    for ax, qi in zip(tgt.axes, q):
                        if ax is None:
                            continue
                        b[ax.baxis] = conc(S.lift(ax.start) + ax.step * S.lift(qi))
                    pts.append((cond, tuple(b)))
                tgt.buf.support = list(tgt.buf.support) + pts
        else:
            zero = (isinstance(val, (int, float)) and val == 0)
            if not zero:
                tgt.buf.support = None
    old = tgt.buf.f
    axes, fixed, nb = tgt.axes, tgt.fixed, len(tgt.buf.shape)

    def newf(bi):
        conds, loc = [], []
        for k, v in fixed.items():
            c = core.sc_eq(bi[k], v)
            conds.append(c)
        for a in axes:
            if a is None:
                loc.append(0)
                continue
            d = S.lift(bi[a.baxis]) - S.lift(a.start)
            if a.step == 1:
                l = d
            elif a.step == -1:
                l = -d
            else:
                st = a.step
                if st > 0:
                    conds.append(core.sc_eq(d % st, 0))
                    l = d // st
                else:
                    conds.append(core.sc_eq((-d) % (-st), 0))
                    l = (-d) // (-st)
            conds.append(s_and(l >= 0, l < S.lift(a.length)))
            loc.append(conc(l))
        cond = s_and(*conds) if conds else S(z3.BoolVal(True))
        cc = cond.concrete()
        if cc is True:
            return rd(tuple(loc))
        if cc is False:
            return old(bi)
        return s_if(cond, rd(tuple(loc)), old(bi))
    tgt.buf.f = memo(newf)


# --------------------------------------------------------------------------
# constructors used by harnesses and the numpy model

def fresh_array(name, shape, dtype=None, kind='real'):
    """array whose contents are a free function of the index"""
    nd = len(shape)
    if kind == 'complex':
        fre = core.uf(name + '.re', *([z3.IntSort()] * nd + [z3.RealSort()]))
        fim = core.uf(name + '.im', *([z3.IntSort()] * nd + [z3.RealSort()]))
        f = lambda idx: C(S(fre(*[S.lift(i).t for i in idx])), S(fim(*[S.lift(i).t for i in idx])))
    else:
        fun = core.uf(name, *([z3.IntSort()] * nd + [z3.RealSort()]))
        f = lambda idx: S(fun(*[S.lift(i).t for i in idx]))
    return CArr(CBuf(shape, memo(f), dtype, name=name))


def const_array(value, shape, dtype=None):
    zero = isinstance(value, (int, float)) and value == 0
    return CArr(CBuf(shape, lambda idx: value, dtype, support=[] if zero else None))


def delta_array(shape, j, dtype=None):
    """delta_j: 1 at index tuple j, 0 elsewhere"""
    def f(idx):
        return s_if(s_and(*[core.sc_eq(a, b) for a, b in zip(idx, j)]), 1.0, 0.0)
    return CArr(CBuf(shape, memo(f), dtype, support=[(S(z3.BoolVal(True)), tuple(j))]))


def list_array(values, dtype=None):
    """1-d array from a python list of scalars"""
    vals = list(values)

    def f(idx):
        i = idx[0]
        if isinstance(i, int):
            return vals[i]
        r = vals[-1]
        for k in range(len(vals) - 2, -1, -1):
            r = s_if(core.sc_eq(i, k), vals[k], r)
        return r
    return CArr(CBuf((len(vals),), f, dtype))


def arange(start, stop, dtype=None):
    """np.arange(start, stop): length max(stop - start, 0), entries start + i"""
    length = conc(smax(S.lift(stop) - S.lift(start), 0)) if not (isinstance(start, int) and isinstance(stop, int)) else max(stop - start, 0)
    return CArr(CBuf((length,), lambda idx: conc(S.lift(start) + S.lift(idx[0])) + 0.0, dtype))


def diff(I, fr, a, axis):
    """np.diff(a, n=1, axis)"""
    n = a.shape[axis]
    hi = [slice(None)] * a.ndim
    lo = [slice(None)] * a.ndim
    hi[axis] = slice(1, None)
    lo[axis] = slice(None, -1)
    return ufunc(I, fr, 'sub', [index(I, fr, a, tuple(hi)), index(I, fr, a, tuple(lo))])


def sum_axis(I, fr, a, axis, keepdims):
    """np.sum(a, axis=axis, keepdims=...) for an array with a sparse-support descriptor (delta trick): the sum
    over a symbolic-length axis is the finite sum over the support points that fall into the view"""
    sup = view_support(a)
    if sup is None:
        n = a.shape[axis]
        if isinstance(n, int) and n <= 8:
            terms = []
            for i in range(n):
                sl = [slice(None)] * a.ndim
                sl[axis] = slice(i, i + 1) if keepdims else i
                terms.append(index(I, fr, a, tuple(sl)))
            acc = terms[0]
            for t in terms[1:]:
                acc = ufunc(I, fr, 'add', [acc, t])
            return acc
        raise Unsupported('np.sum over a symbolic-length axis of a dense closure array')
    snap = a.snapshot()
    shape = list(a.shape)
    shape[axis] = 1

    # the descriptor is a *set* of candidate points: syntactic duplicates are dropped, and an entry only counts
    # when no earlier (active) entry denotes the same index
    uniq, seen = [], set()
    for cond, q in sup:
        key = (z3.simplify(sbool(cond).t).sexpr(),) + tuple(z3.simplify(S.lift(x).t).sexpr() for x in q)
        if key in seen:
            continue
        seen.add(key)
        uniq.append((cond, q))

    def f(idx):
        acc = S.lift(0.0)
        for i, (cond, q) in enumerate(uniq):
            conds = [cond]
            for k in range(len(shape)):
                if k != axis:
                    conds.append(core.sc_eq(idx[k], q[k]))
            for (c2, q2) in uniq[:i]:
                same = s_and(c2, *[core.sc_eq(a, b) for a, b in zip(q, q2)])
                sc = same.concrete()
                if sc is False:
                    continue
                conds.append(s_not(same))
            acc = acc + s_if(s_and(*conds), snap(q), 0.0)
        return acc
    nsup = [(c, tuple(0 if k == axis else q[k] for k in range(len(shape)))) for c, q in sup]
    res = CArr(CBuf(tuple(shape), memo(f), a.buf.dtype, support=nsup))
    if not keepdims:
        sl = [slice(None)] * len(shape)
        sl[axis] = 0
        return index(I, fr, res, tuple(sl))
    return res


def tolist(I, fr, a):
    shp = a.shape
    if not all(isinstance(n, int) for n in shp):
        raise Unsupported('tolist of a symbolic-shape closure array')

    def rec(prefix, k):
        if k == len(shp):
            return a.at(tuple(prefix))
        return [rec(prefix + [i], k + 1) for i in range(shp[k])]
    return rec([], 0)


def reduce_bool(I, fr, a, kind):
    shp = a.shape
    if not all(isinstance(n, int) for n in shp) or (shp and max(shp) > 16):
        raise Unsupported('%s() of a symbolic-shape closure array' % kind)
    import itertools as it
    vals = [sbool(a.at(idx)) for idx in it.product(*[range(n) for n in shp])]
    if not vals:
        return kind == 'all'
    return s_and(*vals) if kind == 'all' else s_or(*vals)


def hstack(I, fr, arrs):
    """np.hstack of 2-d arrays with concrete small second extents (or 1-d arrays with concrete extents)"""
    arrs = list(arrs)
    nd = arrs[0].ndim
    ax = 1 if nd >= 2 else 0
    widths = [a.shape[ax] for a in arrs]
    if not all(isinstance(w, int) for w in widths):
        raise Unsupported('hstack with symbolic widths')
    snaps = [a.snapshot() for a in arrs]
    shape = list(arrs[0].shape)
    shape[ax] = sum(widths)

    def f(idx):
        j = idx[ax]
        if not isinstance(j, int):
            r = None
            off = 0
            for w, sn in zip(widths, snaps):
                for t in range(w):
                    loc = list(idx)
                    loc[ax] = t
                    v = sn(tuple(loc))
                    r = v if r is None else s_if(core.sc_eq(j, off + t), v, r)
                off += w
            return r
        off = 0
        for w, sn in zip(widths, snaps):
            if j < off + w:
                loc = list(idx)
                loc[ax] = j - off
                return sn(tuple(loc))
            off += w
        raise EngineError('hstack index')
    return CArr(CBuf(tuple(shape), memo(f), arrs[0].buf.dtype))


def linspace(start, stop, num, dtype=None):
    """np.linspace(start, stop, num, endpoint=True): entries start + i*(stop - start)/(num - 1) (num == 1: start)"""
    def f(idx):
        i = idx[0]
        n1 = S.lift(num) - 1
        return s_if(core.sc_eq(num, 1), S.lift(start) + 0.0, S.lift(start) + (S.lift(i) + 0.0) * (S.lift(stop) - S.lift(start)) / (n1 + 0.0))
    return CArr(CBuf((num,), memo(f), dtype))
