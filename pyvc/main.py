"""bin/check driver:  python -m pyvc.main <property> [--tier quick|thorough] [--replay file] [--jobs N]

exit 0  property held on everything explored (known findings are printed, not alarms)
exit 1  violation: a refuted obligation / failed bounded contract, line VIOLATION property=.. replay=..
exit 2  undecided / unsupported (never reported as a violation)
exit 3  checker failure (traceback, zero obligations, canary not refuted)
"""
import argparse
import importlib
import json
import os
import re
import sys
import time

HERE = os.path.dirname(os.path.dirname(os.path.abspath(__file__)))
sys.path.insert(0, HERE)

from pyvc import harness  # noqa: E402
from pyvc.source import repo_root  # noqa: E402


def load_known():
    p = os.path.join(HERE, 'known_findings.json')
    if not os.path.exists(p):
        return []
    return json.load(open(p)).get('findings', [])


def match_known(entry, prop, ob):
    if entry.get('property') != prop or entry.get('status') != 'open':
        return False
    m = entry.get('match', {})
    if 'unit' in m and not re.search(m['unit'], ob['unit']):
        return False
    if 'obligation' in m and not re.search(m['obligation'], ob['name']):
        return False
    if 'why' in m and not re.search(m['why'], str(ob.get('info', {}).get('why', '')) + ' ' + str(ob.get('note', ''))):
        return False
    if 'where' in m:
        env = {'model': ob.get('model') or {}, 'info': ob.get('info') or {}, 'config': ob.get('config') or {}}
        try:
            if not eval(m['where'], {'__builtins__': {}}, env):
                return False
        except Exception:
            return False
    return True


def main(argv=None):
    ap = argparse.ArgumentParser()
    ap.add_argument('prop')
    ap.add_argument('--tier', default=os.environ.get('VERIF_TIER', 'quick'))
    ap.add_argument('--replay')
    ap.add_argument('--jobs', type=int, default=None)
    ap.add_argument('--only', default=None, help='regex on unit names (debugging; evidence is not written)')
    ap.add_argument('-v', action='store_true')
    args = ap.parse_args(argv)
    prop = args.prop
    seed = int(os.environ.get('VERIF_SEED', '0') or 0)
    t0 = time.time()
    try:
        mod = importlib.import_module('contracts.props.' + prop)
    except ImportError as e:
        print('no check for property %s: %s' % (prop, e))
        return 3
    if args.replay:
        return do_replay(mod, prop, args.replay)
    try:
        units = mod.units(args.tier, seed)
    except Exception:
        import traceback
        traceback.print_exc()
        return 3
    if args.only:
        units = [u for u in units if re.search(args.only, u.name)]
    harness.REPLAYER = getattr(mod, 'replay', None)
    if args.tier == 'thorough' or os.environ.get('PYVC_CROSSCHECK'):
        harness.CROSSCHECK = True
    results = harness.run_units(units, args.jobs)
    wall_units = time.time() - t0

    errors = [r for r in results if r['error']]
    for r in errors:
        print('CHECKER-ERROR in unit %s:\n%s' % (r['unit'], r['error']))
    known = load_known()
    known_hit = {}
    violations, undecided, proved = [], [], 0
    d_obls = 0
    excluded = 0
    canaries_total = canaries_refuted = 0
    canary_fail = []
    bounded_evals = bounded_distinct = 0
    for r in results:
        if r['kind'] == 'canary':
            canaries_total += 1
            if any(o['status'] == 'refuted' for o in r['obligations']):
                canaries_refuted += 1
            else:
                canary_fail.append(r['unit'])
            continue
        if r['kind'] == 'B':
            bounded_evals += r['evals']
            bounded_distinct += r['distinct']
        for o in r['obligations']:
            o['config'] = r['config']
            if o['status'] == 'proved':
                proved += 1
                d_obls += 1
            elif o['status'] == 'refuted':
                ent = next((e for e in known if match_known(e, prop, o)), None)
                if ent is not None:
                    known_hit.setdefault(ent['id'], (ent, []))[1].append(o)
                    excluded += 1
                else:
                    violations.append(o)
                    if not o['info'].get('bounded'):
                        d_obls += 1
            else:
                ent = next((e for e in known if match_known(e, prop, o)), None) if o['status'] == 'undecided' else None
                if ent is not None:
                    # an obligation inside a recorded (open) finding that the solver could not settle this run: the finding stands on its recorded failing input,
                    # it is neither counted as proved nor allowed to turn the run undecided
                    known_hit.setdefault(ent['id'], (ent, []))[1].append(o)
                    excluded += 1
                else:
                    undecided.append(o)
                    d_obls += 1

    # native replay of refuted obligations (violations and one representative per known finding)
    rep_dir = os.path.join(HERE, 'replays', prop)
    lines = []
    replayer = getattr(mod, 'replay', None)
    reported = 0
    for o in violations:
        if reported >= 25:
            break
        reported += 1
        os.makedirs(rep_dir, exist_ok=True)
        rp = os.path.join(rep_dir, re.sub(r'[^A-Za-z0-9_.=-]+', '_', o['id'])[:150] + '.json')
        nat = None
        if replayer is not None:
            try:
                nat = replayer(o)
            except Exception as e:
                nat = {'reproduced': False, 'detail': 'replay harness error: %r' % (e,)}
        doc = {'property': prop, 'obligation': o['id'], 'unit': o['unit'], 'name': o['name'], 'config': o.get('config'),
               'functions': next((r['funcs'] for r in results if r['unit'] == o['unit']), []),
               'path_condition': o['pc'], 'model': o['model'], 'solver': o['backend'], 'note': o['note'], 'info': o['info'],
               'replay': o.get('replay'), 'native': nat, 'repo': repo_root()}
        json.dump(doc, open(rp, 'w'), indent=1, default=str)
        rel = os.path.relpath(rp, HERE)
        suffix = '' if (nat and nat.get('reproduced')) else ' no-failing-input-found'
        lines.append('VIOLATION property=%s replay=%s%s' % (prop, rel, suffix))
    for kid, (ent, obs) in sorted(known_hit.items()):
        print('KNOWN-FINDING: property=%s %s [%s; %d obligation(s) in the recorded region]' % (prop, ent['what'], kid, len(obs)))

    xc_total = xc_bad = 0
    for r in results:
        for x in r.get('crosschecks', []):
            xc_total += 1
            if x['native'].get('reproduced'):
                xc_bad += 1
                print('CHECKER-ERROR: engine/CPython cross-check disagrees on a PROVED obligation %s: %s' % (x['obligation'], str(x['native'].get('detail'))[:300]))
    status = 0
    if errors or canary_fail or xc_bad:
        status = 3
    if not args.only and d_obls + bounded_evals == 0:
        print('CHECKER-ERROR: zero obligations generated')
        status = 3
    for u in canary_fail:
        print('CHECKER-ERROR: canary %s was not refuted (engine unsound or vacuous)' % u)
    if undecided and status == 0:
        status = 2
    if violations:
        status = 1 if status in (0, 2) else status
    for o in undecided[:20]:
        print('UNDECIDED %s [%s] %s' % (o['id'], o['status'], o['note'][:300]))
    for l in lines:
        print(l)

    wall = time.time() - t0
    if not args.only and os.path.realpath(repo_root()) == '/repo':       # evidence describes /repo only, never a scratch copy (PYVC_REPO)
        write_evidence(mod, prop, args.tier, seed, results, proved, d_obls, violations, undecided, excluded,
                       known_hit, canaries_total, canaries_refuted, bounded_evals, bounded_distinct, wall, xc_total, xc_bad)
    print('%s tier=%s units=%d obligations=%d discharged=%d refuted=%d undecided=%d known-region=%d canaries=%d/%d bounded-evals=%d crosschecks=%d/%d wall=%.1fs exit=%d'
          % (prop, args.tier, len(results), d_obls, proved, len(violations), len(undecided), excluded,
             canaries_refuted, canaries_total, bounded_evals, xc_total - xc_bad, xc_total, wall, status))
    return status


def write_evidence(mod, prop, tier, seed, results, proved, d_obls, violations, undecided, excluded, known_hit,
                   canaries_total, canaries_refuted, bevals, bdistinct, wall, xc_total=0, xc_bad=0):
    meta = getattr(mod, 'META', {})
    funcs = {}
    stats = {}
    paths = 0
    bounded_in = set()
    for r in results:
        for q, h in r['touched'].items():
            funcs[q] = h
        for k, v in r['stats'].items():
            stats[k] = stats.get(k, 0) + v
        paths += r['paths']
        if r['bounded_in']:
            bounded_in.add(r['bounded_in'])
    under_contract = sorted(set(f for r in results if r['kind'] == 'D' for f in r['funcs']))
    samples = []
    for r in results:
        if r['kind'] != 'D':
            continue
        for o in r['obligations'][:1]:
            samples.append({'id': o['id'], 'status': o['status'], 'backend': o['backend'], 'path_condition': o['pc'][:8],
                            'config': r['config']})
        if len(samples) >= 8:
            break
    per_unit = [{'unit': r['unit'], 'kind': r['kind'], 'obligations': len(r['obligations']), 'paths': r['paths'], 'secs': r['secs'],
                 'bounded_in': r['bounded_in']} for r in results]
    cov = {
        'obligations': d_obls,
        'discharged': proved,
        'checker_cmd': 'bin/check %s --tier %s' % (prop, tier),
        'trusted_base': meta.get('trusted_base', []),
        'samples': samples,
        'explanation': meta.get('explanation', ''),
        'functions_under_contract': under_contract,
        'source_interpreted': [{'qualname': q, 'ast_sha': h} for q, h in sorted(funcs.items())],
        'units': len(results),
        'paths': paths,
        'backends': {'z3_queries': stats.get('z3', 0), 'sympy_normal_form': stats.get('sympy', 0), 'cvc5': stats.get('cvc5', 0)},
        'solver_s': round(stats.get('z3_s', 0) + stats.get('sympy_s', 0) + stats.get('cvc5_s', 0), 2),
        'canaries': canaries_total, 'canaries_refuted': canaries_refuted,
        'engine_crosscheck': {'paths_replayed_natively': xc_total, 'disagreements': xc_bad,
                              'note': 'thorough tier: for proved obligations concrete values satisfying the path condition are drawn, the real function is run in CPython and the proved contract evaluated natively'},
        'undecided': len(undecided),
        'excluded_known_finding_obligations': excluded,
        'known_findings_still_failing': sorted(known_hit),
        'bounded': {'evaluations': bevals, 'distinct_nontrivial': bdistinct, 'rule': meta.get('bounded_rule', ''),
                    'exhaustive': False, 'note': 'bounded stand-in (run-time contract monitor on the real functions); never counted in discharged'},
        'bounded_in_configuration': sorted(bounded_in),
        'not_decided': meta.get('not_decided', []),
        'per_unit': per_unit,
        'repo': repo_root(),
    }
    if bevals:
        cov['evaluations'] = bevals
        cov['distinct_nontrivial'] = bdistinct
        cov['rule'] = meta.get('bounded_rule', '')
    ev = {'property_id': prop, 'tier': tier if tier in ('quick', 'thorough') else 'quick', 'seed': seed,
          'level': meta.get('level', 'proof'), 'coverage': cov, 'assumptions': meta.get('assumptions', []),
          'wall_s': round(wall, 2), 'violations': len(violations)}
    os.makedirs(os.path.join(HERE, 'evidence'), exist_ok=True)
    json.dump(ev, open(os.path.join(HERE, 'evidence', prop + '.json'), 'w'), indent=1, default=str)


def do_replay(mod, prop, path):
    doc = json.load(open(path))
    replayer = getattr(mod, 'replay', None)
    if replayer is None:
        print('no native replay for %s' % prop)
        return 2
    o = {'id': doc['obligation'], 'unit': doc['unit'], 'name': doc['name'], 'model': doc['model'], 'config': doc.get('config'),
         'info': doc.get('info', {}), 'replay': doc.get('replay'), 'pc': doc.get('path_condition', [])}
    nat = replayer(o)
    print(json.dumps(nat, indent=1, default=str))
    if nat and nat.get('reproduced'):
        print('VIOLATION property=%s replay=%s' % (prop, path))
        return 1
    return 0


if __name__ == '__main__':
    sys.exit(main())
