"""Small concrete-shape symbolic arrays: NumPy object arrays whose entries are symbolic scalars (S).

Used where the code under contract is shape-manipulating NumPy (broadcasting, einsum, transposes, outer products) on arrays
whose SHAPES are small and concrete in a configuration while the VALUES are symbolic.  Shape semantics (broadcasting, indexing,
einsum, transpose, squeeze ...) are NumPy's own - the real library is called on dtype=object arrays -, entry arithmetic is the
symbolic scalar arithmetic of pyvc.core.  dtype=float requests are honoured as `object` when entries are symbolic.

ONd wraps an ndarray for the interpreter (pv_* protocol).  `module(I)` is the stand-in for `numpy` in object-array mode."""
import math
import operator

import numpy as np
import z3

from . import core
from . import interp as ip
from .core import S, Unsupported, sbool


def is_sym(x):
    if isinstance(x, S):
        return True
    if isinstance(x, ONd):
        return x.a.dtype == object
    if isinstance(x, np.ndarray):
        return x.dtype == object
    if isinstance(x, (list, tuple)):
        return any(is_sym(y) for y in x)
    return False


def unwrap(x):
    if isinstance(x, ONd):
        return x.a
    if isinstance(x, (list, tuple)):
        return type(x)(unwrap(y) for y in x)
    if isinstance(x, dict):
        return {k: unwrap(v) for k, v in x.items()}
    return x


def wrap(x):
    if isinstance(x, np.ndarray):
        return ONd(x)
    if isinstance(x, np.generic):
        return x.item()
    if isinstance(x, (list, tuple)) and any(isinstance(y, (np.ndarray, np.generic)) for y in x):
        return type(x)(wrap(y) for y in x)
    return x


def to_obj(a):
    a = np.asarray(a)
    if a.dtype != object:
        b = np.empty(a.shape, dtype=object)
        it = np.nditer(a, flags=['multi_index', 'refs_ok', 'zerosize_ok'])
        for v in it:
            b[it.multi_index] = float(v) if a.dtype.kind == 'f' else (int(v) if a.dtype.kind in 'iu' else bool(v))
        return b
    return a


_BIN = {'add': operator.add, 'sub': operator.sub, 'mul': operator.mul, 'truediv': operator.truediv, 'pow': operator.pow, 'matmul': operator.matmul,
        'floordiv': operator.floordiv, 'mod': operator.mod}


def _apply(op, a, b):
    """a op b with NumPy broadcasting; a symbolic scalar operand is applied entry by entry"""
    if isinstance(b, S) and isinstance(a, np.ndarray):
        return np.vectorize(lambda x: op(x, b), otypes=[object])(a) if a.size else a.astype(object)
    if isinstance(a, S) and isinstance(b, np.ndarray):
        return np.vectorize(lambda y: op(a, y), otypes=[object])(b) if b.size else b.astype(object)
    return op(a, b)


class ONd(object):
    def __init__(self, a):
        self.a = a

    def __repr__(self):
        return 'ONd%r' % (self.a.shape,)

    def pv_isinstance(self, I, cls):
        return getattr(cls, 'name', None) == 'ndarray' or getattr(cls, 'attr', None) == 'ndarray'

    def pv_type(self, I, fr):
        return I.ext_modules['numpy'].table['ndarray']

    def pv_len(self, I, fr):
        if self.a.ndim == 0:
            raise ip.PyRaise(I.make_exc('TypeError', 'len() of unsized object'))
        return self.a.shape[0]

    def pv_iter(self, I, fr):
        return [wrap(x) for x in self.a]

    def pv_truth(self, I, fr):
        if self.a.size != 1:
            raise ip.PyRaise(I.make_exc('ValueError', 'The truth value of an array with more than one element is ambiguous'))
        return I.truth(self.a.reshape(-1)[0], fr)

    def _idx(self, idx, I=None, fr=None):
        idx = unwrap(idx)
        if isinstance(idx, np.ndarray) and idx.dtype == object and I is not None:
            # boolean mask with symbolic entries: decided on this path (forks)
            m = np.zeros(idx.shape, dtype=bool)
            for k in np.ndindex(*idx.shape):
                m[k] = bool(I.truth(idx[k], fr))
            return m
        if isinstance(idx, S):
            c = idx.concrete()
            if c is None:
                raise Unsupported('symbolic index into an array')
            idx = int(c)
        if isinstance(idx, tuple):
            idx = tuple(int(i.concrete()) if isinstance(i, S) and i.concrete() is not None else i for i in idx)
        return idx

    def pv_getitem(self, I, fr, idx):
        try:
            return wrap(self.a[self._idx(idx, I, fr)])
        except IndexError as e:
            raise ip.PyRaise(I.make_exc('IndexError', str(e)))

    def pv_setitem(self, I, fr, idx, val):
        v = unwrap(val)
        if self.a.dtype != object and is_sym(val):
            raise Unsupported('symbolic value stored into a float array (np.empty / zeros are object arrays in this mode)')
        self.a[self._idx(idx, I, fr)] = v

    def pv_binop(self, I, fr, name, other):
        n = name.strip('_')
        if n in ('lt', 'le', 'gt', 'ge'):
            return self.pv_compare(I, fr, n, other)
        refl = n.startswith('r') and n[1:] in _BIN
        if refl:
            n = n[1:]
        if n not in _BIN:
            return ip.NOTIMPL
        o = unwrap(other)
        if isinstance(other, ip.Obj):
            return ip.NOTIMPL
        a, b = (o, self.a) if refl else (self.a, o)
        if is_sym(a) or is_sym(b):
            a = to_obj(a) if isinstance(a, np.ndarray) else a
            b = to_obj(b) if isinstance(b, np.ndarray) else b
        try:
            return wrap(_apply(_BIN[n], a, b))
        except ValueError as e:
            raise ip.PyRaise(I.make_exc('ValueError', str(e)))

    def pv_inplace(self, I, fr, iname, rhs):
        n = iname.strip('_')[1:]
        if n not in _BIN:
            return ip.NOTIMPL
        r = unwrap(rhs)
        if self.a.dtype != object and is_sym(rhs):
            raise Unsupported('in-place update of a float array with symbolic values')
        try:
            res = _apply(_BIN[n], self.a, r)
            self.a[...] = res
        except ValueError as e:
            raise ip.PyRaise(I.make_exc('ValueError', str(e)))
        return self

    def pv_unop(self, I, fr, name):
        if name == '__neg__':
            return wrap(-self.a)
        if name == '__pos__':
            return self
        if name == '__abs__':
            return wrap(np.vectorize(abs, otypes=[object])(self.a)) if self.a.dtype == object else wrap(np.abs(self.a))
        if name == '__invert__':
            return wrap(np.vectorize(lambda x: core.s_not(sbool(x)) if isinstance(x, S) else (not x), otypes=[object])(self.a))
        raise Unsupported('unary %s on an array' % name)

    def pv_eq(self, I, fr, o):
        o = unwrap(o)
        if isinstance(o, ip.Obj):
            return ip.NOTIMPL
        return wrap(_cmp(self.a, o, lambda x, y: core.sc_eq(x, y) if isinstance(x, S) or isinstance(y, S) else x == y))

    def pv_compare(self, I, fr, name, o):
        f = {'lt': operator.lt, 'le': operator.le, 'gt': operator.gt, 'ge': operator.ge}[name]
        return wrap(_cmp(self.a, unwrap(o), f))

    def pv_getattr(self, I, fr, name):
        a = self.a
        if name in ('shape', 'ndim', 'size'):
            return getattr(a, name)
        if name == 'dtype':
            from . import npmodel as npm
            return npm.DT('float64' if a.dtype == object else a.dtype.name)
        if name == 'T':
            return ONd(a.T)
        if name == 'flags':
            raise Unsupported('flags of an object array')
        if name == '__array_priority__':
            return 0.0
        if name in ('space', 'tensor', 'data'):
            raise ip.PyRaise(I.make_exc('AttributeError', name))
        if name in ('squeeze', 'reshape', 'copy', 'transpose', 'ravel', 'dot', 'flatten', 'swapaxes', 'sum', 'tolist', 'item', 'astype', 'all', 'any', 'fill', 'prod', 'min', 'max'):
            def meth(I_, fr_, args, kwargs, name=name):
                return nd_method(I_, fr_, self, name, args, kwargs)
            return ip.Builtin('ndarray.' + name, meth)
        raise Unsupported('ndarray.%s in object-array mode' % name)


def _cmp(a, b, f):
    a = np.asarray(a, dtype=object) if not isinstance(a, np.ndarray) else a
    out = np.empty(np.broadcast(a, np.asarray(b, dtype=object)).shape, dtype=object)
    ab, bb = np.broadcast_arrays(to_obj(a), to_obj(np.asarray(b)))
    it = np.nditer(out, flags=['multi_index', 'refs_ok', 'zerosize_ok'], op_flags=['readwrite'])
    for _ in it:
        out[it.multi_index] = f(ab[it.multi_index], bb[it.multi_index])
    return out


def reduce_bool(I, fr, a, kind, axis=None, keepdims=False):
    a = unwrap(a)
    if isinstance(a, (bool, S)):
        return a
    a = to_obj(np.asarray(a))

    def red(vals):
        vals = list(vals)
        if all(isinstance(v, (bool, np.bool_)) for v in vals):
            return (any(vals) if kind == 'any' else all(vals))
        f = core.s_or if kind == 'any' else core.s_and
        return f(*[sbool(v) if isinstance(v, S) else sbool(bool(v)) for v in vals]) if vals else (kind == 'all')
    if axis is None:
        return red(a.reshape(-1))
    r = np.apply_along_axis(lambda v: np.array([red(v)], dtype=object), axis, a)
    r = np.squeeze(r, axis=axis) if not keepdims else r
    return wrap(r)


def norm(I, fr, x, axis=None, keepdims=False, ord=None):
    x = unwrap(x)
    if ord in (1, float('inf')) and axis is None and is_sym(x):
        vals = [abs(v) if isinstance(v, S) else abs(v) for v in to_obj(np.asarray(x)).reshape(-1)]
        acc = vals[0]
        for v in vals[1:]:
            acc = (acc + v) if ord == 1 else core.s_if(core.S.lift(v) >= core.S.lift(acc), v, acc)
        return acc
    if ord not in (None, 2):
        raise Unsupported('norm with ord=%r' % (ord,))
    if not is_sym(x):
        return wrap(np.linalg.norm(x, axis=axis, keepdims=keepdims))
    a = to_obj(np.asarray(x))
    sq = a * a
    s = sq.sum(axis=axis, keepdims=keepdims) if axis is not None else sq.sum()
    if isinstance(s, np.ndarray):
        return wrap(np.vectorize(lambda v: core.ssqrt(v) if isinstance(v, S) else math.sqrt(v), otypes=[object])(s))
    return core.ssqrt(s) if isinstance(s, S) else math.sqrt(s)


def nd_method(I, fr, self, name, args, kwargs):
    a = self.a
    args, kwargs = unwrap(list(args)), unwrap(dict(kwargs))
    if name == 'astype':
        dt = args[0] if args else kwargs.get('dtype')
        if a.dtype == object:
            return ONd(a.copy())
        return wrap(a.astype(_npdtype(dt)))
    if name in ('all', 'any'):
        return reduce_bool(I, fr, a, name, kwargs.get('axis', args[0] if args else None), kwargs.get('keepdims', False))
    if name == 'tolist':
        return a.tolist()
    if name == 'dot':
        o = args[0]
        if is_sym(a) or is_sym(o):
            return wrap(to_obj(a).dot(to_obj(np.asarray(o))))
        return wrap(a.dot(o))
    try:
        return wrap(getattr(a, name)(*args, **kwargs))
    except ValueError as e:
        raise ip.PyRaise(I.make_exc('ValueError', str(e)))


def _npdtype(dt):
    if dt is None:
        return None
    n = getattr(dt, 'name', None)
    if isinstance(n, str):
        return np.dtype(n)
    if dt is float or getattr(dt, '__name__', '') == 'float':
        return np.dtype(float)
    if isinstance(dt, str):
        return np.dtype(dt)
    return np.dtype(float)


PASS = ('transpose', 'squeeze', 'outer', 'einsum', 'matmul', 'dot', 'broadcast_to', 'rollaxis', 'moveaxis', 'swapaxes', 'reshape', 'ravel', 'stack', 'vstack', 'hstack',
        'concatenate', 'broadcast_arrays', 'atleast_1d', 'atleast_2d', 'expand_dims', 'tensordot', 'shape', 'ndim', 'size', 'copy', 'sum', 'prod', 'diag', 'trace', 'roll')


class ObjFn(object):
    """np.<name> in object-array mode"""

    def __init__(self, mod, name):
        self.mod, self.name = mod, name

    def pv_getattr(self, I, fr, name):
        if self.name in ('multiply', 'add', 'subtract') and name == 'outer':
            op = {'multiply': operator.mul, 'add': operator.add, 'subtract': operator.sub}[self.name]

            def outer(I_, fr_, args, kwargs):
                a, b = [np.asarray(unwrap(x)) for x in args[:2]]
                if is_sym(a) or is_sym(b):
                    a, b = to_obj(a), to_obj(b)
                return wrap(op(a.reshape(a.shape + (1,) * b.ndim), b))
            return ip.Builtin('np.%s.outer' % self.name, outer)
        raise Unsupported('np.%s.%s in object-array mode' % (self.name, name))

    def pv_call(self, I, fr, args, kwargs):
        return self.mod.call(I, fr, self.name, list(args), dict(kwargs))


class ObjNpModule(object):
    def __init__(self, I, fallback):
        self.I, self.fallback = I, fallback
        self.linalg = _Sub(self, 'linalg')

    def pv_getattr(self, I, fr, name):
        if name in ('pi', 'inf', 'nan', 'newaxis', 'e'):
            return {'pi': math.pi, 'inf': float('inf'), 'nan': float('nan'), 'newaxis': None, 'e': math.e}[name]
        if name == 'linalg':
            return self.linalg
        if name in ('ndarray', 'dtype', 'float64', 'float32', 'int64', 'int32', 'integer', 'floating', 'complexfloating', 'number', 'generic', 'bool_', 'isscalar', 'iinfo', 'finfo',
                    'issubdtype', 'issubsctype', 'result_type', 'can_cast', 'errstate', 'complexfloating', 'inexact'):
            return self.fallback.pv_getattr(I, fr, name)
        return ObjFn(self, name)

    def call(self, I, fr, name, args, kwargs):
        st = fr.st
        sym = is_sym(args) or is_sym(list(kwargs.values()))
        ua, uk = unwrap(args), unwrap(kwargs)
        try:
            if name in ('array', 'asarray'):
                dt = uk.pop('dtype', None)
                x = ua[0]
                if isinstance(x, ip.Obj):
                    raise Unsupported('np.array of an object instance')
                copy = uk.pop('copy', name == 'array')
                ndmin = uk.pop('ndmin', 0)
                if is_sym(x):
                    r = np.array(_lists(x), dtype=object, ndmin=ndmin)
                    if isinstance(x, np.ndarray) and not copy and r.shape == x.shape:
                        r = x
                else:
                    r = np.array(x, dtype=_npdtype(dt) if dt is not None else None, copy=copy, ndmin=ndmin)
                return wrap(r) if isinstance(r, np.ndarray) else r
            if name in ('empty', 'zeros', 'ones', 'full'):
                shape = ua[0]
                dt = uk.get('dtype', ua[1] if len(ua) > 1 and name != 'full' else None)
                dn = getattr(dt, 'name', None) or getattr(dt, '__name__', None) or (dt if isinstance(dt, str) else None)
                if dn in ('bool', 'bool_', 'int', 'int64', 'int32'):
                    return ONd(getattr(np, name)(shape, dtype=bool if dn.startswith('bool') else int))
                fill = {'empty': None, 'zeros': 0.0, 'ones': 1.0}.get(name, ua[1] if len(ua) > 1 else None)
                r = np.empty(shape, dtype=object)
                r[...] = fill
                return ONd(r)
            if name == 'fromiter':
                items = list(I.iterate(args[0], fr))
                cnt = uk.get('count', -1)
                if cnt not in (-1, None) and int(cnt) != len(items):
                    raise ip.PyRaise(I.make_exc('ValueError', 'iterator too short / too long for count'))
                if any(isinstance(v, (S, core.C)) for v in items):
                    want_dt = uk.get('dtype', ua[1] if len(ua) > 1 else None)
                    kind = None
                    try:
                        kind = np.dtype(_npdtype(want_dt)).kind if want_dt is not None else None
                    except Exception:
                        kind = None
                    r = np.empty(len(items), dtype=object)
                    for i_, v in enumerate(items):
                        if kind in ('i', 'u', 'b'):
                            # conversion of a real value to an integer dtype truncates towards zero (not the identity)
                            if isinstance(v, core.C):
                                raise Unsupported('np.fromiter: complex values into an integer dtype')
                            if isinstance(v, S) and z3.is_real(v.t):
                                import z3 as _z3
                                fl = _z3.ToReal(_z3.ToInt(v.t))
                                ng = -_z3.ToReal(_z3.ToInt(-v.t))
                                v = S(_z3.If(v.t >= 0, fl, ng))
                        elif kind == 'f' and isinstance(v, core.C):
                            raise Unsupported('np.fromiter: complex values into a real dtype')
                        r[i_] = v
                    return ONd(r)
                return ONd(np.array(items, dtype=_npdtype(uk.get('dtype', ua[1] if len(ua) > 1 else None))))
            if name == 'vdot':
                a_, b_ = [np.asarray(x, dtype=object).reshape(-1) for x in ua[:2]]
                if a_.shape != b_.shape:
                    raise ip.PyRaise(I.make_exc('ValueError', 'shapes not aligned'))
                acc = 0
                for x, y in zip(a_, b_):
                    acc = acc + (x.conjugate() if hasattr(x, 'conjugate') else x) * y
                return acc
            if name == 'eye':
                return ONd(np.eye(*ua, **{k: v for k, v in uk.items() if k != 'dtype'}))
            if name in ('cos', 'sin', 'sqrt', 'arccos', 'abs', 'absolute', 'sign', 'tan', 'arctan2', 'square', 'negative', 'ceil', 'floor', 'around', 'round', 'rint'):
                return wrap(elementwise(name, ua))
            if name in ('max', 'min', 'amax', 'amin') and is_sym(ua[0]) and uk.get('axis') is None and len(ua) == 1:
                vals = list(to_obj(np.asarray(ua[0])).reshape(-1))
                acc = vals[0]
                for v in vals[1:]:
                    acc = core.s_if(core.S.lift(v) >= core.S.lift(acc), v, acc) if name in ('max', 'amax') else core.s_if(core.S.lift(v) <= core.S.lift(acc), v, acc)
                return acc
            if name in ('any', 'all'):
                return reduce_bool(I, fr, ua[0], name, uk.get('axis', ua[1] if len(ua) > 1 else None), uk.get('keepdims', False))
            if name in ('not_equal', 'equal'):
                a_, b_ = np.asarray(ua[0], dtype=object), np.asarray(ua[1], dtype=object)
                eqf = (lambda x, y: core.sc_eq(x, y) if isinstance(x, S) or isinstance(y, S) else x == y)
                f = eqf if name == 'equal' else (lambda x, y: (core.s_not(sbool(eqf(x, y))) if isinstance(eqf(x, y), S) else not eqf(x, y)))
                r = _cmp(a_, b_, f)
                return wrap(r) if r.ndim else r[()]
            if name == 'logical_not':
                x = ua[0]
                if isinstance(x, (list, tuple)):
                    x = np.array(x)
                if isinstance(x, np.ndarray) and x.dtype != object:
                    return wrap(np.logical_not(x))
                if isinstance(x, bool):
                    return not x
                return wrap(np.vectorize(lambda v: core.s_not(sbool(v)) if isinstance(v, S) else (not v), otypes=[object])(np.asarray(x, dtype=object)))
            if name == 'cross':
                a, b = [np.asarray(x) for x in ua[:2]]
                if sym:
                    a, b = to_obj(a), to_obj(b)
                return wrap(np.cross(a, b, **uk))
            if name == 'broadcast':
                return _Bcast(np.broadcast(*[np.asarray(x, dtype=object) if is_sym(x) or isinstance(x, S) else np.asarray(x) for x in ua]))
            if name == 'array_equal':
                a, b = np.asarray(ua[0]), np.asarray(ua[1])
                if a.shape != b.shape:
                    return False
                return reduce_bool(I, fr, _cmp(a, b, lambda x, y: core.sc_eq(x, y) if isinstance(x, S) or isinstance(y, S) else x == y), 'all')
            if name in ('isclose', 'allclose'):
                a_, b_ = ua[0], ua[1]
                if isinstance(a_, (tuple, list)):
                    a_ = np.asarray(a_, dtype=object)        # nested sequences of (symbolic) numbers are array-likes
                if isinstance(b_, (tuple, list)):
                    b_ = np.asarray(b_, dtype=object)
                if not isinstance(a_, np.ndarray) and not isinstance(b_, np.ndarray):
                    return core.sc_eq(a_, b_) if (isinstance(a_, S) or isinstance(b_, S)) else bool(np.isclose(a_, b_))      # K8: exact over the reals
                r = _cmp(np.asarray(a_, dtype=object), np.asarray(b_, dtype=object), lambda x, y: core.sc_eq(x, y) if isinstance(x, S) or isinstance(y, S) else bool(np.isclose(x, y)))
                return wrap(r) if name == 'isclose' else reduce_bool(I, fr, r, 'all')
            if name == 'isfinite':
                return True if isinstance(ua[0], S) else wrap(np.isfinite(ua[0]))
            if name in PASS:
                if sym:
                    ua = [to_obj(x) if isinstance(x, np.ndarray) else x for x in ua]
                    uk.pop('dtype', None)
                r = getattr(np, name)(*ua, **uk)
                return wrap(r)
        except ValueError as e:
            raise ip.PyRaise(I.make_exc('ValueError', str(e)))
        except np.exceptions.AxisError as e:
            raise ip.PyRaise(I.make_exc('ValueError', str(e)))
        raise Unsupported('np.%s in object-array mode' % name)


def _lists(x):
    if isinstance(x, np.ndarray):
        return x
    if isinstance(x, (list, tuple)):
        return [_lists(y) for y in x]
    return x


class _Bcast(object):
    def __init__(self, b):
        self.b = b

    def pv_getattr(self, I, fr, name):
        if name in ('shape', 'ndim', 'size'):
            return getattr(self.b, name)
        raise Unsupported('broadcast.%s' % name)


class _Sub(object):
    def __init__(self, mod, name):
        self.mod, self.name = mod, name

    def pv_getattr(self, I, fr, name):
        if self.name == 'linalg' and name == 'norm':
            return ip.Builtin('np.linalg.norm', lambda I_, fr_, a, k: norm(I_, fr_, a[0], axis=k.get('axis', a[2] if len(a) > 2 else None), keepdims=k.get('keepdims', False), ord=k.get('ord', a[1] if len(a) > 1 else None)))
        if self.name == 'linalg' and name == 'det':
            return ip.Builtin('np.linalg.det', lambda I_, fr_, a, k: det(unwrap(a[0])))
        raise Unsupported('np.%s.%s in object-array mode' % (self.name, name))


def det(m):
    m = np.asarray(m)
    n = m.shape[-1]
    if m.ndim != 2:
        raise Unsupported('det of a stack of matrices')
    if n == 1:
        return m[0, 0]
    if n == 2:
        return m[0, 0] * m[1, 1] - m[0, 1] * m[1, 0]
    if n == 3:
        return (m[0, 0] * (m[1, 1] * m[2, 2] - m[1, 2] * m[2, 1]) - m[0, 1] * (m[1, 0] * m[2, 2] - m[1, 2] * m[2, 0])
                + m[0, 2] * (m[1, 0] * m[2, 1] - m[1, 1] * m[2, 0]))
    raise Unsupported('det of a %dx%d matrix' % (n, n))


def scalar_fn(name, v):
    if isinstance(v, S):
        if name == 'cos':
            return core.trig(v)[0]
        if name == 'sin':
            return core.trig(v)[1]
        if name == 'sqrt':
            return core.ssqrt(v)
        if name in ('abs', 'absolute'):
            return abs(v)
        if name == 'square':
            return v * v
        if name == 'negative':
            return -v
        if name == 'sign':
            return core.s_if(v > 0, 1.0, core.s_if(v < 0, -1.0, 0.0))
        if name in ('around', 'round', 'rint'):
            k = core.fresh_int('round')
            kr = S(z3.ToReal(k.t))
            core._side.append(z3.And((kr - v <= 0.5).t, (v - kr <= 0.5).t))
            return S(k.t)
        if name in ('ceil', 'floor'):
            k = core.fresh_int(name)
            kr = S(z3.ToReal(k.t))
            core._side.append(z3.And((kr - 1 < v).t, (v <= kr).t) if name == 'ceil' else z3.And((kr <= v).t, (v < kr + 1).t))
            return kr
        raise Unsupported('np.%s of a symbolic scalar' % name)
    return float(getattr(np, name)(v))


def elementwise(name, args):
    x = args[0]
    if isinstance(x, np.ndarray):
        if x.dtype == object:
            return np.vectorize(lambda v: scalar_fn(name, v), otypes=[object])(x)
        return getattr(np, name)(x)
    if isinstance(x, (list, tuple)):
        return elementwise(name, [np.array(_lists(x), dtype=object if is_sym(x) else None)])
    return scalar_fn(name, x)
