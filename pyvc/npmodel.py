"""Kernel contracts for NumPy / SciPy-BLAS on *pointwise* arrays (generic-index model).

A PArr is a view on a Buf; the Buf's content is a whole-vector term (core.V) standing for
the value at one arbitrary index.  Only index-aligned operations are modelled here
(K1-K5 of DESIGN.md); anything that moves data across indices raises Unsupported.
"""
import itertools
from fractions import Fraction

import z3

from . import core
from .core import (S, C, V, VVar, VConst, VFresh, VLin, VPw, VApp, OpSym, Unsupported, EngineError,
                   sbool, s_and, s_or, s_not, s_if)
from . import interp as ip
from . import carr

INT32_MAX = 2 ** 31 - 1


class DT(object):
    """numpy dtype, concrete"""
    pv_value_key = True       # hashable by value: usable as a dict key
    _KIND = {'float16': 'float', 'float32': 'float', 'float64': 'float', 'float128': 'float',
             'complex64': 'complex', 'complex128': 'complex', 'complex256': 'complex',
             'int8': 'int', 'int16': 'int', 'int32': 'int', 'int64': 'int', 'uint8': 'int', 'uint16': 'int',
             'uint32': 'int', 'uint64': 'int', 'bool': 'bool', 'object': 'object'}
    _ALIAS = {'float': 'float64', 'int': 'int64', 'complex': 'complex128', 'double': 'float64', 'single': 'float32',
              'f': 'float32', 'd': 'float64', 'F': 'complex64', 'D': 'complex128', 'l': 'int64', 'i': 'int32',
              'float_': 'float64', 'int_': 'int64', 'complex_': 'complex128', 'bool_': 'bool', '?': 'bool',
              'e': 'float16', 'g': 'float128', 'G': 'complex256'}
    _CHAR = {'float16': 'e', 'float32': 'f', 'float64': 'd', 'float128': 'g', 'complex64': 'F', 'complex128': 'D',
             'complex256': 'G', 'int8': 'b', 'int16': 'h', 'int32': 'i', 'int64': 'l', 'uint8': 'B', 'uint16': 'H',
             'uint32': 'I', 'uint64': 'L', 'bool': '?', 'object': 'O'}
    _SIZE = {'float16': 2, 'float32': 4, 'float64': 8, 'float128': 16, 'complex64': 8, 'complex128': 16, 'complex256': 32,
             'int8': 1, 'int16': 2, 'int32': 4, 'int64': 8, 'uint8': 1, 'uint16': 2, 'uint32': 4, 'uint64': 8, 'bool': 1, 'object': 8}

    def __init__(self, name):
        name = DT._ALIAS.get(name, name)
        if name not in DT._KIND:
            raise Unsupported('dtype %r' % name)
        self.name = name
        self.kind = DT._KIND[name]

    def __eq__(self, o):
        if isinstance(o, DT):
            return self.name == o.name
        if isinstance(o, str):
            try:
                return DT(o).name == self.name
            except Unsupported:
                return False
        return NotImplemented

    def __ne__(self, o):
        r = self.__eq__(o)
        return r if r is NotImplemented else not r

    def __hash__(self):
        return hash(self.name)

    def __repr__(self):
        return 'dtype(%s)' % self.name

    def pv_getattr(self, I, fr, name):
        if name == 'char':
            return DT._CHAR[self.name]
        if name == 'kind':
            return {'float': 'f', 'complex': 'c', 'int': 'i' if not self.name.startswith('u') else 'u', 'bool': 'b', 'object': 'O'}[self.kind]
        if name == 'base':
            return self
        if name == 'shape':
            return ()
        if name == 'itemsize':
            return DT._SIZE[self.name]
        if name == 'name':
            return self.name
        if name == 'type':
            return self
        if name == 'newbyteorder':
            return ip.Builtin('newbyteorder', lambda I, fr, a, k: self)
        raise ip.PyRaise(I.make_exc('AttributeError', name))

    def pv_eq(self, I, fr, o):
        r = self.__eq__(o)
        if r is NotImplemented:
            if isinstance(o, DTSpec):
                return o.name == self.name
            return False
        return r

    def pv_hash(self, I, fr):
        return ('dtype', self.name)

    def pv_call(self, I, fr, args, kwargs):
        # np.float64(x) style scalar construction
        return args[0] if args else 0


class DTSpec(object):
    """np.float64 etc. used as a dtype specifier or scalar type"""

    def __init__(self, name):
        self.name = DT._ALIAS.get(name, name)

    def pv_call(self, I, fr, args, kwargs):
        return args[0] if args else 0

    def pv_eq(self, I, fr, o):
        if isinstance(o, DTSpec):
            return o.name == self.name
        if isinstance(o, DT):
            return o.name == self.name
        return False

    def pv_instancecheck(self, I, v):
        return False

    def __repr__(self):
        return 'np.%s' % self.name


def as_dtype(x):
    if isinstance(x, DT):
        return x
    if isinstance(x, DTSpec):
        return DT(x.name)
    if isinstance(x, str):
        return DT(x)
    if x is None:
        return DT('float64')
    if hasattr(x, 'name') and x.__class__.__name__ == 'TypeTag':
        return DT({'int': 'int64', 'float': 'float64', 'complex': 'complex128', 'bool': 'bool'}[x.name])
    raise Unsupported('dtype specifier %r' % (x,))


class SymShape(object):
    """shape of arbitrary (config: ndim >= 1) dimension with symbolic total size"""

    def __init__(self, size, ndim=None):
        self.size, self.ndim = size, ndim

    def pv_eq(self, I, fr, o):
        if o is self:
            return True
        if isinstance(o, SymShape):
            return o.size is self.size and o.ndim is self.ndim or ip.NOTIMPL
        if isinstance(o, tuple):
            if o == ():
                return False
            raise Unsupported('comparison of symbolic shape with %r' % (o,))
        return False

    def pv_len(self, I, fr):
        if self.ndim is None:
            raise Unsupported('len of a shape with unknown ndim')
        return self.ndim

    def pv_hash(self, I, fr):
        return ('shape', id(self))

    def __repr__(self):
        return 'shape<%s>' % (self.size,)


class Buf(object):
    _n = itertools.count()

    def __init__(self, content, dtype, shape, ccont=True, fcont=False, name=None, writeable=True):
        self.content = content
        self.dtype = dtype
        self.shape = shape
        self.ccont, self.fcont = ccont, fcont
        self.name = name or 'buf%d' % next(Buf._n)
        self.writeable = writeable
        self.writes = 0

    def __repr__(self):
        return '<buf %s>' % self.name


class Flags(object):
    def __init__(self, arr):
        self.arr = arr

    def pv_getattr(self, I, fr, name):
        a = self.arr
        if name == 'f_contiguous':
            return a.fcont()
        if name == 'c_contiguous':
            return a.ccont()
        if name == 'writeable':
            return a.buf.writeable
        if name == 'contiguous':
            return a.ccont()
        raise Unsupported('flags.%s' % name)


def vfield(dt):
    return 'complex' if dt.kind == 'complex' else 'real'


class ListArr(object):
    """np.array([s0, s1, ...]) of a short list of scalars (concrete length)"""

    def __init__(self, items):
        self.items = items


class BytesV(object):
    """ndarray.tobytes(): the memory image of an array (content, dtype, shape at the time of the call)"""

    def __init__(self, arr):
        self.content, self.dtype, self.shape, self.buf = arr.buf.content, arr.buf.dtype, arr.buf.shape, arr.buf

    def pv_hash(self, I, fr):
        return ('bytes', self)


class PArr(object):
    """view on a Buf.  order_tag: None = natural N-d index set, 'C'/'F' = raveled in that order"""

    def __init__(self, buf, order_tag=None):
        self.buf = buf
        self.order_tag = order_tag

    def __repr__(self):
        return '<arr %s%s>' % (self.buf.name, '' if self.order_tag is None else ' ravel ' + self.order_tag)

    # contiguity of the view
    def ccont(self):
        return True if self.order_tag is not None else self.buf.ccont

    def fcont(self):
        return True if self.order_tag is not None else self.buf.fcont

    @property
    def content(self):
        return self.buf.content

    def pv_is(self, other):
        return False

    def pv_len(self, I, fr):
        sh = self.buf.shape
        if isinstance(sh, tuple) and len(sh) >= 1:
            return sh[0]
        raise Unsupported('len of an array with abstract shape')

    def pv_getattr(self, I, fr, name):
        b = self.buf
        if name == 'flags':
            return Flags(self)
        if name == 'dtype':
            return b.dtype
        if name == 'size':
            return b.shape.size if isinstance(b.shape, SymShape) else _prod(b.shape)
        if name == 'shape':
            if self.order_tag is not None:
                return (self.pv_getattr(I, fr, 'size'),)
            return b.shape
        if name == 'ndim':
            if self.order_tag is not None:
                return 1
            return b.shape.ndim if isinstance(b.shape, SymShape) else len(b.shape)
        if name == 'itemsize':
            return DT._SIZE[b.dtype.name]
        if name == 'ravel':
            return ip.Builtin('ravel', self._ravel)
        if name == 'copy':
            return ip.Builtin('copy', lambda I, fr, a, k: self._copy(fr))
        if name == 'real':
            if b.dtype.kind == 'complex':
                if isinstance(b.shape, tuple) and all(isinstance(x, int) for x in b.shape) and _prod(b.shape) == 0:
                    # the real view of an array without entries: only its dtype is observable
                    return new_temp(VConst(0.0), DT({'complex64': 'float32', 'complex128': 'float64', 'complex256': 'float128'}[b.dtype.name]), b.shape, self.order_tag)
                raise Unsupported('.real view of complex pointwise array')
            return self
        if name == 'imag':
            if b.dtype.kind == 'complex':
                raise Unsupported('.imag view of complex pointwise array')
            return new_temp(VConst(0.0), b.dtype, b.shape, self.order_tag)
        if name in ('conj', 'conjugate'):
            return ip.Builtin('conj', lambda I, fr, a, k: ufunc1(I, fr, 'conj', self))
        if name == 'astype':
            return ip.Builtin('astype', self._astype)
        if name == 'fill':
            def fill(I, fr, a, k):
                write(I, fr, self, VConst(a[0]))
            return ip.Builtin('fill', fill)
        if name == 'data':
            raise ip.PyRaise(I.make_exc('AttributeError', 'data'))   # ndarray.data is a buffer; not an element
        if name == 'space':
            raise ip.PyRaise(I.make_exc('AttributeError', 'space'))
        if name == '__array_priority__':
            return 0.0
        if name == 'tobytes':
            return ip.Builtin('tobytes', lambda I, fr, a, k: BytesV(self))
        if name in ('sum', 'max', 'min', 'dot', 'tolist', 'reshape', 'item', 'squeeze', 'T', 'swapaxes', 'transpose'):
            raise Unsupported('ndarray.%s on a pointwise array' % name)
        raise ip.PyRaise(I.make_exc('AttributeError', name))

    def _ravel(self, I, fr, args, kwargs):
        order = args[0] if args else kwargs.get('order', 'C')
        if self.order_tag is not None:
            return self
        if order in ('K', 'A'):
            # K3: 'K' flattens in memory order, 'A' in Fortran order iff the array is Fortran- (and not C-) contiguous: for a contiguous array both are
            # views in ITS OWN order - which is a property of each operand, not a common choice
            cc, fc = self.ccont(), self.fcont()
            is_c = fr.st.decide(cc) if not isinstance(cc, bool) else cc
            if is_c:
                order = 'C'
            else:
                is_f = fr.st.decide(fc) if not isinstance(fc, bool) else fc
                if is_f:
                    order = 'F'
                elif order == 'A':
                    order = 'C'
                else:
                    raise Unsupported("ravel(order='K') of a non-contiguous array")
        if order not in ('C', 'F'):
            raise Unsupported('ravel order %r' % (order,))
        contig = self.ccont() if order == 'C' else self.fcont()
        isview = fr.st.decide(contig) if not isinstance(contig, bool) else contig
        if isview:
            return PArr(self.buf, order)
        # copy (K3): writes to the result do not reach the original
        nb = Buf(self.buf.content, self.buf.dtype, self.buf.shape, True, True, name=self.buf.name + '.ravelcopy')
        fr.st.events.append(('ravel-copy', self.buf, nb))
        return PArr(nb, order)

    def _copy(self, fr):
        nb = Buf(self.buf.content, self.buf.dtype, self.buf.shape, True if self.order_tag else self.buf.ccont,
                 True if self.order_tag else self.buf.fcont)
        return PArr(nb, self.order_tag)

    def _astype(self, I, fr, args, kwargs):
        dt = as_dtype(args[0] if args else kwargs['dtype'])
        copy = kwargs.get('copy', True)
        casting = kwargs.get('casting', 'unsafe')
        src = self.buf.dtype
        order = {'bool': 0, 'int': 1, 'float': 2, 'complex': 3}
        if src.kind in order and dt.kind in order:
            safe = order[src.kind] <= order[dt.kind] and (DT._SIZE[src.name] <= DT._SIZE[dt.name] or src.kind != dt.kind and src.kind in ('bool',))
            if src.kind == 'int' and dt.kind == 'float':
                safe = DT._SIZE[dt.name] > DT._SIZE[src.name] or DT._SIZE[dt.name] >= 8
            same_kind = order[src.kind] <= order[dt.kind]
            if casting == 'safe' and not safe:
                raise ip.PyRaise(I.make_exc('TypeError', 'Cannot cast array from %s to %s according to the rule safe' % (src.name, dt.name)))
            if casting == 'same_kind' and not same_kind:
                raise ip.PyRaise(I.make_exc('TypeError', 'Cannot cast array according to the rule same_kind'))
            if src.kind == dt.kind and src.kind in ('float', 'complex') and DT._SIZE[dt.name] < DT._SIZE[src.name] and fr is not None:
                # values are rounded to lower precision: invisible over the reals (A1), recorded as an event
                fr.st.events.append(('downcast', src.name, dt.name))
        if dt == self.buf.dtype and copy is False:
            return self
        if dt.kind in ('int', 'bool') and self.buf.dtype.kind in ('float', 'complex'):
            raise Unsupported('astype float->int (truncation)')
        if dt.kind == 'float' and self.buf.dtype.kind == 'complex':
            raise Unsupported('astype complex->float')
        nb = Buf(self.buf.content, dt, self.buf.shape, True, False)
        return PArr(nb, self.order_tag)

    def pv_getitem(self, I, fr, idx):
        if isinstance(idx, WhereIdx):
            idx = idx.mask
        if isinstance(idx, tuple) and idx and all(x is None or (isinstance(x, slice) and x == slice(None)) for x in idx) \
                and sum(1 for x in idx if x is not None) <= 1:
            return PArr(self.buf, self.order_tag)
        if idx is Ellipsis or (isinstance(idx, slice) and idx == slice(None)) or idx == ():
            return PArr(self.buf, self.order_tag)
        if isinstance(idx, PArr) and idx.buf.dtype.kind == 'bool':
            return MaskedView(self, idx)
        if isinstance(idx, int) and not isinstance(idx, bool) and isinstance(self.buf.content, core.VVar) and isinstance(self.buf.shape, tuple) and len(self.buf.shape) == 1:
            # one entry of a 1-d array with free contents: a scalar symbol of its own (no link to the generic index is claimed)
            return S(z3.Real('%s[%d]' % (self.buf.content.name, idx)))
        raise Unsupported('indexing a pointwise array with %r' % (idx,))

    def pv_setitem(self, I, fr, idx, val):
        if isinstance(idx, WhereIdx):
            idx = idx.mask
        if idx is Ellipsis or (isinstance(idx, slice) and idx == slice(None)) or idx == ():
            write(I, fr, self, val, assign=True)
            return
        if isinstance(idx, PArr) and idx.buf.dtype.kind == 'bool':
            # a[mask] = val  (val scalar, or val = b[mask] with the same mask)
            old = self.buf.content
            if isinstance(val, MaskedView):
                if val.mask.buf is not idx.buf and val.mask.buf.content is not idx.buf.content:
                    raise Unsupported('masked assignment from a different mask')
                new = val.cont
            elif isinstance(val, PArr):
                raise Unsupported('masked assignment from an unmasked array')
            else:
                new = VConst(val)
            check_aligned(fr, self, idx)
            write(I, fr, self, VPw('where', (idx.buf.content, new, old)), assign=True, prechecked=True)
            return
        raise Unsupported('item assignment on a pointwise array with index %r' % (idx,))

    def pv_binop(self, I, fr, name, other):
        op = name.strip('_')
        refl = False
        if op.startswith('r') and op[1:] in _ARITH:
            op, refl = op[1:], True
        if op in _ARITH:
            a, b = (other, self) if refl else (self, other)
            return ufunc2(I, fr, op, a, b)
        if op in ('lt', 'le', 'gt', 'ge'):
            return ufunc2(I, fr, op, self, other)
        if op in ('and', 'or', 'rand', 'ror'):
            return ufunc2(I, fr, op.lstrip('r') if op.startswith('r') and len(op) > 2 else op, self, other)
        return ip.NOTIMPL

    def pv_eq(self, I, fr, other):
        if isinstance(other, (PArr, S, C, int, float, complex)):
            return ufunc2(I, fr, 'eq', self, other)
        return ip.NOTIMPL

    def pv_not(self, I, fr):
        return ufunc1(I, fr, 'not', self)

    def pv_unop(self, I, fr, name):
        if name == '__neg__':
            return ufunc1(I, fr, 'neg', self)
        if name == '__pos__':
            return self
        if name == '__abs__':
            return ufunc1(I, fr, 'abs', self)
        if name == '__invert__':
            return ufunc1(I, fr, 'not', self)
        raise Unsupported(name)

    def pv_inplace(self, I, fr, name, other):
        op = name[3:-2]
        if op not in _ARITH:
            raise Unsupported('in-place %s on array' % op)
        res = ufunc2(I, fr, op, self, other, out=self)
        return res

    def pv_truth(self, I, fr):
        raise ip.PyRaise(I.make_exc('ValueError', 'truth value of an array is ambiguous'))

    def pv_isinstance(self, I, cls):
        return getattr(cls, 'name', None) == 'ndarray' or getattr(cls, 'attr', None) == 'ndarray'

    def pv_iter(self, I, fr):
        raise Unsupported('iteration over a pointwise array')


class WhereIdx(object):
    """np.where(cond) with one argument: the index set of a boolean mask (used only to index / assign)"""

    def __init__(self, mask):
        self.mask = mask


class Table(object):
    """a fixed N-d array (grid coordinate vector, grid values) read only through integer-array lookups from
    pointwise (per evaluation point) index arrays: contents are a function of the index tuple"""

    def __init__(self, name, shape, dtype=None, fn=None):
        self.name, self.shape, self.dtype = name, tuple(shape), dtype or DT('float64')
        self.fn = fn        # optional python function index terms -> scalar term (default: uninterpreted)

    WRAP_NEGATIVE = False       # NumPy's integer-array indexing wraps negative indices; switched on by the units that reach negative indices (fresh fork per unit)

    def value(self, idx):
        if Table.WRAP_NEGATIVE:
            idx = [core.s_if(S.lift(i) < 0, S.lift(i) + S.lift(n), S.lift(i)) if not isinstance(i, int) or i < 0 else i for i, n in zip(idx, self.shape)]
        if self.fn is not None:
            return self.fn(tuple(idx))
        f = core.uf(self.name, *([z3.IntSort()] * len(self.shape) + [z3.RealSort()]))

        def toint(i):
            t = S.lift(i).t
            return t if z3.is_int(t) else z3.ToInt(t)
        return S(f(*[toint(i) for i in idx]))

    def pv_getattr(self, I, fr, name):
        if name == 'shape':
            return self.shape
        if name == 'ndim':
            return len(self.shape)
        if name == 'size':
            return _prod(self.shape)
        if name == 'dtype':
            return self.dtype
        raise Unsupported('table attribute %s' % name)

    def pv_len(self, I, fr):
        return self.shape[0]

    def pv_isinstance(self, I, cls):
        return getattr(cls, 'name', None) == 'ndarray'

    def pv_getitem(self, I, fr, idx):
        if not isinstance(idx, tuple):
            idx = (idx,)
        if len(idx) != len(self.shape):
            raise Unsupported('partial indexing of a table')
        arrs = [x for x in idx if isinstance(x, PArr)]
        if not arrs:
            return self.value([x for x in idx])
        conts = [x.buf.content if isinstance(x, PArr) else VConst(x) for x in idx]
        return new_temp(VPw('lookup', (self,) + tuple(conts)), self.dtype, arrs[0].buf.shape, arrs[0].order_tag)


class MaskedView(object):
    """a[mask] on the right-hand side: usable in a[mask] = b[mask], a[mask] op= scalar / b[mask]"""

    def __init__(self, arr, mask, cont=None):
        self.arr, self.mask = arr, mask
        self.cont = cont if cont is not None else arr.buf.content

    def _operand(self, I, other):
        if isinstance(other, MaskedView):
            if other.mask.buf is not self.mask.buf and other.mask.buf.content is not self.mask.buf.content:
                raise Unsupported('arithmetic on differently masked selections')
            return other.cont
        if I.scalar_kind(other) is not None:
            return VConst(other)
        raise Unsupported('masked-view operand %r' % (other,))

    def pv_inplace(self, I, fr, name, other):
        op = name[3:-2]
        return MaskedView(self.arr, self.mask, ufunc_content(op, [self.cont, self._operand(I, other)]))

    def pv_binop(self, I, fr, name, other):
        op = name.strip('_')
        refl = op.startswith('r') and op[1:] in _ARITH
        if refl:
            op = op[1:]
        if op not in _ARITH:
            return ip.NOTIMPL
        a, b = self.cont, self._operand(I, other)
        if refl:
            a, b = b, a
        return MaskedView(self.arr, self.mask, ufunc_content(op, [a, b]))


_ARITH = {'add', 'sub', 'mul', 'truediv', 'pow', 'floordiv', 'mod'}
_UF2 = {'add': 'add', 'subtract': 'sub', 'multiply': 'mul', 'divide': 'truediv', 'true_divide': 'truediv',
        'power': 'pow', 'maximum': 'maximum', 'minimum': 'minimum', 'less': 'lt', 'less_equal': 'le',
        'greater': 'gt', 'greater_equal': 'ge', 'equal': 'eq', 'not_equal': 'ne', 'logical_and': 'and',
        'logical_or': 'or', 'fmax': 'maximum', 'fmin': 'minimum'}
_UF1 = {'abs': 'abs', 'absolute': 'abs', 'sign': 'sign', 'sqrt': 'sqrt', 'negative': 'neg', 'conj': 'conj',
        'conjugate': 'conj', 'real': 'real', 'imag': 'imag', 'exp': 'exp', 'log': 'log', 'square': 'square',
        'logical_not': 'not', 'positive': 'pos'}


def _prod(shape):
    r = 1
    for s in shape:
        r = r * s
    return r


def new_temp(content, dtype, shape, order_tag=None):
    return PArr(Buf(content, dtype, shape, True, order_tag is not None or False), order_tag)


def check_aligned(fr, *arrs):
    arrs = [a for a in arrs if isinstance(a, PArr)]
    tags = set(a.order_tag for a in arrs)
    if len(tags) > 1:
        # the same buffer raveled and unraveled, or two different ravel orders
        fr.st.events.append(('misaligned', tuple(a.order_tag for a in arrs)))
    if getattr(fr.st, 'shape_checks', False) and len(arrs) >= 2:
        # 1-d operands of symbolic lengths: NumPy broadcasting (equal lengths, or one of them 1), otherwise ValueError
        sh = [a.buf.shape for a in arrs[:2]]
        if all(isinstance(x, tuple) and len(x) == 1 for x in sh) and sh[0][0] is not sh[1][0]:
            n1, n2 = core.S.lift(sh[0][0]), core.S.lift(sh[1][0])
            if not fr.st.decide(core.sc_eq(n1, n2)):
                if not fr.st.decide(core.s_or(core.sbool(core.sc_eq(n1, 1)), core.sbool(core.sc_eq(n2, 1)))):
                    from .harness import get_interp
                    raise ip.PyRaise(get_interp().make_exc('ValueError', 'operands could not be broadcast together'))
                fr.st.events.append(('broadcast', sh))
    return


def result_kind(kinds):
    for k in ('complex', 'float', 'int', 'bool'):
        if k in kinds:
            return k
    return 'float'


_PROMO = {'float': 'float64', 'complex': 'complex128', 'int': 'int64', 'bool': 'bool'}


def operand(I, x):
    """(content V, kind, dtype-or-None) of a ufunc operand"""
    if isinstance(x, PArr):
        return x.buf.content, x.buf.dtype.kind, x.buf.dtype
    if isinstance(x, MaskedView):
        raise Unsupported('masked view as ufunc operand')
    k = I.scalar_kind(x)
    if k is None:
        if isinstance(x, ip.Obj) or hasattr(x, 'pv_asarray'):
            return None, None, None
        raise Unsupported('ufunc operand %r' % (x,))
    return VConst(x), {'real': 'float'}.get(k, k), None


def result_dtype(op, ops):
    """numpy result type (value-based casting of python scalars: scalars do not upcast within a kind)"""
    arr_dts = [d for (_, _, d) in ops if d is not None]
    kinds = [k for (_, k, _) in ops]
    rk = result_kind(kinds)
    if op == 'truediv' and rk in ('int', 'bool'):
        rk = 'float'
    if op in ('lt', 'le', 'gt', 'ge', 'eq', 'ne', 'and', 'or', 'not'):
        return DT('bool')
    if op in ('abs', 'real', 'imag') and rk == 'complex':
        cands = [d for d in arr_dts if d.kind == 'complex']
        return DT({'complex64': 'float32', 'complex128': 'float64', 'complex256': 'float128'}[cands[0].name]) if cands else DT('float64')
    cands = [d for d in arr_dts if d.kind == rk]
    if cands:
        return max(cands, key=lambda d: DT._SIZE[d.name])
    if rk == 'complex' and arr_dts:
        m = max(arr_dts, key=lambda d: DT._SIZE[d.name])
        if m.name in ('float16', 'float32'):
            return DT('complex64')
        if m.name == 'float128':
            return DT('complex256')
    if rk == 'float' and arr_dts and all(d.kind == 'float' for d in arr_dts):
        return max(arr_dts, key=lambda d: DT._SIZE[d.name])
    return DT(_PROMO[rk])


def can_cast_same_kind(src, dst):
    order = {'bool': 0, 'int': 1, 'float': 2, 'complex': 3}
    return order[src.kind] <= order[dst.kind]


def ufunc_content(op, cs):
    if op == 'add':
        return VLin([(1, cs[0]), (1, cs[1])])
    if op == 'sub':
        return VLin([(1, cs[0]), (-1, cs[1])])
    if op == 'mul':
        return core.vmul(cs[0], cs[1])
    if op == 'truediv':
        return core.vdiv(cs[0], cs[1])
    if op == 'pow':
        return VPw('power', (cs[0], cs[1].c if isinstance(cs[1], VConst) else cs[1]))
    if op == 'neg':
        return VLin([(-1, cs[0])])
    if op == 'pos':
        return cs[0]
    if op in ('floordiv', 'mod'):
        raise Unsupported('array %s' % op)
    return VPw(op, tuple(cs))


def _ufunc_with_keywords(I, fr, f, operands, out, kwargs, extra):
    """ufunc keywords other than `out`: `where=mask` with an array `out` leaves the entries of `out` outside the mask as they were
    (K1 for masked evaluation); every other keyword is outside the model (never silently ignored)"""
    if extra != ['where']:
        raise Unsupported('ufunc keywords %s' % extra)
    mask = kwargs['where']
    if mask is True:
        return f(I, fr, list(operands) + ([out] if out is not None else []), {})
    m = unwrap(I, fr, mask)
    o = unwrap(I, fr, out) if out is not None else None
    if not isinstance(m, PArr) or m.buf.dtype.kind != 'bool' or not isinstance(o, PArr):
        raise Unsupported('ufunc where= without a boolean mask array and an array out (unmasked entries of a fresh result are uninitialised)')
    full = f(I, fr, list(operands), {})
    full = unwrap(I, fr, full)
    if not isinstance(full, PArr):
        raise Unsupported('masked scalar ufunc')
    check_aligned(fr, o, m)
    check_aligned(fr, o, full)
    write(I, fr, o, VPw('where', (m.buf.content, full.buf.content, o.buf.content)), assign=True, prechecked=True)
    return out


def ufunc2(I, fr, op, a, b, out=None):
    ops = [operand(I, a), operand(I, b)]
    if ops[0][0] is None or ops[1][0] is None:
        return ip.NOTIMPL
    check_aligned(fr, a, b, out)
    content = ufunc_content(op, [ops[0][0], ops[1][0]])
    rdt = result_dtype(op, ops)
    res = finish(I, fr, content, rdt, [a, b], out)
    if op == 'add' and out is None and isinstance(res, PArr) and any(isinstance(z, float) and z == 0.0 for z in (a, b)):
        res.buf.zero_normalised = True          # x + 0.0 has no negative zeros (IEEE: -0.0 + 0.0 == +0.0)
    return res


def ufunc1(I, fr, op, a, out=None):
    ops = [operand(I, a)]
    if ops[0][0] is None:
        return ip.NOTIMPL
    check_aligned(fr, a, out)
    if op == 'conj' and ops[0][1] != 'complex':
        content = ops[0][0]
    elif op == 'real' and ops[0][1] != 'complex':
        content = ops[0][0]
    else:
        content = ufunc_content(op, [ops[0][0]])
    rdt = result_dtype(op, ops)
    if op in ('sqrt', 'exp', 'log') and rdt.kind in ('int', 'bool'):
        rdt = DT('float64')
    return finish(I, fr, content, rdt, [a], out)


def finish(I, fr, content, rdt, inputs, out):
    if out is None:
        arrs = [x for x in inputs if isinstance(x, PArr)]
        if not arrs:
            raise EngineError('ufunc without array operand')
        tag = arrs[0].order_tag
        return new_temp(content, rdt, arrs[0].buf.shape, tag)
    if isinstance(out, tuple):
        out = out[0]
    if not isinstance(out, PArr):
        raise Unsupported('ufunc out=%r' % (out,))
    # K2: casting rule same_kind for the output
    if not can_cast_same_kind(rdt, out.buf.dtype):
        raise ip.PyRaise(I.make_exc('UFuncTypeError', 'cannot cast ufunc output from %s to %s with casting rule same_kind' % (rdt.name, out.buf.dtype.name)))
    write(I, fr, out, content, prechecked=True)
    return out


def write(I, fr, arr, val, assign=False, prechecked=False):
    """store `val` (array, scalar or content term) into the buffer behind `arr` (K1: rhs fully evaluated first)"""
    if not arr.buf.writeable:
        raise ip.PyRaise(I.make_exc('ValueError', 'assignment destination is read-only'))
    if isinstance(val, V):
        content = val
    elif isinstance(val, PArr):
        check_aligned(fr, arr, val)
        content = val.buf.content
        if assign and val.buf.dtype.kind == 'complex' and arr.buf.dtype.kind != 'complex':
            fr.st.events.append(('complex-discard', arr.buf))
    else:
        k = I.scalar_kind(val)
        if k is None:
            raise Unsupported('array assignment from %r' % (val,))
        content = VConst(val)
    arr.buf.content = content
    arr.buf.writes += 1
    fr.st.events.append(('write', arr.buf))


# --------------------------------------------------------------------------
# the `numpy` module

class _Plain(object):
    """the pointwise / abstract model of numpy (used by the object-array mode for type objects and dtype predicates)"""

    def __init__(self, m):
        self.m = m

    def pv_getattr(self, I, fr, name):
        if name in self.m.table:
            return self.m.table[name]
        return ip.ExtAttr('numpy', name)


class NpModule(object):
    def __init__(self, I):
        self.I = I
        t = self.table = {}
        for name, op in _UF2.items():
            t[name] = ip.Builtin('np.' + name, self._mk2(op, name))
        for name, op in _UF1.items():
            t[name] = ip.Builtin('np.' + name, self._mk1(op))
        for n in ('float16', 'float32', 'float64', 'float128', 'complex64', 'complex128', 'complex256', 'int8', 'int16', 'int32', 'int64',
                  'uint8', 'uint16', 'uint32', 'uint64', 'bool_', 'float_', 'int_', 'complex_'):
            t[n] = DTSpec(n)
        t['sctypes'] = {'float': [DTSpec(n) for n in ('float16', 'float32', 'float64', 'float128')],
                        'complex': [DTSpec(n) for n in ('complex64', 'complex128', 'complex256')],
                        'int': [DTSpec(n) for n in ('int8', 'int16', 'int32', 'int64')],
                        'uint': [DTSpec(n) for n in ('uint8', 'uint16', 'uint32', 'uint64')]}     # x86-64 Linux build of NumPy (trusted)
        t['pi'] = 3.141592653589793
        t['inf'] = t['infty'] = t['Inf'] = t['Infinity'] = float('inf')
        t['nan'] = float('nan')
        t['newaxis'] = None
        t['ndarray'] = ip.ExtClass('ndarray', (ip.OBJECT,))
        t['generic'] = ip.ExtClass('np.generic', (ip.OBJECT,))
        t['floating'] = AbstractDT('floating')
        t['complexfloating'] = AbstractDT('complexfloating')
        t['integer'] = AbstractDT('integer')
        t['number'] = AbstractDT('number')
        t['inexact'] = AbstractDT('inexact')
        for n in ('dtype', 'empty', 'zeros', 'ones', 'empty_like', 'zeros_like', 'ones_like', 'prod', 'iinfo', 'finfo', 'isscalar',
                  'asarray', 'array', 'can_cast', 'issubsctype', 'issubdtype', 'isrealobj', 'iscomplexobj', 'result_type',
                  'where', 'sum', 'max', 'min', 'dot', 'vdot', 'tensordot', 'array_equal', 'isfinite', 'isnan', 'any', 'all',
                  'float_power', 'copyto', 'full', 'full_like', 'promote_types', 'isclose', 'allclose', 'ndim', 'shape', 'size',
                  'errstate', 'lib', 'swapaxes', 'arange', 'diff', 'hstack', 'atleast_1d', 'linspace', 'searchsorted', 'isinf', 'copy'):
            t[n] = ip.Builtin('np.' + n, getattr(self, 'f_' + n))
        t['linalg'] = I.PyModule('numpy.linalg', {'norm': ip.Builtin('np.linalg.norm', self.f_norm)})

    def pv_getattr(self, I, fr, name):
        ov = getattr(fr.st, 'np_overrides', None) if fr is not None else None
        if ov and name in ov:
            f = ov[name]
            return ip.Builtin('np.' + name, lambda I_, fr_, a, k, f=f: f(I_, fr_, *a, **k))
        if fr is not None and getattr(fr.st, 'object_arrays', False):
            from . import objnp
            if not hasattr(self, '_objnp'):
                self._objnp = objnp.ObjNpModule(I, _Plain(self))
            return self._objnp.pv_getattr(I, fr, name)
        if name in self.table:
            return self.table[name]
        return ip.ExtAttr('numpy', name)

    def _mk2(self, op, npname=None):
        def f(I, fr, args, kwargs):
            out = kwargs.get('out', args[2] if len(args) > 2 else None)
            a, b = args[0], args[1]
            extra = sorted(k for k in kwargs if k != 'out')
            if extra:
                return _ufunc_with_keywords(I, fr, f, [a, b], out, kwargs, extra)
            if isinstance(a, carr.CArr) or isinstance(b, carr.CArr) or isinstance(out, carr.CArr):
                r = carr.ufunc(I, fr, op, [a, b], out=out)
                return out if out is not None else r
            if isinstance(a, ip.Obj) and hasattr(a, 'content') and (I.scalar_kind(b) is not None or (isinstance(b, ip.Obj) and hasattr(b, 'content'))):
                # abstract tensor-like element: np.<ufunc>(element, other) acts like element.ufuncs.<ufunc>(other) (C17)
                uf = I._getattr(a, 'ufuncs', fr)
                name = npname or {'pow': 'power'}.get(op, op)
                return I.call(uf.pv_getattr(I, fr, name), [b], {} if out is None else {'out': out}, fr)
            if not isinstance(a, PArr) and not isinstance(b, PArr):
                a, b = unwrap(I, fr, a), unwrap(I, fr, b)
            if not isinstance(a, PArr) and not isinstance(b, PArr):
                # scalar ufunc
                if out is not None:
                    raise Unsupported('scalar ufunc with out')
                return core.pw_apply(core_name(op), [core._sc(a), core._sc(b)]) if (core.is_sym(a) or core.is_sym(b)) else _pyscalar2(op, a, b)
            r = ufunc2(I, fr, op, unwrap(I, fr, a), unwrap(I, fr, b), out=unwrap(I, fr, out) if out is not None else None)
            if r is ip.NOTIMPL:
                raise Unsupported('np ufunc %s on %r, %r' % (op, a, b))
            return out if out is not None else r
        return f

    def _mk1(self, op):
        def f(I, fr, args, kwargs):
            out = kwargs.get('out', args[1] if len(args) > 1 else None)
            extra = sorted(k for k in kwargs if k != 'out')
            if extra:
                return _ufunc_with_keywords(I, fr, f, [args[0]], out, kwargs, extra)
            if isinstance(args[0], carr.CArr):
                r = carr.ufunc(I, fr, op, [args[0]], out=out)
                return out if out is not None else r
            if isinstance(args[0], ip.Obj) and hasattr(args[0], 'content'):
                # abstract tensor-like element: np.<ufunc>(element) acts like element.ufuncs.<ufunc>() (C17)
                uf = I._getattr(args[0], 'ufuncs', fr)
                name = {'abs': 'absolute', 'neg': 'negative', 'not': 'logical_not'}.get(op, op)
                return I.call(uf.pv_getattr(I, fr, name), [], {} if out is None else {'out': out}, fr)
            a = unwrap(I, fr, args[0])
            if not isinstance(a, PArr):
                if out is not None:
                    raise Unsupported('scalar ufunc with out')
                if core.is_sym(a):
                    return core.pw_apply(op, [a])
                return _pyscalar1(op, a)
            r = ufunc1(I, fr, op, a, out=unwrap(I, fr, out) if out is not None else None)
            return out if out is not None else r
        return f

    # ---- constructors etc.
    def f_dtype(self, I, fr, args, kwargs):
        return as_dtype(args[0])

    def _alloc(self, I, fr, args, kwargs, content):
        shape = args[0] if args else kwargs['shape']
        if getattr(fr.st, 'closure_arrays', False) and not isinstance(shape, SymShape):
            if isinstance(shape, (int, S)):
                shape = (shape,)
            dt0 = as_dtype(kwargs.get('dtype', args[1] if len(args) > 1 else None))
            c = content(dt0)
            if isinstance(c, VFresh):
                return carr.fresh_array('empty.%s' % c.tag, tuple(shape), dt0)
            return carr.const_array(c.c, tuple(shape), dt0)
        dt = as_dtype(kwargs.get('dtype', args[1] if len(args) > 1 else None))
        order = kwargs.get('order', args[2] if len(args) > 2 else 'C')
        if isinstance(shape, (int, S)):
            shape = (shape,)
        c, f = order_flags(shape, order)
        return PArr(Buf(content(dt), dt, shape, c, f))

    def f_empty(self, I, fr, args, kwargs):
        return self._alloc(I, fr, args, kwargs, lambda dt: VFresh(fr.st.fresh('empty'), vfield(dt)))

    def f_zeros(self, I, fr, args, kwargs):
        return self._alloc(I, fr, args, kwargs, lambda dt: VConst(0 if dt.kind in ('int', 'bool') else 0.0))

    def f_ones(self, I, fr, args, kwargs):
        return self._alloc(I, fr, args, kwargs, lambda dt: VConst(1 if dt.kind in ('int', 'bool') else 1.0))

    def f_full(self, I, fr, args, kwargs):
        fill = args[1] if len(args) > 1 else kwargs['fill_value']
        return self._alloc(I, fr, [args[0]], {k: v for k, v in kwargs.items() if k != 'fill_value'}, lambda dt: VConst(fill))

    def _like(self, I, fr, args, kwargs, content):
        a = unwrap(I, fr, args[0])
        if isinstance(a, carr.CArr):
            dt0 = as_dtype(kwargs['dtype']) if kwargs.get('dtype') is not None else a.buf.dtype
            c = content(dt0 or DT('float64'))
            if isinstance(c, VFresh):
                return carr.fresh_array('empty.%s' % c.tag, a.shape, dt0)
            return carr.const_array(c.c, a.shape, dt0)
        if not isinstance(a, PArr):
            raise Unsupported('*_like of %r' % (a,))
        dt = as_dtype(kwargs['dtype']) if kwargs.get('dtype') is not None else a.buf.dtype
        return PArr(Buf(content(dt), dt, a.buf.shape, a.ccont(), a.fcont()), a.order_tag)

    def f_empty_like(self, I, fr, args, kwargs):
        return self._like(I, fr, args, kwargs, lambda dt: VFresh(fr.st.fresh('empty'), vfield(dt)))

    def f_zeros_like(self, I, fr, args, kwargs):
        return self._like(I, fr, args, kwargs, lambda dt: VConst(0.0))

    def f_ones_like(self, I, fr, args, kwargs):
        return self._like(I, fr, args, kwargs, lambda dt: VConst(1.0))

    def f_full_like(self, I, fr, args, kwargs):
        return self._like(I, fr, args[:1], kwargs, lambda dt: VConst(args[1]))

    def f_prod(self, I, fr, args, kwargs):
        a = args[0]
        if isinstance(a, SymShape):
            return a.size
        if isinstance(a, (tuple, list)):
            return _prod(a)
        raise Unsupported('np.prod of %r' % (a,))

    def f_iinfo(self, I, fr, args, kwargs):
        dt = as_dtype(args[0])
        bits = DT._SIZE[dt.name] * 8
        return I.PyModule('iinfo', {'max': 2 ** (bits - 1) - 1, 'min': -2 ** (bits - 1)})

    def f_finfo(self, I, fr, args, kwargs):
        dt = as_dtype(args[0])
        if getattr(fr.st, 'eps_zero', False):
            # C07: relative-epsilon fudge factors (finfo.resolution * 10) are taken as 0 (exact arithmetic, A1)
            return I.PyModule('finfo', {'resolution': 0.0, 'eps': 0.0, 'max': float('inf'), 'tiny': 0.0})
        res = {'float16': 1e-3, 'float32': 1e-6, 'float64': 1e-15, 'float128': 1e-18, 'complex64': 1e-6, 'complex128': 1e-15}[dt.name]
        eps = {'float16': 2.0 ** -10, 'float32': 2.0 ** -23, 'float64': 2.0 ** -52, 'float128': 2.0 ** -63, 'complex64': 2.0 ** -23, 'complex128': 2.0 ** -52}[dt.name]
        return I.PyModule('finfo', {'resolution': res, 'eps': eps, 'max': float('inf'), 'tiny': 0.0})

    def f_isscalar(self, I, fr, args, kwargs):
        return I.scalar_kind(args[0]) is not None or isinstance(args[0], str)

    def f_asarray(self, I, fr, args, kwargs):
        if isinstance(args[0], ip.Obj) and kwargs.get('dtype') is not None and isinstance(args[0].cls, ip.ClassV) and args[0].cls.lookup('__array__')[1] is not None \
                and getattr(fr.st, 'abstract_arrays', False):
            return I.call(I._getattr(args[0], '__array__', fr), [kwargs['dtype']], {}, fr)       # NumPy passes the requested dtype to __array__
        a = unwrap(I, fr, args[0])
        if hasattr(a, 'np_conv'):
            return a.np_conv(I, fr, dict(kwargs, **({'dtype': args[1]} if len(args) > 1 else {})), 'asarray')
        if isinstance(a, (carr.CArr, Table)):
            return a
        if isinstance(a, PArr):
            dt = kwargs.get('dtype', args[1] if len(args) > 1 else None)
            if dt is None or as_dtype(dt) == a.buf.dtype:
                return a
            return a._astype(I, fr, [dt], {})
        if I.scalar_kind(a) is not None:
            return Scalar0d(a)
        raise Unsupported('np.asarray of %r' % (a,))

    def f_array(self, I, fr, args, kwargs):
        a = unwrap(I, fr, args[0])
        if hasattr(a, 'np_conv'):
            return a.np_conv(I, fr, kwargs, 'array')
        if isinstance(a, carr.CArr):
            return carr.materialise(a) if kwargs.get('copy', True) else a
        if getattr(fr.st, 'closure_arrays', False) and isinstance(a, (list, tuple)) and all(I.scalar_kind(x) is not None for x in a):
            return carr.list_array(a)
        if getattr(fr.st, 'point_shape', None) is not None and isinstance(a, (list, tuple)) and len(a) == 1 and I.scalar_kind(a[0]) is not None:
            # np.array([c]): broadcasts against the per-point arrays
            dt = as_dtype(kwargs['dtype']) if kwargs.get('dtype') is not None else DT('float64')
            return new_temp(VConst(a[0]), dt, fr.st.point_shape)
        if getattr(fr.st, 'list_arrays', False) and isinstance(a, (list, tuple)) and all(I.scalar_kind(x) is not None for x in a):
            return ListArr(list(a))
        if isinstance(a, PArr):
            dt = kwargs.get('dtype')
            copy = kwargs.get('copy', True)
            order = kwargs.get('order')
            if dt is not None and as_dtype(dt) != a.buf.dtype:
                return a._astype(I, fr, [dt], {})
            if copy is False and order is None:
                return a
            if copy is False:
                ok = a.ccont() if order == 'C' else a.fcont()
                if fr.st.decide(ok) if not isinstance(ok, bool) else ok:
                    return a
            return a._copy(fr)
        raise Unsupported('np.array of %r' % (a,))

    def f_can_cast(self, I, fr, args, kwargs):
        k = I.scalar_kind(args[0])
        if k is not None:
            src = DT({'real': 'float64', 'int': 'int64', 'bool': 'bool', 'complex': 'complex128'}[k])
        else:
            src = as_dtype(args[0])
        return can_cast_same_kind(src, as_dtype(args[1]))

    def f_issubsctype(self, I, fr, args, kwargs):
        return self.f_issubdtype(I, fr, args, kwargs)

    def f_issubdtype(self, I, fr, args, kwargs):
        a, b = args
        if a is None:
            return False
        dt = as_dtype(a)
        if isinstance(b, AbstractDT):
            return b.contains(dt)
        return dt == as_dtype(b)

    def f_isrealobj(self, I, fr, args, kwargs):
        a = unwrap(I, fr, args[0])
        if isinstance(a, PArr):
            return a.buf.dtype.kind != 'complex'
        return I.scalar_kind(a) != 'complex'

    def f_iscomplexobj(self, I, fr, args, kwargs):
        return not self.f_isrealobj(I, fr, args, kwargs)

    def f_result_type(self, I, fr, args, kwargs):
        ops = []
        for a in args:
            a = unwrap(I, fr, a)
            if isinstance(a, PArr):
                ops.append((None, a.buf.dtype.kind, a.buf.dtype))
            elif isinstance(a, (DT, DTSpec, str)):
                d = as_dtype(a)
                ops.append((None, d.kind, d))
            else:
                k = I.scalar_kind(a)
                ops.append((None, {'real': 'float'}.get(k, k), None))
        return result_dtype('add', ops)

    def f_promote_types(self, I, fr, args, kwargs):
        return self.f_result_type(I, fr, args, kwargs)

    def f_where(self, I, fr, args, kwargs):
        if len(args) == 1 and isinstance(args[0], PArr):
            return WhereIdx(args[0])
        if len(args) != 3:
            raise Unsupported('np.where with one argument')
        c, a, b = [unwrap(I, fr, x) for x in args]
        if not any(isinstance(x, PArr) for x in (c, a, b)):
            raise Unsupported('scalar np.where')
        check_aligned(fr, c, a, b)
        ops = [operand(I, a), operand(I, b)]
        cc = operand(I, c)[0]
        rdt = result_dtype('add', ops)
        arrs = [x for x in (c, a, b) if isinstance(x, PArr)]
        return new_temp(VPw('where', (cc, ops[0][0], ops[1][0])), rdt, arrs[0].buf.shape, arrs[0].order_tag)

    def f_copyto(self, I, fr, args, kwargs):
        write(I, fr, unwrap(I, fr, args[0]), unwrap(I, fr, args[1]), assign=True)

    def f_float_power(self, I, fr, args, kwargs):
        return self._mk2('pow')(I, fr, args, kwargs)

    def _reduce(self, I, fr, kind, a, extra=()):
        if isinstance(a, ip.Obj) and hasattr(a, 'content'):
            # abstract tensor-like element: np.<reduction>(element) reduces the underlying array (C17)
            return fr.st.reductions.reduce(fr, kind, a.content, extra)
        a = unwrap(I, fr, a)
        if not isinstance(a, PArr):
            raise Unsupported('reduction %s of %r' % (kind, a))
        return fr.st.reductions.reduce(fr, kind, a.buf.content, extra)

    def f_sum(self, I, fr, args, kwargs):
        if isinstance(args[0], carr.CArr):
            ax = kwargs.get('axis', args[1] if len(args) > 1 else None)
            if ax is None:
                raise Unsupported('np.sum of a closure array without axis')
            return carr.sum_axis(I, fr, args[0], ax % args[0].ndim, bool(kwargs.get('keepdims', False)))
        if kwargs.get('axis') is not None or len(args) > 1:
            raise Unsupported('np.sum with axis')
        return self._reduce(I, fr, 'sum', args[0])

    def f_max(self, I, fr, args, kwargs):
        if isinstance(args[0], (list, tuple)) and all(isinstance(x, int) for x in args[0]):
            return max(args[0])
        return self._reduce(I, fr, 'max', args[0])

    def f_min(self, I, fr, args, kwargs):
        return self._reduce(I, fr, 'min', args[0])

    def f_any(self, I, fr, args, kwargs):
        if isinstance(args[0], carr.CArr):
            return carr.reduce_bool(I, fr, args[0], 'any')
        if isinstance(args[0], (bool, S)):
            return args[0]
        return self._reduce(I, fr, 'any', args[0])

    def f_all(self, I, fr, args, kwargs):
        if isinstance(args[0], carr.CArr):
            return carr.reduce_bool(I, fr, args[0], 'all')
        if isinstance(args[0], (bool, S)):
            return args[0]
        return self._reduce(I, fr, 'all', args[0])

    def f_dot(self, I, fr, args, kwargs):
        a, b = unwrap(I, fr, args[0]), unwrap(I, fr, args[1])
        if isinstance(a, PArr) and isinstance(b, PArr):
            if a.order_tag is None or b.order_tag is None:
                raise Unsupported('np.dot of unraveled arrays')
            check_aligned(fr, a, b)
            return fr.st.reductions.reduce(fr, 'sum', core.vmul(a.buf.content, b.buf.content))
        raise Unsupported('np.dot')

    def f_vdot(self, I, fr, args, kwargs):
        a, b = unwrap(I, fr, args[0]), unwrap(I, fr, args[1])
        if isinstance(a, PArr) and isinstance(b, PArr):
            check_aligned(fr, a, b)
            if a.order_tag is None and b.order_tag is None:
                pass   # vdot flattens both in C order
            ac = a.buf.content if a.buf.dtype.kind != 'complex' else VPw('conj', (a.buf.content,))
            return fr.st.reductions.reduce(fr, 'sum', core.vmul(ac, b.buf.content))
        raise Unsupported('np.vdot')

    def f_tensordot(self, I, fr, args, kwargs):
        a, b = unwrap(I, fr, args[0]), unwrap(I, fr, args[1])
        axes = args[2] if len(args) > 2 else kwargs.get('axes')
        if isinstance(a, PArr) and isinstance(b, PArr) and isinstance(axes, list) and len(axes) == 2 and axes[0] is not None:
            # full contraction over range(ndim) on both sides
            ok = True
            for ax in axes:
                if not (isinstance(ax, range) and ax.start == 0 and ax.step == 1) and not isinstance(ax, FullAxes):
                    ok = False
            if ok or all(isinstance(ax, FullAxes) for ax in axes):
                check_aligned(fr, a, b)
                return fr.st.reductions.reduce(fr, 'sum', core.vmul(a.buf.content, b.buf.content))
        raise Unsupported('np.tensordot form')

    def f_norm(self, I, fr, args, kwargs):
        a = unwrap(I, fr, args[0])
        p = kwargs.get('ord', args[1] if len(args) > 1 else None)
        if not isinstance(a, PArr):
            raise Unsupported('np.linalg.norm of %r' % (a,))
        if a.order_tag is None:
            raise Unsupported('np.linalg.norm of an unraveled array (matrix norm semantics)')
        return fr.st.reductions.pnorm(fr, a.buf.content, 2 if p is None else p)

    def f_array_equal(self, I, fr, args, kwargs):
        if isinstance(args[0], ListArr) and isinstance(args[1], ListArr):
            if len(args[0].items) != len(args[1].items):
                return False
            return core.s_and(*[core.sbool(core.sc_eq(core.S.lift(x), core.S.lift(y))) for x, y in zip(args[0].items, args[1].items)]) if args[0].items else True
        a, b = unwrap(I, fr, args[0]), unwrap(I, fr, args[1])
        if isinstance(a, PArr) and isinstance(b, PArr):
            check_aligned(fr, a, b)
            return fr.st.reductions.reduce(fr, 'all', VPw('eq', (a.buf.content, b.buf.content)))
        raise Unsupported('np.array_equal')

    def f_isfinite(self, I, fr, args, kwargs):
        a = args[0]
        if isinstance(a, (int, float)):
            import math
            return math.isfinite(a)
        if isinstance(a, S):
            return True     # reals (A1)
        raise Unsupported('np.isfinite of %r' % (a,))

    def f_isnan(self, I, fr, args, kwargs):
        a = args[0]
        if isinstance(a, (int, float)):
            return a != a
        if isinstance(a, S):
            return False
        raise Unsupported('np.isnan of %r' % (a,))

    def f_isclose(self, I, fr, args, kwargs):
        a, b = args[:2]
        if isinstance(a, carr.CArr) or isinstance(b, carr.CArr):
            return carr.ufunc(I, fr, 'eq', [a, b])      # K8: exact equality over the reals
        if I.scalar_kind(a) is not None and I.scalar_kind(b) is not None:
            if getattr(fr.st, 'isclose_with_tolerance', False) and (core.is_sym(a) or core.is_sym(b)):
                # faithful tolerance semantics (used where the property is about exact relations, e.g. equality / hash coherence)
                rtol, atol = kwargs.get('rtol', args[2] if len(args) > 2 else 1e-5), kwargs.get('atol', args[3] if len(args) > 3 else 1e-8)
                a_, b_ = core.S.lift(a), core.S.lift(b)
                return abs(a_ - b_) <= core.S.lift(atol) + core.S.lift(rtol) * abs(b_)
            return core.sc_eq(a, b) if core.is_sym(a) or core.is_sym(b) else abs(a - b) <= 1e-8 + 1e-5 * abs(b)
        raise Unsupported('np.isclose on arrays')

    def f_allclose(self, I, fr, args, kwargs):
        r = self.f_isclose(I, fr, args, kwargs)
        if isinstance(r, carr.CArr):
            return carr.reduce_bool(I, fr, r, 'all')
        return r

    def f_ndim(self, I, fr, args, kwargs):
        a = unwrap(I, fr, args[0])
        if isinstance(a, PArr):
            return a.pv_getattr(I, fr, 'ndim')
        if I.scalar_kind(a) is not None:
            return 0
        raise Unsupported('np.ndim')

    def f_shape(self, I, fr, args, kwargs):
        a = unwrap(I, fr, args[0])
        if isinstance(a, carr.CArr):
            return a.shape
        if isinstance(a, (list, tuple)) and all(I.scalar_kind(x) is not None for x in a):
            return (len(a),)
        if isinstance(a, PArr):
            return a.pv_getattr(I, fr, 'shape')
        if I.scalar_kind(a) is not None:
            return ()
        raise Unsupported('np.shape')

    def f_size(self, I, fr, args, kwargs):
        a = unwrap(I, fr, args[0])
        if isinstance(a, carr.CArr):
            return a.pv_getattr(I, fr, 'size')
        if isinstance(a, (list, tuple)):
            return len(a)
        if isinstance(a, PArr):
            return a.pv_getattr(I, fr, 'size')
        if I.scalar_kind(a) is not None:
            return 1
        raise Unsupported('np.size')

    def f_copy(self, I, fr, args, kwargs):
        a = args[0]
        if isinstance(a, PArr):
            return a._copy(fr)
        if isinstance(a, carr.CArr):
            return carr.materialise(a)
        raise Unsupported('np.copy of %r' % (a,))

    def f_hstack(self, I, fr, args, kwargs):
        return carr.hstack(I, fr, args[0])

    def f_atleast_1d(self, I, fr, args, kwargs):
        a = args[0]
        if isinstance(a, carr.CArr):
            return a
        if I.scalar_kind(a) is not None:
            return carr.list_array([a])
        if isinstance(a, (list, tuple)) and all(I.scalar_kind(x) is not None for x in a):
            return carr.list_array(list(a))
        raise Unsupported('np.atleast_1d of %r' % (a,))

    def f_linspace(self, I, fr, args, kwargs):
        num = args[2] if len(args) > 2 else kwargs.get('num', 50)
        if kwargs.get('endpoint', True) is not True:
            raise Unsupported('np.linspace endpoint=False')
        return carr.linspace(args[0], args[1], num)

    def f_searchsorted(self, I, fr, args, kwargs):
        """K6: side='left' on a strictly increasing array c of length n: the unique k in [0, n] with c[k-1] < v <= c[k].
        Strict monotonicity of c is a precondition that the caller's harness establishes (obligation elsewhere)."""
        c, v = args[0], args[1]
        if isinstance(c, Table) and isinstance(v, PArr):
            # per evaluation point: k with c[k-1] < v <= c[k]  (generic point)
            n = c.shape[0]
            name = fr.st.fresh('ss')
            kv = VVar(name, 'int')
            ki = fr.st.lower(kv)
            x = fr.st.lower(v.buf.content)
            fr.st.assume(s_and(ki >= 0, ki <= S.lift(n)))
            fr.st.assume(S(z3.Implies((ki > 0).t, (c.value([ki - 1]) < x).t)))
            fr.st.assume(S(z3.Implies((ki < S.lift(n)).t, (x <= c.value([ki])).t)))
            fr.st.events.append(('searchsorted', c, ki))
            return new_temp(kv, DT('int64'), v.buf.shape, v.order_tag)
        if not isinstance(c, carr.CArr) or c.ndim != 1 or kwargs.get('side', 'left') != 'left':
            raise Unsupported('np.searchsorted form')
        n = c.shape[0]
        k = S(z3.Int(fr.st.fresh('ss')))
        fr.st.assume(s_and(k >= 0, k <= S.lift(n)))
        fr.st.assume(S(z3.Implies((k > 0).t, (c.at((k - 1,)) < v).t)))
        fr.st.assume(S(z3.Implies((k < S.lift(n)).t, (S.lift(v) <= c.at((k,))).t)))
        fr.st.events.append(('searchsorted', c, k))
        return k

    def f_isinf(self, I, fr, args, kwargs):
        a = args[0]
        if isinstance(a, carr.CArr):
            return carr.const_array(False, a.shape)
        if isinstance(a, S):
            return False
        if isinstance(a, (int, float)):
            return a in (float('inf'), float('-inf'))
        raise Unsupported('np.isinf of %r' % (a,))

    def f_arange(self, I, fr, args, kwargs):
        a = list(args)
        if len(a) == 1:
            a = [0, a[0]]
        if len(a) != 2:
            raise Unsupported('np.arange with step')
        dt = kwargs.get('dtype')
        return carr.arange(a[0], a[1], as_dtype(dt) if dt is not None else None)

    def f_diff(self, I, fr, args, kwargs):
        a = args[0]
        if not isinstance(a, carr.CArr) or kwargs.get('n', 1) != 1:
            raise Unsupported('np.diff form')
        ax = kwargs.get('axis', -1)
        return carr.diff(I, fr, a, ax % a.ndim)

    def f_swapaxes(self, I, fr, args, kwargs):
        a = args[0]
        if isinstance(a, carr.CArr):
            i, j = args[1], args[2]
            nd = a.ndim
            return carr.swapaxes(a, i % nd, j % nd)
        raise Unsupported('np.swapaxes of %r' % (a,))

    def f_errstate(self, I, fr, args, kwargs):
        return NullCM()

    def f_lib(self, I, fr, args, kwargs):
        raise Unsupported('np.lib')


class NullCM(object):
    def pv_enter(self, I, fr):
        return None

    def pv_exit(self, I, fr, exc):
        return None


class FullAxes(object):
    pass


class AbstractDT(object):
    def __init__(self, name):
        self.name = name

    def contains(self, dt):
        return {'floating': dt.kind == 'float', 'complexfloating': dt.kind == 'complex',
                'integer': dt.kind == 'int', 'number': dt.kind in ('int', 'float', 'complex'),
                'inexact': dt.kind in ('float', 'complex')}[self.name]


class Scalar0d(object):
    """np.asarray(scalar)"""

    def __init__(self, v):
        self.v = v

    def pv_getattr(self, I, fr, name):
        if name == 'ndim':
            return 0
        if name == 'shape':
            return ()
        if name == 'size':
            return 1
        if name == 'dtype':
            k = I.scalar_kind(self.v)
            return DT({'real': 'float64', 'int': 'int64', 'complex': 'complex128', 'bool': 'bool'}[k])
        raise Unsupported('0-d array attribute %s' % name)


def core_name(op):
    return {'add': 'add', 'sub': 'sub', 'truediv': 'div', 'pow': 'power'}.get(op, op)


def _pyscalar2(op, a, b):
    import operator
    import math
    if op in ('add', 'sub', 'mul', 'truediv', 'pow', 'lt', 'le', 'gt', 'ge', 'eq', 'ne'):
        return getattr(operator, op)(a, b)
    if op == 'maximum':
        return max(a, b)
    if op == 'minimum':
        return min(a, b)
    raise Unsupported('scalar ufunc %s' % op)


def _pyscalar1(op, a):
    import math
    import cmath
    if op == 'abs':
        return abs(a)
    if op == 'sqrt':
        if isinstance(a, complex):
            return cmath.sqrt(a)
        if a < 0:
            return float('nan')
        return math.sqrt(a)
    if op == 'sign':
        return (a > 0) - (a < 0)
    if op == 'neg':
        return -a
    if op == 'conj':
        return a.conjugate()
    if op == 'real':
        return a.real
    if op == 'imag':
        return a.imag
    if op == 'square':
        return a * a
    if op == 'exp':
        return math.exp(a)
    if op == 'log':
        return math.log(a)
    raise Unsupported('scalar ufunc %s' % op)


def order_flags(shape, order):
    """(c_contiguous, f_contiguous) of a freshly allocated array"""
    if isinstance(shape, SymShape):
        nd1 = shape.ndim == 1
    else:
        nd1 = len(shape) <= 1
    if nd1:
        return True, True
    # for ndim >= 2 both flags hold iff at most one extent exceeds 1; left symbolic via the shape's flag
    both = getattr(shape, 'degenerate', False)
    if order in ('C', None, 'K', 'A'):
        return True, both
    if order == 'F':
        return both, True
    raise Unsupported('order %r' % (order,))


def unwrap(I, fr, x):
    """__array__ protocol: elements passed to numpy functions expose their array"""
    if hasattr(x, 'pv_asarray'):
        return x.pv_asarray(I, fr)
    if isinstance(x, ip.Obj) and isinstance(x.cls, ip.ClassV):
        c, e = x.cls.lookup('__array__')
        if e is not None:
            h = getattr(fr.st, 'unwrap_hook', None)
            if h is not None:
                return h(I, fr, x)
            return I.call(I._getattr(x, '__array__', fr), [], {}, fr)
    return x


# --------------------------------------------------------------------------
# scipy.linalg.blas  (K4)

def blas_module(I):
    def get_blas_funcs(I, fr, args, kwargs):
        names = args[0]
        arrays = kwargs.get('arrays', args[1] if len(args) > 1 else ())
        dtype = kwargs.get('dtype')
        single = isinstance(names, str)
        if single:
            names = [names]
        fr.st.events.append(('blas', tuple(names)))
        fns = [BlasFn(n) for n in names]
        return fns[0] if single else fns
    blas = I.PyModule('scipy.linalg.blas', {'get_blas_funcs': ip.Builtin('get_blas_funcs', get_blas_funcs)})
    linalg = I.PyModule('scipy.linalg', {'blas': blas})
    return I.PyModule('scipy', {'linalg': linalg})


_BLAS_OK = ('float32', 'float64', 'complex64', 'complex128')


class BlasFn(object):
    def __init__(self, which):
        self.which = which

    def _req(self, I, fr, *arrs):
        """K4 preconditions: equal BLAS dtype, 1-d contiguous operands.  Establishing them is an
        obligation of the caller: a violation is recorded as a failed side obligation."""
        for a in arrs:
            if not isinstance(a, PArr):
                raise Unsupported('BLAS operand %r' % (a,))
            if a.buf.dtype.name not in _BLAS_OK or a.buf.dtype != arrs[0].buf.dtype:
                fr.st.events.append(('blas-precondition', 'dtype', a.buf.dtype.name))
            if a.order_tag is None:
                fr.st.events.append(('blas-precondition', 'operand is not a raveled contiguous view', a.buf.name))
        check_aligned(fr, *arrs)

    def pv_call(self, I, fr, args, kwargs):
        w = self.which
        if w == 'axpy':      # y := a*x + y
            x, y = args[0], args[1]
            n = args[2] if len(args) > 2 else kwargs.get('n')
            a = args[3] if len(args) > 3 else kwargs.get('a', 1.0)
            self._req(I, fr, x, y)
            write(I, fr, y, VLin([(a, x.buf.content), (1, y.buf.content)]))
            return y
        if w == 'scal':      # x := a*x
            a, x = args[0], args[1]
            self._req(I, fr, x)
            write(I, fr, x, VLin([(a, x.buf.content)]))
            return x
        if w == 'copy':      # y := x
            x, y = args[0], args[1]
            self._req(I, fr, x, y)
            write(I, fr, y, x.buf.content)
            return y
        if w == 'nrm2':
            x = args[0]
            self._req(I, fr, x)
            return fr.st.reductions.pnorm(fr, x.buf.content, 2)
        if w in ('dot', 'dotu'):
            x, y = args[0], args[1]
            self._req(I, fr, x, y)
            return fr.st.reductions.reduce(fr, 'sum', core.vmul(x.buf.content, y.buf.content))
        if w == 'dotc':
            x, y = args[0], args[1]
            self._req(I, fr, x, y)
            return fr.st.reductions.reduce(fr, 'sum', core.vmul(VPw('conj', (x.buf.content,)), y.buf.content))
        raise Unsupported('BLAS function %s' % w)


def install(I):
    I.ext_modules['numpy'] = NpModule(I)
    I.ext_modules['scipy'] = blas_module(I)
