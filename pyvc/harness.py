"""Units, obligations, parallel execution, known findings, evidence.

A *unit* is one function under contract in one configuration (dtype, alias pattern, option
set ...).  Running a unit symbolically executes the real source on every feasible path and
emits *obligations* (name, verdict).  Units run in a process pool; results are plain dicts.
"""
import hashlib
import json
import multiprocessing
import os
import sys
import time
import traceback

import z3

from . import core, vc
from . import interp as ip
from .core import Unsupported, EngineError

_INTERP = None
CROSSCHECK = bool(os.environ.get('PYVC_CROSSCHECK'))
XCHECK_PER_UNIT = int(os.environ.get('PYVC_XCHECK_PER_UNIT', '6'))
REPLAYER = None         # set by main: the property module's native replay function


def _pstr(p):
    """printable path-condition conjunct: z3's Python pretty-printer is very slow on large terms, the s-expression printer is not"""
    try:
        sx = p.sexpr()
    except Exception:
        return str(p)
    if len(sx) < 400 and '(let ' not in sx:
        return str(p)
    return sx[:1500] + (' ...[%d chars]' % len(sx) if len(sx) > 1500 else '')


def S_or(xs):
    return core.s_or(*xs)


def get_interp():
    global _INTERP
    if _INTERP is None:
        from . import odlmodel
        _INTERP = odlmodel.new_interp()
    return _INTERP


class Unit(object):
    """name: unique id; func: qualified names of the code under contract (for the evidence);
    run(ctx): generates obligations; kind: 'D' (deductive) | 'B' (bounded monitor) | 'canary'"""

    def __init__(self, name, run, funcs=(), kind='D', config=None, bounded_in=None, expect=None):
        self.name, self.run, self.funcs, self.kind = name, run, tuple(funcs), kind
        self.config = config or {}
        self.bounded_in = bounded_in
        self.expect = expect      # for canaries: 'refuted'


class Ctx(object):
    def __init__(self, unit):
        self.unit = unit
        self.I = get_interp()
        self.obls = []
        self.paths = 0
        self.notes = []
        self.evals = 0          # bounded units: evaluations
        self.distinct = set()
        self.xchecks = 0
        self.xresults = []

    def explore(self, path, **kw):
        """paths of path(st), counted"""
        for st, out in ip.explore(path, **kw):
            if core.side_conditions() and st._full().check() == z3.unsat:
                continue        # infeasible once the defining side conditions of quotient / sqrt symbols are added
            self.paths += 1
            yield st, out

    # ---- deductive obligations
    def prove(self, st, name, goal, info=None, replay=None):
        """obligation  pc(st) /\\ side(st) ==> goal"""
        side = core.side_conditions()      # live: belongs to the path being processed (see interp.explore)
        try:
            v = vc.prove(st.pc, side, goal)
        except z3.Z3Exception as e:
            v = vc.Verdict('undecided', backend='z3', note='z3 error: %s' % e)
        ok = self.record(st, name, v, info, replay)
        if ok and CROSSCHECK and REPLAYER is not None and self.xchecks < XCHECK_PER_UNIT:
            self.crosscheck(st, side)
        return ok

    def crosscheck(self, st, side):
        """engine vs CPython: draw concrete values satisfying this path's condition, build the native objects and
        run the real function; the contract just *proved* on this path must hold natively, otherwise the
        interpreter or a kernel contract misrepresents Python / NumPy (checker failure, exit 3)"""
        ob = dict(self.obls[-1])
        s = core.mk_solver(3000)
        s.add(*st.pc)
        s.add(*side)
        if s.check() != z3.sat:
            return
        self.xchecks += 1
        ob['model'] = vc.model_dict(s.model())
        ob['config'] = self.unit.config
        try:
            nat = REPLAYER(ob)
        except Exception as e:
            nat = {'reproduced': False, 'detail': 'replay harness error %r' % (e,), 'error': True}
        if nat is None or 'no native concretisation' in str(nat.get('detail', '')):
            self.xchecks -= 1
            return
        self.xresults.append({'obligation': ob['id'], 'model': ob['model'], 'native': nat})

    def cover(self, st, name):
        """vacuity guard: the hypotheses of the obligations that follow must be satisfiable together with the path condition"""
        s = core.mk_solver(4000)
        s.add(*st.pc)
        s.add(*core.side_conditions())
        r = s.check()
        if r == z3.unsat:
            self.unsupported(name, 'hypotheses are contradictory: the obligations proved under them would be vacuous')
            return False
        return True

    def prove_lemma(self, name, hyps, goal, info=None):
        """closed arithmetic lemma  /\\ hyps ==> goal  over its own symbols (no path condition): used to split a hard obligation
        into code-dependent identities plus a small abstract inequality"""
        try:
            v = vc.prove([core.sbool(h).t for h in hyps], [], goal)
        except z3.Z3Exception as e:
            v = vc.Verdict('undecided', backend='z3', note='z3 error: %s' % e)

        class _St(object):
            pc = [core.sbool(h).t for h in hyps]
        return self.record(_St, name, v, info, None)

    def prove_cases(self, st, name, goal, cases, info=None, replay=None):
        """goal proved separately under each of the (jointly exhaustive) case conditions; exhaustiveness is an
        obligation of its own.  Keeps the nonlinear / If-heavy queries small."""
        from .core import sbool
        ok = self.prove(st, name + ' [cases exhaustive]', S_or([sbool(c) for c in cases]), info, replay)
        for i, c in enumerate(cases):
            st.pc.append(sbool(c).t)
            try:
                ok = self.prove(st, '%s [case %d]' % (name, i), goal, info, replay) and ok
            finally:
                st.pc.pop()
        return ok

    def record(self, st, name, v, info=None, replay=None):
        pcs = [_pstr(p) for p in (st.pc if st is not None else [])]
        ob = {
            'unit': self.unit.name, 'name': name, 'status': v.status, 'backend': v.backend,
            'secs': round(v.secs, 4), 'pc': pcs, 'note': v.note,
            'model': vc.model_dict(v.model) if v.status == 'refuted' else None,
            'info': info or {}, 'replay': replay,
        }
        ob['id'] = '%s::%s::%s' % (self.unit.name, name, hashlib.sha1(('|'.join(pcs) + json.dumps(info or {}, sort_keys=True, default=str)).encode()).hexdigest()[:8])
        self.obls.append(ob)
        return v.status == 'proved'

    def fail(self, st, name, why, info=None, model=None, replay=None):
        """an obligation that is violated on a feasible path (e.g. exception where none is allowed)"""
        side = core.side_conditions()
        s = core.mk_solver(8000)
        s.add(*st.pc)
        s.add(*side)
        r = s.check()
        if r == z3.unsat:
            v = vc.Verdict('proved', backend='z3', note='path infeasible')
        elif r == z3.sat:
            v = vc.Verdict('refuted', model=s.model(), backend='z3', note=why)
        else:
            # the plain solver could not decide feasibility: try to prove the path infeasible with the full pipeline (tactics, normal forms, cvc5)
            try:
                v2 = vc.prove(st.pc, side, core.sbool(False))
            except z3.Z3Exception:
                v2 = None
            if v2 is not None and v2.status == 'proved':
                v = vc.Verdict('proved', backend=v2.backend, note='path infeasible')
            else:
                v = vc.Verdict('undecided', backend='z3', note='feasibility of failing path unknown: ' + why)
        return self.record(st, name, v, dict(info or {}, why=why), replay)

    def unsupported(self, name, why):
        self.obls.append({'unit': self.unit.name, 'name': name, 'status': 'unsupported', 'backend': None, 'secs': 0,
                          'pc': [], 'note': str(why), 'model': None, 'info': {}, 'replay': None,
                          'id': '%s::%s' % (self.unit.name, name)})

    # ---- bounded (run-time contract monitor) results
    def bounded(self, name, ok, case, detail=None, nontrivial=True):
        self.evals += 1
        if nontrivial:
            self.distinct.add(json.dumps(case, sort_keys=True, default=str))
        if not ok:
            self.obls.append({'unit': self.unit.name, 'name': name, 'status': 'refuted', 'backend': 'native-run',
                              'secs': 0, 'pc': [], 'note': str(detail), 'model': case, 'info': {'bounded': True},
                              'replay': {'kind': 'native-case', 'case': case},
                              'id': '%s::%s::%s' % (self.unit.name, name, hashlib.sha1(json.dumps(case, sort_keys=True, default=str).encode()).hexdigest()[:8])})


def run_unit(unit):
    t0 = time.time()
    ctx = Ctx(unit)
    vc.STATS.update({k: 0 if isinstance(v, int) else 0.0 for k, v in vc.STATS.items()})
    err = None
    import signal

    class _UnitTimeout(Exception):
        pass

    timed_out = [False]

    def _alarm(signum, frame):
        timed_out[0] = True
        raise _UnitTimeout()
    limit = int(os.environ.get('PYVC_UNIT_TIMEOUT', getattr(unit, 'timeout', 900)))
    try:
        signal.signal(signal.SIGALRM, _alarm)
        signal.alarm(limit)
    except Exception:
        pass
    try:
        unit.run(ctx)
    except _UnitTimeout:
        ctx.unsupported('unit', 'unit exceeded its time limit of %d s (undecided, not a violation)' % limit)
    except Unsupported as e:
        ctx.unsupported('unit', 'unsupported: %s' % e)
    except ip.PyRaise as e:
        ctx.unsupported('unit', 'uncaught interpreted exception %r %r' % (e.exc, getattr(e.exc, 'fields', {}).get('args')))
    except EngineError as e:
        if 'path enumeration exceeded' in str(e):
            ctx.unsupported('unit', 'undecided: %s' % e)
        else:
            err = traceback.format_exc()
    except Exception as e:
        if timed_out[0]:
            # the alarm fired inside a native (z3 / ctypes) call and surfaced as another exception type
            ctx.unsupported('unit', 'unit exceeded its time limit of %d s (undecided, not a violation)' % limit)
        else:
            err = traceback.format_exc()
    finally:
        try:
            signal.alarm(0)
        except Exception:
            pass
    I = ctx.I
    touched = {}
    from .source import node_hash
    for qn, node in list(I.touched.items()):
        touched[qn] = node_hash(node)
    I.touched.clear()
    return {
        'unit': unit.name, 'kind': unit.kind, 'funcs': list(unit.funcs), 'config': unit.config,
        'bounded_in': unit.bounded_in, 'expect': unit.expect,
        'obligations': ctx.obls, 'paths': ctx.paths, 'secs': round(time.time() - t0, 3), 'error': err,
        'stats': dict(vc.STATS), 'touched': touched, 'evals': ctx.evals, 'distinct': len(ctx.distinct),
        'notes': ctx.notes, 'crosschecks': ctx.xresults,
    }


_UNITS = None


def _worker(i):
    return run_unit(_UNITS[i])


def run_units(units, jobs=None):
    global _UNITS
    _UNITS = units
    jobs = jobs or min(16, os.cpu_count() or 4)
    if jobs <= 1 or len(units) <= 1:
        return [run_unit(u) for u in units]
    ctx = multiprocessing.get_context('fork')
    get_interp()            # created in the parent so that every forked unit inherits it
    with ctx.Pool(jobs, maxtasksperchild=1) as pool:        # a fresh fork per unit: no z3 / cache state carried from one unit to the next
        order = sorted(range(len(units)), key=lambda i: -getattr(units[i], 'weight', 1))
        res = pool.map(_worker, order, chunksize=1)
    out = [None] * len(units)
    for i, r in zip(order, res):
        out[i] = r
    return out
