"""Discharging verification conditions.

prove(pc, side, goal) decides  pc /\\ side ==> goal  with, in order,
  1. z3 (side conditions whose guard is entailed by pc are asserted unguarded; conjunctive goals
     are split),
  2. a polynomial normal-form procedure (sympy) for rational-function identities over the
     quotient / square-root symbols introduced by core.py,
  3. cvc5 on the SMT-LIB text of the query.
Verdicts: 'proved', 'refuted' (with model), 'undecided'.
"""
import subprocess
import time

import z3

from . import core
from .core import S, C, sbool

Z3_FIRST = 1500
Z3_TIMEOUT = 8000
CVC5_TIMEOUT = 20

STATS = {'z3': 0, 'sympy': 0, 'cvc5': 0, 'z3_s': 0.0, 'sympy_s': 0.0, 'cvc5_s': 0.0, 'queries': 0}


class Verdict(object):
    def __init__(self, status, model=None, backend=None, secs=0.0, note=''):
        self.status, self.model, self.backend, self.secs, self.note = status, model, backend, secs, note

    def __repr__(self):
        return '<%s by %s %.3fs %s>' % (self.status, self.backend, self.secs, self.note)


def _t(x):
    return sbool(x).t if not z3.is_expr(x) else x


def strengthen_side(pc, side):
    """side conditions Implies(guard, body) with pc (and the bodies already released) |= guard become plain `body`;
    iterated to a fixpoint (1/(1/s): the inner quotient is non-zero because of its own defining equation)"""
    key = (tuple(p.get_id() for p in pc), tuple(x.get_id() for x in side))
    hit = _STRENGTHEN_CACHE.get(key)
    if hit is not None:
        return list(hit[0])
    res = _strengthen_side(pc, side)
    if len(_STRENGTHEN_CACHE) > 64:
        _STRENGTHEN_CACHE.clear()
    _STRENGTHEN_CACHE[key] = (res, list(pc), list(side))      # the terms are kept alive so that their ids stay unique
    return list(res)


_STRENGTHEN_CACHE = {}


def _strengthen_side(pc, side):
    pending = list(side)
    out = []
    s = core.mk_solver(1500)
    s.add(*pc)
    progress = True
    while progress and pending:
        progress = False
        rest = []
        for sc in pending:
            if z3.is_implies(sc):
                g, body = sc.arg(0), sc.arg(1)
                if s.check(z3.Not(g)) == z3.unsat:
                    out.append(body)
                    s.add(body)
                    progress = True
                    continue
                rest.append(sc)
            else:
                out.append(sc)
                s.add(sc)
        pending = rest
    return out + pending


def split_goal(goal):
    if z3.is_and(goal):
        r = []
        for c in goal.children():
            r.extend(split_goal(c))
        return r
    return [goal]


def prove(pc, side, goal, want_model=True, quick=False):
    """returns Verdict.  quick: short budgets (used for semantic atom merging, where `undecided` is harmless)"""
    goal = _t(goal)
    pc = [_t(p) for p in pc]
    t0 = time.time()
    STATS['queries'] += 1
    sg = z3.simplify(goal)
    if z3.is_true(sg):
        return Verdict('proved', backend='trivial', secs=time.time() - t0)
    side2 = strengthen_side(pc, side)
    parts = split_goal(sg)
    worst = None
    for g in parts:
        v = _prove1(pc, side2, g, quick)
        if v.status == 'refuted':
            v.secs = time.time() - t0
            return v
        if v.status == 'undecided':
            worst = v
    if worst is not None:
        worst.secs = time.time() - t0
        return worst
    return Verdict('proved', backend=v.backend if parts else 'trivial', secs=time.time() - t0)


def tactic_unsat(pc, side, goal, ms, tactics):
    t0 = time.time()
    try:
        t = z3.TryFor(z3.Then(*tactics), int(ms * core.BUDGET_FACTOR))
        s = t.solver()
        s.add(*pc)
        s.add(*side)
        s.add(z3.Not(goal))
        r = s.check()
    except z3.Z3Exception:
        r = z3.unknown
    STATS['z3'] += 1
    STATS['z3_s'] += time.time() - t0
    return r == z3.unsat


def _prove1(pc, side, goal, quick=False):
    if z3.is_true(goal):
        return Verdict('proved', backend='trivial')
    s = None
    for budget in ((600, ) if quick else (Z3_FIRST, Z3_TIMEOUT)):
        t0 = time.time()
        s = core.mk_solver(budget)
        s.add(*pc)
        s.add(*side)
        s.add(z3.Not(goal))
        r = s.check()
        STATS['z3'] += 1
        STATS['z3_s'] += time.time() - t0
        if r == z3.unsat:
            return Verdict('proved', backend='z3')
        if r == z3.sat:
            return Verdict('refuted', model=s.model(), backend='z3')
        if budget in (Z3_FIRST, 600):
            # 1a. polynomial normal form first when it applies (cheap, and for polynomial identities the tactic stage below only burns its budgets)
            t1 = time.time()
            try:
                ok0 = poly_identity(pc, side, goal)
            except Exception:
                ok0 = False
            STATS['sympy_s'] += time.time() - t1
            if ok0:
                STATS['sympy'] += 1
                return Verdict('proved', backend='sympy-normal-form')
            # 1b. the same query through z3's nonlinear-real tactic pipeline (equation solving first, then nlsat): decides at once many
            # queries on which the default solver's performance depends on incidental term order; only `unsat` is taken from it
            for tac in (('simplify', 'propagate-values', 'solve-eqs', 'qfnra-nlsat'), ('simplify', 'solve-eqs', 'smt')):
                if tactic_unsat(pc, side, goal, 800 if quick else 2500, tac):
                    return Verdict('proved', backend='z3')
                if quick:
                    break
            # 2. polynomial normal form (between the short and the long z3 attempt)
            t1 = time.time()
            try:
                ok = poly_identity(pc, side, goal)
            except Exception as e:  # translation outside the fragment
                ok = False
            if not ok and not quick:
                try:
                    g1, subs = implied_equalities(pc, goal)
                    g2 = elim_ite(pc, side, g1)
                    # the defining equations of quotient / sqrt symbols are normalised the same way, so that equal
                    # ratios written differently get the same polynomial normal form
                    side_n = []
                    for sc in side:
                        t = sc
                        for v_, t_ in subs:
                            t = z3.substitute(t, (v_, t_))
                        side_n.append(elim_ite(pc, [], t))
                    if z3.is_true(g2):
                        ok = True
                    elif not z3.eq(g2, goal) or side_n:
                        try:
                            ok = poly_identity(pc, side_n, g2)
                        except Exception:
                            ok = False
                        if not ok:
                            # the simplified (If-free / substituted) goal is often within z3's reach
                            s3 = core.mk_solver(3000)
                            s3.add(*pc)
                            s3.add(*side)
                            s3.add(z3.Not(g2))
                            ok = s3.check() == z3.unsat
                except Exception as e:
                    ok = False
            STATS['sympy'] += 1
            STATS['sympy_s'] += time.time() - t1
            if ok:
                return Verdict('proved', backend='sympy-normal-form')
    if quick:
        return Verdict('undecided', backend='z3+sympy', note='quick mode')
    # 3. cvc5
    t2 = time.time()
    r2 = cvc5_check(pc, side, goal)
    STATS['cvc5'] += 1
    STATS['cvc5_s'] += time.time() - t2
    if r2 == 'unsat':
        return Verdict('proved', backend='cvc5')
    return Verdict('undecided', backend='z3+sympy+cvc5', note='z3: %s' % s.reason_unknown())


def elim_ite(pc, side, term, budget=400):
    """replace every If(c, a, b) whose condition is decided by pc (and side) by the live branch"""
    s = core.mk_solver(1000)
    s.add(*pc)
    s.add(*side)
    cache = {}
    count = [0]

    def go(t):
        k = t.get_id()
        if k in cache:
            return cache[k]
        if z3.is_app(t) and t.decl().kind() == z3.Z3_OP_ITE:
            c = go(t.arg(0))
            r = None
            if z3.is_true(c):
                r = go(t.arg(1))
            elif z3.is_false(c):
                r = go(t.arg(2))
            elif count[0] < budget:
                count[0] += 1
                if s.check(z3.Not(c)) == z3.unsat:
                    r = go(t.arg(1))
                elif s.check(c) == z3.unsat:
                    r = go(t.arg(2))
                else:
                    a1, a2 = go(t.arg(1)), go(t.arg(2))
                    if not z3.is_bool(a1):
                        # the conditional equals one of its branches under the path condition (max(0, off) with off >= 0)
                        if s.check(z3.And(c, a1 != a2)) == z3.unsat:
                            r = a2
                        elif s.check(z3.And(z3.Not(c), a1 != a2)) == z3.unsat:
                            r = a1
            if r is None:
                r = z3.If(c, go(t.arg(1)), go(t.arg(2)))
        elif z3.is_app(t) and t.num_args() > 0:
            ch = [go(a) for a in t.children()]
            try:
                r = t.decl()(*ch)
            except z3.Z3Exception:
                r = t
        else:
            r = t
        cache[k] = r
        return r
    return z3.simplify(go(term))


def implied_equalities(pc, goal):
    """integer constants of the goal that the path condition pins to a linear term (v >= t and v <= t): substituted"""
    s = core.mk_solver(1000)
    s.add(*pc)
    consts = {}

    def collect(t):
        if z3.is_const(t) and t.decl().kind() == z3.Z3_OP_UNINTERPRETED and z3.is_int(t):
            consts[t.decl().name()] = t
        for c in t.children():
            collect(c)
    collect(goal)
    subs = []
    gone = set()
    for name, v in sorted(consts.items()):
        cands = []
        for p in pc:
            q = p
            neg = False
            if z3.is_not(q):
                q, neg = q.arg(0), True
            if not z3.is_app(q) or q.num_args() != 2:
                continue
            k = q.decl().kind()
            if k not in (z3.Z3_OP_LE, z3.Z3_OP_GE, z3.Z3_OP_LT, z3.Z3_OP_GT, z3.Z3_OP_EQ):
                continue
            a, b = q.arg(0), q.arg(1)
            if not z3.is_int(a):
                continue
            for x, y in ((a, b), (b, a)):
                if z3.eq(x, v):
                    for d in (0, 1, -1):
                        cands.append(y + d if d else y)
        seen = set()
        for t in cands:
            t = z3.simplify(t)
            if t.get_id() in seen or z3.eq(t, v):
                continue
            seen.add(t.get_id())
            # the candidate must not mention v itself nor a constant that was already eliminated (no cycles)
            names = [d.name() for d in _consts_of(t)]
            if name in names or any(n in gone for n in names):
                continue
            if s.check(v != t) == z3.unsat:
                subs.append((v, t))
                gone.add(name)
                break
    # difference relations v == u + c (or v == c) suggested by one model of the path condition
    if s.check() == z3.sat:
        m = s.model()
        names = sorted(consts)
        for name in names:
            if name in gone:
                continue
            v = consts[name]
            mv = m.eval(v, model_completion=True)
            if not z3.is_int_value(mv):
                continue
            found = None
            for other in [None] + [n for n in names if n != name and n not in gone]:
                if other is None:
                    t = z3.IntVal(mv.as_long())
                else:
                    mu = m.eval(consts[other], model_completion=True)
                    if not z3.is_int_value(mu):
                        continue
                    t = consts[other] + (mv.as_long() - mu.as_long())
                if s.check(v != t) == z3.unsat:
                    found = z3.simplify(t)
                    break
            if found is not None:
                subs.append((v, found))
                gone.add(name)
    if not subs:
        return goal, []
    g = goal
    for v, t in subs:
        g = z3.substitute(g, (v, t))
    return z3.simplify(g), subs


def _consts_of(t, acc=None):
    acc = [] if acc is None else acc
    if z3.is_const(t) and t.decl().kind() == z3.Z3_OP_UNINTERPRETED:
        acc.append(t.decl())
    for c in t.children():
        _consts_of(c, acc)
    return acc


def cvc5_check(pc, side, goal):
    s = z3.Solver()
    s.add(*pc)
    s.add(*side)
    s.add(z3.Not(goal))
    txt = '(set-logic ALL)\n' + s.to_smt2()
    try:
        p = subprocess.run(['/usr/bin/cvc5', '--lang=smt2', '--nl-ext-tplanes', '--tlimit=%d' % (CVC5_TIMEOUT * 1000)],
                           input=txt, capture_output=True, text=True, timeout=CVC5_TIMEOUT + 5)
        out = p.stdout.strip().splitlines()
        return out[0] if out else 'unknown'
    except Exception:
        return 'unknown'


# --------------------------------------------------------------------------
# polynomial identities

def poly_identity(pc, side, goal):
    """Sound, incomplete: goal must be an equality l == r of polynomial terms over reals.
    Symbols defined by side conditions  q*b == a  (quotients) are eliminated as a/b when pc |= b != 0;
    pc equalities `x == t` (x a constant) are used as substitutions.  Proved iff the numerator of
    l - r expands to the zero polynomial."""
    import sympy
    if not z3.is_eq(goal):
        return False
    l, r = goal.arg(0), goal.arg(1)
    if z3.is_bool(l):
        return False
    syms = {}
    apps = {}

    def tr(t):
        if z3.is_rational_value(t):
            return sympy.Rational(t.numerator_as_long(), t.denominator_as_long())
        if z3.is_int_value(t):
            return sympy.Integer(t.as_long())
        if z3.is_const(t) and t.decl().kind() == z3.Z3_OP_UNINTERPRETED:
            n = t.decl().name()
            if n not in syms:
                syms[n] = sympy.Symbol(n.replace('!', '_').replace('.', '_'), real=True)
            return syms[n]
        if z3.is_app(t) and t.decl().kind() == z3.Z3_OP_UNINTERPRETED:
            # application of an uninterpreted function (array contents at an index): an opaque atom keyed by the
            # simplified term (sound: syntactically different index terms give different atoms, which can only lose proofs)
            n = 'uf:' + z3.simplify(t).sexpr()
            if n not in syms:
                syms[n] = sympy.Symbol('uf_%d' % len(syms), real=True)
                apps[n] = t
            return syms[n]
        k = t.decl().kind()
        ch = [tr(c) for c in t.children()]
        if k == z3.Z3_OP_ADD:
            return sympy.Add(*ch)
        if k == z3.Z3_OP_MUL:
            return sympy.Mul(*ch)
        if k == z3.Z3_OP_SUB:
            res = ch[0]
            for c in ch[1:]:
                res = res - c
            return res
        if k == z3.Z3_OP_UMINUS:
            return -ch[0]
        if k == z3.Z3_OP_DIV:
            return ch[0] / ch[1]
        if k == z3.Z3_OP_TO_REAL:
            return ch[0]
        if k == z3.Z3_OP_POWER and ch[1].is_Integer:
            return ch[0] ** ch[1]
        raise ValueError('outside polynomial fragment: %s' % t.decl().name())

    expr = tr(l) - tr(r)
    # substitutions from defining side conditions
    subs = {}
    chk = core.mk_solver(2000)
    chk.add(*pc)
    eqs = []
    for sc in side:
        for e in split_goal(sc):
            if z3.is_eq(e) and not z3.is_bool(e.arg(0)):
                eqs.append(e)
    for p in pc:
        if z3.is_eq(p) and not z3.is_bool(p.arg(0)):
            eqs.append(p)
    seqs = []
    for e in eqs:
        try:
            seqs.append(sympy.expand(tr(e.arg(0)) - tr(e.arg(1))))
        except ValueError:
            continue
    # solve the (small) polynomial system for quotient symbols / simple constants
    unknowns = [v for n, v in syms.items() if n.startswith('quot!') or n.startswith('cquot!')]
    if unknowns:
        lin = [q for q in seqs if any(q.has(u) for u in unknowns)]
        try:
            sol = sympy.solve(lin, unknowns, dict=True)
        except Exception:
            sol = []
        if len(sol) == 1:
            subs.update(sol[0])
    for q in seqs:
        if any(q.has(u) for u in unknowns):
            continue
        fs = sorted(q.free_symbols, key=str)
        for v in fs:
            if v in subs:
                continue
            if sympy.degree(q, v) == 1:
                c = q.coeff(v, 1)
                if c.is_number and c != 0:
                    subs[v] = sympy.expand(-(q - c * v) / c)
                    break
    for _ in range(4):
        expr = expr.subs(subs)
    num, den = sympy.fraction(sympy.cancel(sympy.together(expr)))
    if sympy.expand(num) != 0:
        return False
    # denominators must be non-zero under pc: each factor of den
    if den.is_number:
        return den != 0
    inv = {str(v): n for n, v in syms.items()}
    for fac, _ in sympy.factor_list(den)[1]:
        zt = _to_z3(fac, syms)
        if zt is None:
            return False
        if chk.check(zt == 0) != z3.unsat:
            # sums of squares: a^2 + b^2 != 0  <=  a != 0 or b != 0
            if not _sum_sq_nonzero(fac, syms, chk):
                return False
    return True


def _to_z3(e, syms):
    import sympy
    names = {v: z3.Real(n) for n, v in syms.items()}

    def go(x):
        if x.is_Rational:
            return z3.RealVal('%d/%d' % (x.p, x.q))
        if x.is_Symbol:
            return names[x]
        if x.is_Add:
            return z3.Sum([go(a) for a in x.args])
        if x.is_Mul:
            return z3.Product([go(a) for a in x.args])
        if x.is_Pow and x.exp.is_Integer and x.exp > 0:
            return z3.Product([go(x.base)] * int(x.exp))
        raise ValueError(x)
    try:
        return go(e)
    except ValueError:
        return None


def _sum_sq_nonzero(fac, syms, chk):
    import sympy
    terms = sympy.Add.make_args(sympy.expand(fac))
    bases = []
    for t in terms:
        c, rest = t.as_coeff_Mul()
        if c <= 0 or not (rest.is_Pow and rest.exp == 2 and rest.base.is_Symbol):
            return False
        bases.append(rest.base)
    zs = [_to_z3(b, syms) for b in bases]
    return chk.check(z3.And(*[z == 0 for z in zs])) == z3.unsat


def model_dict(m):
    """z3 model as {name: python value}"""
    out = {}
    if m is None:
        return out
    for d in m.decls():
        if d.arity() != 0:
            continue
        v = m[d]
        if z3.is_int_value(v):
            out[d.name()] = v.as_long()
        elif z3.is_rational_value(v):
            out[d.name()] = float(v.numerator_as_long()) / float(v.denominator_as_long())
        elif z3.is_true(v):
            out[d.name()] = True
        elif z3.is_false(v):
            out[d.name()] = False
        elif z3.is_algebraic_value(v):
            out[d.name()] = float(v.approx(20).numerator_as_long()) / float(v.approx(20).denominator_as_long())
        else:
            out[d.name()] = str(v)
    return out
