"""Builders for symbolic ODL object graphs (instances of the *real* classes read from source,
with symbolic fields), used by the contract harnesses."""
import z3

from . import core
from .core import S, C, VVar, VFresh, VConst
from . import interp as ip
from . import npmodel as npm


def new_interp():
    I = ip.Interp()
    npm.install(I)
    return I


def field_obj(I, kind):
    cls = I.get_class('odl.set.sets:' + {'real': 'RealNumbers', 'complex': 'ComplexNumbers', 'int': 'Integers'}[kind])
    return ip.Obj(cls)


def sym_scalar(name, kind):
    if kind == 'int':
        return S(z3.Int(name))
    if kind == 'real':
        return S(z3.Real(name))
    if kind == 'complex':
        return C(S(z3.Real(name + '.re')), S(z3.Real(name + '.im')))
    raise ValueError(kind)


class TensorSpaceBuilder(object):
    """NumpyTensorSpace instance with symbolic size (ndim abstract), concrete dtype."""

    def __init__(self, I, dtype='float64', name='X', weighting=None, exponent=2.0, ndim=None):
        self.I = I
        self.dtype = npm.DT(dtype)
        self.size = S(z3.Int(name + '.size'))
        self.shape = npm.SymShape(self.size, ndim)
        cls = I.get_class('odl.space.npy_tensors:NumpyTensorSpace')
        sp = ip.Obj(cls)
        f = sp.fields
        f['_TensorSpace__shape'] = self.shape
        f['_TensorSpace__dtype'] = self.dtype
        kind = self.dtype.kind
        f['_LinearSpace__field'] = field_obj(I, 'complex' if kind == 'complex' else 'real') if kind in ('float', 'complex', 'int') else None
        f['_NumpyTensorSpace__weighting'] = weighting
        self.space = sp
        self.name = name
        self.constraints = [self.size >= 0]

    def element(self, name, layout='sym', content=None):
        """NumpyTensor with free content `name`; layout: 'sym' (free contiguity flags), 'C', 'F', 'both', 'none'"""
        I = self.I
        cls = I.get_class('odl.space.npy_tensors:NumpyTensor')
        x = ip.Obj(cls)
        if layout == 'sym':
            cc, fc = S(z3.Bool(name + '.c_contig')), S(z3.Bool(name + '.f_contig'))
        else:
            cc, fc = {'C': (True, False), 'F': (False, True), 'both': (True, True), 'none': (False, False)}[layout]
        fld = 'complex' if self.dtype.kind == 'complex' else 'real'
        buf = npm.Buf(content if content is not None else VVar(name, fld), self.dtype, self.shape, cc, fc, name=name)
        x.fields['_NumpyTensor__data'] = npm.PArr(buf)
        x.fields['_LinearSpaceElement__space'] = self.space
        x.buf = buf
        return x


def elem_buf(x):
    """the Buf holding the content of an element built here"""
    return x.buf
