"""Reduction records (K5): sums / maxima / p-norms over the index set of a pointwise term.

A reduction of a summand term is represented by a fresh scalar symbol; two reductions of the
same kind are the same symbol when their summands are provably equal at the generic index
(congruence).  Linearity etc. is instantiated on demand by the property contracts through
`facts()`.
"""
import z3

from . import core
from .core import S, C, V, Lower, Unsupported, sbool


class Record(object):
    def __init__(self, kind, summand, extra, sym, low):
        self.kind, self.summand, self.extra, self.sym, self.low = kind, summand, extra, sym, low


class Reductions(object):
    def __init__(self, st):
        self.st = st
        self.records = []
        self.lower = None

    def _lower(self):
        # one Lower per path so that atoms are shared between all records and all obligations
        return self.st.lower

    def _equal(self, a, b):
        goal = z3.simplify(core.sc_eq(a, b).t)
        if z3.is_true(goal):
            return True
        if z3.is_false(goal):
            return False
        from . import vc
        return vc.prove(list(self.st.pc), core.side_conditions(congruence=True), goal, quick=True).status == 'proved'

    def reduce(self, fr, kind, summand, extra=()):
        low = self._lower()
        if kind == 'sum' and not extra:
            # linearity of sums: SUM(sum_k c_k a_k) = sum_k c_k SUM(a_k) over the linear form of the summand
            terms = low.linform(summand)
            if not (len(terms) == 1 and terms[0][1] is summand):
                acc = None
                for c, a in terms:
                    t = core._sc(c) * self._reduce1(fr, kind, a, extra)
                    acc = t if acc is None else acc + t
                if acc is None:
                    return S.lift(0.0)
                # monotonicity for the un-expanded summand (e.g. w * (x - y)^2 >= 0)
                ls = low(summand)
                chk = core.mk_solver(800)
                chk.add(*self.st.pc)
                chk.add(*core.side_conditions())
                if isinstance(ls, S) and not ls.is_bool and chk.check((ls < 0).t) == z3.unsat:
                    self.st.assume(acc >= 0)
                elif isinstance(ls, C):
                    if chk.check((ls.re < 0).t) == z3.unsat:
                        self.st.assume(core._sc(acc).real >= 0)
                    if chk.check((ls.im != 0).t) == z3.unsat:
                        self.st.assume(core.sc_eq(core._sc(acc).imag, 0))
                return acc
        return self._reduce1(fr, kind, summand, extra)

    def _reduce1(self, fr, kind, summand, extra=()):
        low = self._lower()
        ls = low(summand)
        for r in self.records:
            if r.kind == kind and r.extra == extra and type(r.low) is type(ls) and self._equal(r.low, ls):
                return r.sym
        n = len(self.records)
        if kind in ('any', 'all'):
            sym = S(z3.Bool('red.%s.%d' % (kind, n)))
        elif isinstance(ls, C):
            sym = C(S(z3.Real('red.%s.%d.re' % (kind, n))), S(z3.Real('red.%s.%d.im' % (kind, n))))
        else:
            sym = S(z3.Real('red.%s.%d' % (kind, n)))
        self.records.append(Record(kind, summand, extra, sym, ls))
        if kind in ('any', 'all') and isinstance(ls, S) and ls.is_bool:
            # a summand that is false (true) at every index gives any == False (all == True)
            chk = core.mk_solver(800)
            chk.add(*self.st.pc)
            chk.add(*core.side_conditions())
            if kind == 'any' and chk.check(ls.t) == z3.unsat:
                self.st.assume(core.s_not(sym))
            elif kind == 'all' and chk.check(z3.Not(ls.t)) == z3.unsat:
                self.st.assume(sym)
            # instantiation at the generic index: all(P) ==> P(i),  P(i) ==> any(P)
            if kind == 'all':
                self.st.assume(core.s_or(core.s_not(sym), ls))
            else:
                self.st.assume(core.s_or(core.s_not(ls), sym))
        # monotonicity of sums / maxima: a summand that is >= 0 at every index gives a result >= 0
        if kind in ('sum', 'max') and isinstance(ls, S) and not ls.is_bool:
            chk = core.mk_solver(800)
            chk.add(*self.st.pc)
            chk.add(*core.side_conditions())
            if chk.check((ls < 0).t) == z3.unsat:
                self.st.assume(sym >= 0)
        elif kind == 'sum' and isinstance(ls, C):
            chk = core.mk_solver(800)
            chk.add(*self.st.pc)
            chk.add(*core.side_conditions())
            if chk.check((ls.re < 0).t) == z3.unsat:
                self.st.assume(sym.re >= 0)
            if chk.check((ls.im != 0).t) == z3.unsat:
                self.st.assume(core.sc_eq(sym.im, 0))
        return sym

    def pnorm(self, fr, content, p):
        """( sum |x|^p )^(1/p), max |x| for p = inf"""
        absx = core.VPw('abs', (content,))
        if isinstance(p, float) and p == float('inf'):
            return self.reduce(fr, 'max', absx)
        if p == 2:
            # |x|^2 without the conditional of abs: x*x (real), re^2 + im^2 (complex)
            sq = self.reduce(fr, 'sum', core.VPw('abs2', (content,)))
            return core.ssqrt(sq)
        if p == 1:
            return self.reduce(fr, 'sum', absx)
        s = self.reduce(fr, 'sum', core.VPw('power', (absx, p)))
        return s ** (1 / p if isinstance(p, (int, float)) else 1 / core._sc(p))
