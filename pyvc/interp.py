"""Symbolic interpreter for the Python subset used by the code under contract.

Executes function bodies read from the repository's source (ast) over the value
domain of core.py.  Branches on symbolic conditions fork the path (decision
scripts, re-execution); callees registered as *cut points* are replaced by their
contract (a Python callable working on the symbolic state).
"""
import ast
import itertools
import operator
from fractions import Fraction

import z3

from . import core
from .core import S, C, Unsupported, EngineError, sbool, s_not, s_and, s_or
from .source import Repo, strip_doc


# --------------------------------------------------------------------------
# control flow

class PyRaise(Exception):
    """An exception raised by the interpreted program."""

    def __init__(self, exc):
        Exception.__init__(self, repr(exc))
        self.exc = exc


class _Return(Exception):
    def __init__(self, v):
        self.v = v


class _Break(Exception):
    pass


class _Continue(Exception):
    pass


class Infeasible(Exception):
    """path condition became unsatisfiable (assumption cut the path)"""


# --------------------------------------------------------------------------
# values

class ExtClass(object):
    """builtin / external class known only by name and bases"""

    def __init__(self, name, bases=()):
        self.name, self.bases = name, tuple(bases)
        self.mro = [self]
        for b in self.bases:
            for c in b.mro:
                if c not in self.mro:
                    self.mro.append(c)

    def __repr__(self):
        return '<ext class %s>' % self.name

    def lookup(self, name):
        return None


OBJECT = ExtClass('object')
_EXC = {}


def _mkexc(name, base=None):
    _EXC[name] = ExtClass(name, (_EXC[base],) if base else (OBJECT,))


_mkexc('BaseException')
_mkexc('Exception', 'BaseException')
for _n, _b in [('TypeError', 'Exception'), ('ValueError', 'Exception'), ('LookupError', 'Exception'),
               ('IndexError', 'LookupError'), ('KeyError', 'LookupError'), ('AttributeError', 'Exception'),
               ('RuntimeError', 'Exception'), ('NotImplementedError', 'RuntimeError'),
               ('ArithmeticError', 'Exception'), ('ZeroDivisionError', 'ArithmeticError'),
               ('OverflowError', 'ArithmeticError'), ('FloatingPointError', 'ArithmeticError'),
               ('AssertionError', 'Exception'), ('StopIteration', 'Exception'), ('ImportError', 'Exception'),
               ('OSError', 'Exception'), ('Warning', 'Exception'), ('RuntimeWarning', 'Warning'),
               ('UserWarning', 'Warning'), ('DeprecationWarning', 'Warning'),
               ('UFuncTypeError', 'TypeError'), ('NameError', 'Exception')]:
    _mkexc(_n, _b)


class ClassV(object):
    def __init__(self, interp, name, node, module, env, bases, qualname):
        self.I, self.name, self.node, self.module, self.env = interp, name, node, module, env
        self.bases = bases or [OBJECT]
        self.qualname = qualname
        self.attrs = {}
        self.cvals = {}
        self.mro = self._c3()
        for n in strip_doc(node.body):
            if isinstance(n, ast.FunctionDef):
                kind = 'method'
                other = []
                for d in n.decorator_list:
                    ds = ast.unparse(d)
                    if ds == 'property':
                        kind = 'property'
                    elif ds == 'staticmethod':
                        kind = 'static'
                    elif ds == 'classmethod':
                        kind = 'classmethod'
                    elif ds.endswith('.setter'):
                        kind = 'setter'
                    else:
                        other.append(d)
                if kind == 'setter':
                    self.attrs[n.name + '$set'] = ('func', n, 'setter', other)
                else:
                    self.attrs[n.name] = ('func', n, kind, other)
            elif isinstance(n, ast.Assign):
                for t in n.targets:
                    if isinstance(t, ast.Name):
                        self.attrs[t.id] = ('value', n.value)
            elif isinstance(n, ast.ClassDef):
                self.attrs[n.name] = ('class', n)

    def _c3(self):
        seqs = [list(b.mro) for b in self.bases] + [list(self.bases)]
        res = [self]
        while True:
            seqs = [s for s in seqs if s]
            if not seqs:
                return res
            for s in seqs:
                cand = s[0]
                if not any(cand in t[1:] for t in seqs):
                    break
            else:
                raise EngineError('inconsistent MRO for %s' % self.name)
            res.append(cand)
            for s in seqs:
                if s[0] is cand:
                    del s[0]

    def __repr__(self):
        return '<class %s>' % self.qualname

    def own(self, name):
        return self.attrs.get(name)

    def lookup(self, name, after=None):
        """(defining class, entry) following the MRO; `after`: start after that class (super)"""
        mro = self.mro
        if after is not None:
            mro = mro[mro.index(after) + 1:]
        for c in mro:
            if isinstance(c, ClassV):
                e = c.attrs.get(name)
                if e is not None:
                    return c, e
        return None, None

    def issub(self, other):
        return other in self.mro


class Obj(object):
    def __init__(self, cls):
        self.cls = cls
        self.fields = {}

    def __repr__(self):
        return '<%s obj %x>' % (self.cls.name, id(self) & 0xffff)


class FuncV(object):
    def __init__(self, node, env, module, cls=None, qualname=None):
        self.node, self.env, self.module, self.cls = node, env, module, cls
        self.qualname = qualname
        self.name = getattr(node, 'name', '<lambda>')

    def __repr__(self):
        return '<func %s>' % self.qualname


class BoundM(object):
    def __init__(self, func, self_):
        self.func, self.self_ = func, self_

    def __repr__(self):
        return '<bound %r of %r>' % (self.func, self.self_)


class Builtin(object):
    def __init__(self, name, fn):
        self.name, self.fn = name, fn

    def __repr__(self):
        return '<builtin %s>' % self.name


class ModV(object):
    def __init__(self, modname):
        self.modname = modname

    def __repr__(self):
        return '<module %s>' % self.modname


class SuperV(object):
    def __init__(self, cls, obj):
        self.cls, self.obj = cls, obj


class NotImpl(object):
    def __repr__(self):
        return 'NotImplemented'


NOTIMPL = NotImpl()


class Env(object):
    __slots__ = ('vars', 'parent')

    def __init__(self, parent=None, vars=None):
        self.vars = vars if vars is not None else {}
        self.parent = parent

    def get(self, name):
        e = self
        while e is not None:
            if name in e.vars:
                return e.vars[name]
            e = e.parent
        raise KeyError(name)

    def has(self, name):
        e = self
        while e is not None:
            if name in e.vars:
                return True
            e = e.parent
        return False


class ModEnv(Env):
    """module globals, resolved lazily from source"""

    def __init__(self, interp, modname):
        Env.__init__(self, None, {})
        self.I, self.modname = interp, modname
        self._pending = set()

    def get(self, name):
        if name in self.vars:
            return self.vars[name]
        if name in self._pending:
            raise KeyError(name)
        self._pending.add(name)
        try:
            v = self.I.module_attr(self.modname, name)
        finally:
            self._pending.discard(name)
        self.vars[name] = v
        return v

    def has(self, name):
        try:
            self.get(name)
            return True
        except KeyError:
            return False


class Frame(object):
    def __init__(self, st, func=None, cls=None, module=None):
        self.st, self.func, self.cls, self.module = st, func, cls, module


class State(object):
    """One execution path."""

    def __init__(self, script=(), cuts=None):
        self.script = list(script)
        self.pos = 0
        self.decisions = []
        self.pc = []
        self.cuts = cuts or {}
        self.cut_props = set()     # cut keys that stand for properties (getter / setter) no class declares
        self.events = []       # ghost log (calls to abstract things, writes ...)
        self.assumed = []
        self.ctr = itertools.count()
        self.depth = 0
        self.notes = []
        self.solver = core.set_budget(z3.Solver(), 5000)
        self._nside = 0
        from .reduce import Reductions
        self.reductions = Reductions(self)
        self.lower = core.Lower(self.pc)      # shares the (growing) path condition list

    def fresh(self, prefix):
        return '%s!%d' % (prefix, next(self.ctr))

    def _sync(self):
        sc = core.side_conditions()
        if len(sc) > self._nside:
            self.solver.add(*sc[self._nside:])
            self._nside = len(sc)

    def assume(self, cond):
        cond = sbool(cond)
        self.pc.append(cond.t)
        self.solver.add(cond.t)

    def _full(self):
        s = core.mk_solver(5000)
        s.add(*self.pc)
        s.add(*core.side_conditions())
        return s

    def feasible(self):
        return self._full().check() != z3.unsat

    def entails(self, cond):
        cond = sbool(cond)
        if self.solver.check(z3.Not(cond.t)) == z3.unsat:
            return True
        return self._full().check(z3.Not(cond.t)) == z3.unsat

    def decide(self, cond):
        """concrete truth of a (possibly symbolic) condition on this path; forks if undetermined"""
        if isinstance(cond, bool):
            return cond
        cond = sbool(cond)
        c = cond.concrete()
        if c is not None:
            return bool(c)
        # NOTE: branch feasibility is decided from the path condition alone (side conditions that
        # define quotient / sqrt symbols are left out: they make these many small queries
        # nonlinear).  This over-approximates the feasible paths, which is sound: an infeasible
        # path only adds obligations that are vacuously true once side conditions are added.
        can_t = self.solver.check(cond.t) != z3.unsat
        can_f = self.solver.check(z3.Not(cond.t)) != z3.unsat
        if can_t and not can_f:
            return True
        if can_f and not can_t:
            return False
        if not can_t and not can_f:
            raise Infeasible()
        if self.pos < len(self.script):
            d = self.script[self.pos]
        else:
            d = True
        self.pos += 1
        if len(self.decisions) < self.pos:
            self.decisions.append(d)
        t = cond.t if d else z3.Not(cond.t)
        self.pc.append(t)
        self.solver.add(t)
        return d


def explore(run, cuts=None, max_paths=4000):
    """Enumerate all feasible paths of run(st) by re-execution with decision scripts.

    Generator: yields (st, outcome) for one path at a time, *before* the next path is started, so
    that the symbol tables / side conditions of core.py still belong to the yielded path while the
    caller lowers terms and discharges that path's obligations."""
    work = [[]]
    n = 0
    while work:
        script = work.pop()
        core.reset_symbols()
        st = State(script, cuts)
        try:
            out = run(st)
        except Infeasible:
            out = ('infeasible', None)
        except Unsupported:
            # branch feasibility is decided without the defining side conditions of quotient / sqrt symbols
            # (see State.decide); a path that left the subset is dropped when it is infeasible with them
            if st._full().check() == z3.unsat:
                out = ('infeasible', None)
            else:
                raise
        for i in range(len(script), len(st.decisions)):
            work.append(st.decisions[:i] + [not st.decisions[i]])
        n += 1
        if n > max_paths:
            raise EngineError('path enumeration exceeded %d paths' % max_paths)
        if out[0] != 'infeasible':
            yield st, out


# --------------------------------------------------------------------------

_BINOPS = {
    ast.Add: ('add', operator.add), ast.Sub: ('sub', operator.sub), ast.Mult: ('mul', operator.mul),
    ast.Div: ('truediv', operator.truediv), ast.FloorDiv: ('floordiv', operator.floordiv),
    ast.Mod: ('mod', operator.mod), ast.Pow: ('pow', operator.pow), ast.MatMult: ('matmul', operator.matmul),
    ast.BitAnd: ('and', operator.and_), ast.BitOr: ('or', operator.or_), ast.BitXor: ('xor', operator.xor),
    ast.LShift: ('lshift', operator.lshift), ast.RShift: ('rshift', operator.rshift),
}
_CMPOPS = {ast.Lt: ('lt', operator.lt), ast.LtE: ('le', operator.le), ast.Gt: ('gt', operator.gt),
           ast.GtE: ('ge', operator.ge)}
_SWAP = {'lt': 'gt', 'le': 'ge', 'gt': 'lt', 'ge': 'le'}

PYCONC = (bool, int, float, complex, str, bytes, type(None), Fraction, type(Ellipsis), slice, range)


def is_conc(v):
    """fully concrete python data (recursively)"""
    if isinstance(v, PYCONC):
        return True
    if isinstance(v, (tuple, list, frozenset, set)):
        return all(is_conc(x) for x in v)
    if isinstance(v, dict):
        return all(is_conc(k) and is_conc(x) for k, x in v.items())
    return False


class Interp(object):
    def __init__(self, repo=None):
        self.repo = repo or Repo()
        self.modenvs = {}
        self.classes = {}
        self.ext_modules = {}     # modname -> model object with pv_getattr
        self.builtins = {}
        from . import pybuiltins
        pybuiltins.install(self)
        self.trace = None
        self.touched = {}         # qualname -> node (functions whose source was interpreted)

    # ---- modules / names
    def modenv(self, modname):
        if modname not in self.modenvs:
            self.modenvs[modname] = ModEnv(self, modname)
        return self.modenvs[modname]

    def module_value(self, modname):
        if self.repo.find(modname) is not None:
            return ModV(modname)
        top = modname
        while top:
            if top in self.ext_modules:
                v = self.ext_modules[top]
                rest = modname[len(top):].strip('.')
                for part in [p for p in rest.split('.') if p]:
                    v = v.pv_getattr(self, None, part)
                return v
            top = top.rpartition('.')[0]
        return ExtModule(modname)

    def module_attr(self, modname, name):
        r = self.repo.resolve(modname, name)
        if r is None:
            if name in self.builtins:
                return self.builtins[name]
            raise KeyError(name)
        if r[0] == 'mod':
            return self.module_value(r[1])
        if r[0] == 'ext':
            mv = self.module_value(r[1])
            if isinstance(mv, ExtModule):
                return ExtAttr(r[1], r[2])
            return mv.pv_getattr(self, None, r[2])
        _, m, node = r
        if isinstance(node, ast.FunctionDef):
            fv = FuncV(node, self.modenv(m.name), m, None, '%s:%s' % (m.name, node.name))
            return self._decorate(fv, node, Frame(None, module=m), self.modenv(m.name))
        if isinstance(node, ast.ClassDef):
            return self.make_class(node, m, self.modenv(m.name), '%s:%s' % (m.name, node.name))
        # module-level constant expression
        fr = Frame(State(), module=m)
        return self.eval(node, self.modenv(m.name), fr)

    def _decorate(self, fv, node, fr, env):
        v = fv
        for d in reversed(node.decorator_list):
            ds = ast.unparse(d)
            if ds in ('property', 'staticmethod', 'classmethod') or ds.endswith('.setter'):
                continue
            if ds in ('contextmanager', 'contextlib.contextmanager'):
                v = ContextManagerFunc(v)
                continue
            if fr.st is None:
                fr = Frame(State(), module=fr.module)
            dec = self.eval(d, env, fr)
            v = self.call(dec, [v], {}, fr)
        return v

    def make_class(self, node, module, env, qualname):
        key = (id(node), id(env))
        if key in self.classes:
            return self.classes[key]
        fr = Frame(State(), module=module)
        bases = []
        for b in node.bases:
            bv = self.eval(b, env, fr)
            if isinstance(bv, (ClassV, ExtClass)):
                bases.append(bv)
            elif isinstance(bv, ExtAttr):
                bases.append(ExtClass(bv.attr, (OBJECT,)))
            else:
                raise Unsupported('base class %s of %s' % (ast.unparse(b), node.name))
        cv = ClassV(self, node.name, node, module, env, bases, qualname)
        self.classes[key] = cv
        return cv

    def get_func(self, qualname):
        """FuncV for 'mod:func' or 'mod:Class.method' (module level classes)"""
        modname, _, path = qualname.partition(':')
        parts = path.split('.')
        v = self.modenv(modname).get(parts[0])
        for p in parts[1:]:
            if isinstance(v, ClassV):
                c, e = v.lookup(p)
                if e is None:
                    raise KeyError(qualname)
                v = self.class_entry_value(c, p, e)
            else:
                raise KeyError(qualname)
        return v

    def get_class(self, qualname):
        modname, _, name = qualname.partition(':')
        v = self.modenv(modname).get(name)
        if not isinstance(v, ClassV):
            raise KeyError(qualname)
        return v

    def class_entry_value(self, cls, name, entry):
        """value of a class-body entry as seen from the class (unbound)"""
        if entry[0] == 'func':
            key = ('f', name)
            if key not in cls.cvals:
                fv = FuncV(entry[1], cls.env, cls.module, cls, '%s.%s' % (cls.qualname, entry[1].name))
                if entry[3]:
                    fr = Frame(State(), cls=cls, module=cls.module)
                    v = fv
                    for d in reversed(entry[3]):
                        dec = self.eval(d, cls.env, fr)
                        v = self.call(dec, [v], {}, fr)
                    fv = v
                cls.cvals[key] = fv
            return cls.cvals[key]
        if entry[0] == 'value':
            key = ('v', name)
            if key not in cls.cvals:
                fr = Frame(State(), cls=cls, module=cls.module)
                cenv = Env(cls.env, {})
                # class-body names visible to the expression
                for n2, e2 in cls.attrs.items():
                    if e2[0] == 'value' and n2 != name and isinstance(e2[1], ast.Constant):
                        cenv.vars[n2] = e2[1].value
                cls.cvals[key] = self.eval(entry[1], cenv, fr)
            return cls.cvals[key]
        if entry[0] == 'class':
            return self.make_class(entry[1], cls.module, cls.env, cls.qualname + '.' + name)
        raise EngineError(entry)

    # ---- attribute access
    def mangle(self, name, fr):
        if name.startswith('__') and not name.endswith('__') and fr is not None and fr.cls is not None:
            return '_' + fr.cls.name.lstrip('_') + name
        return name

    def getattr(self, obj, name, fr, default=KeyError):
        try:
            return self._getattr(obj, name, fr)
        except PyRaise as e:
            if default is not KeyError and self.exc_isinstance(e.exc, 'AttributeError'):
                return default
            raise

    def _attr_error(self, obj, name, fr):
        if isinstance(obj, Obj) and getattr(obj, 'partial', False) and name.startswith('_') and '__' in name[1:] and not getattr(self, 'try_depth', 0):
            # instance built by a harness with only the fields its contract talks about: a private field it did not model
            raise Unsupported('private field %s of a partially modelled %s instance' % (name, obj.cls.name))
        raise PyRaise(self.make_exc('AttributeError', '%r has no attribute %s' % (obj, name)))

    def _getattr(self, obj, name, fr):
        if isinstance(obj, Obj):
            if name in obj.fields:
                return obj.fields[name]
            if name == '__class__':
                return obj.cls
            c, e = obj.cls.lookup(name) if isinstance(obj.cls, ClassV) else (None, None)
            if e is None:
                # abstract method that exists only as a contract (declared by no class in the MRO)
                if fr is not None and fr.st is not None and fr.st.cuts and isinstance(obj.cls, ClassV):
                    for k in obj.cls.mro:
                        key = '%s.%s' % (getattr(k, 'qualname', None), name)
                        cut = fr.st.cuts.get(key)
                        if cut is not None:
                            if key in fr.st.cut_props:
                                return cut(self, fr, obj)
                            return BoundM(Builtin('contract:' + name, lambda I, fr2, a, kw, cut=cut: cut(I, fr2, *a, **kw)), obj)
                if name == 'args' and 'args' in obj.fields:
                    return obj.fields['args']
                if name == '__dict__':
                    return obj.fields
                self._attr_error(obj, name, fr)
            return self.bind_entry(obj, c, name, e, fr)
        if isinstance(obj, SuperV):
            target = obj.obj
            tcls = target.cls if isinstance(target, Obj) else target
            c, e = tcls.lookup(name, after=obj.cls)
            if e is None:
                if name == '__init__':
                    return Builtin('object.__init__', lambda I, fr, a, k: None)
                if name in ('__eq__', '__ne__', '__hash__'):
                    return default_dunder(name, target)
                self._attr_error(obj, name, fr)
            if isinstance(target, Obj):
                return self.bind_entry(target, c, name, e, fr)
            return self.class_entry_value(c, name, e)
        if isinstance(obj, ClassV):
            if name == '__name__':
                return obj.name
            if name == '__mro__':
                return tuple(obj.mro)
            c, e = obj.lookup(name)
            if e is None:
                self._attr_error(obj, name, fr)
            if e[0] == 'func' and e[2] == 'classmethod':
                return BoundM(self.class_entry_value(c, name, e), obj)
            return self.class_entry_value(c, name, e)
        if isinstance(obj, ExtClass):
            if name == '__name__':
                return obj.name
            self._attr_error(obj, name, fr)
        if isinstance(obj, ModV):
            try:
                return self.modenv(obj.modname).get(name)
            except KeyError:
                self._attr_error(obj, name, fr)
        if hasattr(obj, 'pv_getattr'):
            return obj.pv_getattr(self, fr, name)
        if isinstance(obj, (S, C)):
            if name == 'real':
                return obj.real
            if name == 'imag':
                return obj.imag
            if name in ('conjugate', 'conj'):
                return Builtin('conjugate', lambda I, fr, a, k, o=obj: o.conjugate())
            if name == 'dtype':
                self._attr_error(obj, name, fr)
            self._attr_error(obj, name, fr)
        if isinstance(obj, FuncV):
            if name == '__name__':
                return obj.name
            if name == '__doc__':
                return ''
            self._attr_error(obj, name, fr)
        if isinstance(obj, BoundM):
            if name == '__self__':
                return obj.self_
            if name == '__func__':
                return obj.func
            self._attr_error(obj, name, fr)
        if isinstance(obj, PYCONC + (tuple, list, dict, set, frozenset)):
            if name == '__array_priority__' or name in ('space', 'dtype', 'shape', 'ndim', 'size') and not hasattr(obj, name):
                self._attr_error(obj, name, fr)
            if hasattr(obj, name):
                a = getattr(obj, name)
                if callable(a):
                    return Builtin('%s.%s' % (type(obj).__name__, name), _pymethod(obj, name))
                return a
            self._attr_error(obj, name, fr)
        if isinstance(obj, NotImpl):
            self._attr_error(obj, name, fr)
        raise Unsupported('getattr %s on %r' % (name, obj))

    def bind_entry(self, obj, c, name, e, fr):
        if e[0] == 'func':
            fv = self.class_entry_value(c, name, e)
            kind = e[2]
            if kind == 'property':
                return self.call(fv, [obj], {}, fr)
            if kind == 'static':
                return fv
            if kind == 'classmethod':
                return BoundM(fv, obj.cls)
            return BoundM(fv, obj)
        v = self.class_entry_value(c, name, e)
        if isinstance(v, FuncV) and getattr(v, 'node', None) is not None and not isinstance(v.node, ast.Lambda) and getattr(v, 'cls', None) is not None:
            # class attribute bound to a plain function defined in another class (e.g. `rotation_matrix = Base.rotation_matrix`): a method
            return BoundM(v, obj)
        return v

    def setattr(self, obj, name, val, fr):
        if isinstance(obj, Obj):
            if isinstance(obj.cls, ClassV):
                c, e = obj.cls.lookup(name)
                if e is not None and e[0] == 'func' and e[2] == 'property':
                    c2, e2 = obj.cls.lookup(name + '$set')
                    if e2 is None:
                        raise PyRaise(self.make_exc('AttributeError', "can't set attribute " + name))
                    fv = self.class_entry_value(c2, name + '$set', e2)
                    self.call(fv, [obj, val], {}, fr)
                    return
                if e is None and fr is not None and fr.st is not None and fr.st.cut_props:
                    for k in obj.cls.mro:
                        key = '%s.%s' % (getattr(k, 'qualname', None), name)
                        if key in fr.st.cut_props and key in fr.st.cuts:
                            fr.st.cuts[key](self, fr, obj, val)
                            return
            obj.fields[name] = val
            return
        if hasattr(obj, 'pv_setattr'):
            obj.pv_setattr(self, fr, name, val)
            return
        if isinstance(obj, FuncV) and name in ('__doc__', '__name__', '__qualname__'):
            return          # documentation metadata of a function object: dropped like docstrings
        raise Unsupported('setattr %s on %r' % (name, obj))

    # ---- exceptions
    def make_exc(self, clsname, *args):
        cls = _EXC[clsname] if isinstance(clsname, str) else clsname
        o = Obj(cls)
        o.fields['args'] = tuple(args)
        return o

    def exc_isinstance(self, exc, cls):
        if isinstance(cls, str):
            cls = _EXC[cls]
        if isinstance(cls, tuple):
            return any(self.exc_isinstance(exc, c) for c in cls)
        if isinstance(exc, Obj):
            return cls in exc.cls.mro
        return False

    # ---- calls
    def call(self, f, args, kwargs, fr):
        st = fr.st
        if isinstance(f, BoundM):
            return self.call(f.func, [f.self_] + list(args), kwargs, fr)
        if isinstance(f, FuncV):
            cut = st.cuts.get(f.qualname) if f.qualname else None
            if cut is not None:
                return cut(self, fr, *args, **kwargs)
            return self.call_func(f, args, kwargs, fr)
        if isinstance(f, Builtin):
            return f.fn(self, fr, list(args), dict(kwargs))
        if isinstance(f, ClassV):
            return self.instantiate(f, args, kwargs, fr)
        if isinstance(f, ExtClass):
            if f in _EXC.values() or any(b in _EXC.values() for b in f.mro):
                return self.make_exc(f, *args)
            raise Unsupported('instantiate external class %s' % f.name)
        if isinstance(f, Obj):
            c, e = f.cls.lookup('__call__') if isinstance(f.cls, ClassV) else (None, None)
            if e is None:
                raise PyRaise(self.make_exc('TypeError', 'object not callable'))
            return self.call(self.bind_entry(f, c, '__call__', e, fr), args, kwargs, fr)
        if hasattr(f, 'pv_call'):
            return f.pv_call(self, fr, list(args), dict(kwargs))
        raise Unsupported('call of %r' % (f,))

    def instantiate(self, cls, args, kwargs, fr):
        cut = None
        if fr.st.cuts:
            for k in cls.mro:
                cut = fr.st.cuts.get('%s.__new__$' % getattr(k, 'qualname', None))
                if cut is not None:
                    break
        if cut is not None:
            o = cut(self, fr, cls, *args, **kwargs)
            c, e = cls.lookup('__init__')
            if e is not None and isinstance(o, Obj):
                self.call(self.bind_entry(o, c, '__init__', e, fr), args, kwargs, fr)
            return o
        c, e = cls.lookup('__new__')
        if e is not None:
            fv = self.class_entry_value(c, '__new__', e)
            o = self.call(fv, [cls] + list(args), kwargs, fr)
        else:
            o = Obj(cls)
        if isinstance(o, Obj) and isinstance(o.cls, ClassV) and o.cls.issub(cls):
            c, e = o.cls.lookup('__init__')
            if e is not None:
                self.call(self.bind_entry(o, c, '__init__', e, fr), args, kwargs, fr)
            elif any(b in _EXC.values() for b in cls.mro):
                o.fields['args'] = tuple(args)
        return o

    def bind_args(self, f, args, kwargs, fr):
        a = f.node.args
        env = Env(f.env, {})
        params = [p.arg for p in a.posonlyargs + a.args]
        ndef = len(a.defaults)
        defaults = dict(zip(params[len(params) - ndef:], a.defaults)) if ndef else {}
        args = list(args)
        kwargs = dict(kwargs)
        for i, p in enumerate(params):
            if i < len(args):
                if p in kwargs:
                    raise PyRaise(self.make_exc('TypeError', 'multiple values for argument ' + p))
                env.vars[p] = args[i]
            elif p in kwargs:
                env.vars[p] = kwargs.pop(p)
            elif p in defaults:
                env.vars[p] = self.eval(defaults[p], f.env, Frame(fr.st, f, f.cls, f.module))
            else:
                raise PyRaise(self.make_exc('TypeError', 'missing argument %s of %s' % (p, f.name)))
        extra = args[len(params):]
        if a.vararg:
            env.vars[a.vararg.arg] = tuple(extra)
        elif extra:
            raise PyRaise(self.make_exc('TypeError', 'too many positional arguments for ' + f.name))
        for p, d in zip(a.kwonlyargs, a.kw_defaults):
            if p.arg in kwargs:
                env.vars[p.arg] = kwargs.pop(p.arg)
            elif d is not None:
                env.vars[p.arg] = self.eval(d, f.env, Frame(fr.st, f, f.cls, f.module))
            else:
                raise PyRaise(self.make_exc('TypeError', 'missing keyword argument ' + p.arg))
        if a.kwarg:
            env.vars[a.kwarg.arg] = kwargs
        elif kwargs:
            raise PyRaise(self.make_exc('TypeError', 'unexpected keyword arguments %s for %s' % (sorted(kwargs), f.name)))
        return env

    def call_func(self, f, args, kwargs, fr):
        st = fr.st
        env = self.bind_args(f, args, kwargs, fr)
        nfr = Frame(st, f, f.cls, f.module)
        if f.qualname:
            self.touched[f.qualname] = f.node
        st.depth += 1
        if st.depth > 60:
            raise Unsupported('recursion depth exceeded in %s' % f.qualname)
        try:
            if isinstance(f.node, ast.Lambda):
                return self.eval(f.node.body, env, nfr)
            if _is_generator(f.node):
                return self.run_generator(f, env, nfr)
            try:
                self.exec_block(strip_doc(f.node.body), env, nfr)
            except _Return as r:
                return r.v
            return None
        finally:
            st.depth -= 1

    def run_generator(self, f, env, fr):
        """generators are run eagerly to a list (no side effects interleaving assumed)"""
        out = []
        fr.yields = out
        try:
            self.exec_block(strip_doc(f.node.body), env, fr)
        except _Return:
            pass
        return GenList(out)

    # ---- truth / equality
    def truth(self, v, fr):
        st = fr.st
        if isinstance(v, bool):
            return v
        if v is None:
            return False
        if isinstance(v, S):
            return st.decide(v)
        if isinstance(v, C):
            return st.decide(s_or(v.re != 0, v.im != 0))
        if isinstance(v, (int, float, complex, Fraction)):
            return v != 0
        if isinstance(v, (str, bytes, tuple, list, dict, set, frozenset, range)):
            return len(v) > 0
        if isinstance(v, NotImpl):
            return True
        if isinstance(v, Obj) and isinstance(v.cls, ClassV):
            c, e = v.cls.lookup('__bool__')
            if e is None:
                c, e = v.cls.lookup('__nonzero__')
            if e is not None:
                return self.truth(self.call(self.bind_entry(v, c, '__bool__', e, fr), [], {}, fr), fr)
            c, e = v.cls.lookup('__len__')
            if e is not None:
                n = self.call(self.bind_entry(v, c, '__len__', e, fr), [], {}, fr)
                return self.truth(n, fr)
            return True
        if hasattr(v, 'pv_truth'):
            return v.pv_truth(self, fr)
        return True

    def py_eq(self, a, b, fr):
        """a == b: python bool or S bool"""
        if a is b and not isinstance(a, float):
            if isinstance(a, Obj) or a is None or isinstance(a, (ClassV, ExtClass, FuncV)):
                if not (isinstance(a, Obj) and self._has_dunder(a, '__eq__')):
                    return True
        if isinstance(a, (S, C)) or isinstance(b, (S, C)):
            if isinstance(a, (S, C, int, float, complex, Fraction, bool)) and isinstance(b, (S, C, int, float, complex, Fraction, bool)):
                return core.sc_eq(a, b)
            if isinstance(a, (Obj,)) or isinstance(b, (Obj,)) or hasattr(a, 'pv_eq') or hasattr(b, 'pv_eq'):
                pass
            else:
                return False
        b_first = (isinstance(a, Obj) and isinstance(b, Obj) and b.cls is not a.cls and a.cls in getattr(b.cls, 'mro', ()) and
                   self._has_dunder(b, '__eq__') and self._dunder_owner(b, '__eq__') is not self._dunder_owner(a, '__eq__'))
        if b_first:
            # Python tries the reflected method of a proper subclass that overrides it first
            r = self.call(self._getattr(b, '__eq__', fr), [a], {}, fr)
            if r is not NOTIMPL:
                return r
        if isinstance(a, Obj) and self._has_dunder(a, '__eq__'):
            r = self.call(self._getattr(a, '__eq__', fr), [b], {}, fr)
            if r is not NOTIMPL:
                return r
        if isinstance(b, Obj) and self._has_dunder(b, '__eq__') and not b_first:
            r = self.call(self._getattr(b, '__eq__', fr), [a], {}, fr)
            if r is not NOTIMPL:
                return r
        if hasattr(a, 'pv_eq'):
            r = a.pv_eq(self, fr, b)
            if r is not NOTIMPL:
                return r
        if hasattr(b, 'pv_eq'):
            r = b.pv_eq(self, fr, a)
            if r is not NOTIMPL:
                return r
        if isinstance(a, (tuple, list)) and isinstance(b, (tuple, list)):
            if type(a) is not type(b) or len(a) != len(b):
                return False
            res = []
            for x, y in zip(a, b):
                r = self.py_eq(x, y, fr)
                if r is False:
                    return False
                if r is not True:
                    res.append(r)
            if not res:
                return True
            return s_and(*res)
        if isinstance(a, dict) and isinstance(b, dict):
            if set(a.keys()) != set(b.keys()):
                return False
            res = [self.py_eq(a[k], b[k], fr) for k in a]
            if all(r is True for r in res):
                return True
            if any(r is False for r in res):
                return False
            return s_and(*[r for r in res if r is not True])
        if is_conc(a) and is_conc(b):
            return a == b
        if isinstance(a, (Obj, ClassV, ExtClass, FuncV, ModV, BoundM, Builtin)) or isinstance(b, (Obj, ClassV, ExtClass, FuncV, ModV, BoundM, Builtin)):
            if isinstance(a, BoundM) and isinstance(b, BoundM):
                return a.func is b.func and a.self_ is b.self_
            return a is b
        if isinstance(a, NotImpl) or isinstance(b, NotImpl):
            return a is b
        if is_conc(a) or is_conc(b):
            return False
        raise Unsupported('equality of %r and %r' % (a, b))

    def _has_dunder(self, o, name):
        if not isinstance(o.cls, ClassV):
            return False
        c, e = o.cls.lookup(name)
        return e is not None

    def _dunder_owner(self, o, name):
        if not isinstance(o.cls, ClassV):
            return None
        c, e = o.cls.lookup(name)
        return c

    def py_ne(self, a, b, fr):
        if isinstance(a, Obj) and self._has_dunder(a, '__ne__'):
            r = self.call(self._getattr(a, '__ne__', fr), [b], {}, fr)
            if r is not NOTIMPL:
                return r
        r = self.py_eq(a, b, fr)
        if isinstance(r, bool):
            return not r
        if isinstance(r, S):
            return s_not(r)
        if hasattr(r, 'pv_not'):
            return r.pv_not(self, fr)
        raise Unsupported('negation of %r' % (r,))

    def contains(self, container, item, fr):
        if isinstance(container, Obj):
            if self._has_dunder(container, '__contains__'):
                return self.call(self._getattr(container, '__contains__', fr), [item], {}, fr)
            raise PyRaise(self.make_exc('TypeError', 'argument of type %r is not iterable' % container))
        if hasattr(container, 'pv_contains'):
            return container.pv_contains(self, fr, item)
        if isinstance(container, (tuple, list, set, frozenset, dict, str, range)):
            if isinstance(container, str):
                if isinstance(item, str):
                    return item in container
                raise PyRaise(self.make_exc('TypeError', 'in <string> requires string'))
            if isinstance(container, dict):
                container = list(container.keys())
            res = []
            for x in container:
                r = x is item or self.py_eq(x, item, fr)
                if r is True:
                    return True
                if r is not False:
                    res.append(r)
            if not res:
                return False
            return s_or(*res)
        raise Unsupported('`in` on %r' % (container,))

    # ---- operators
    def binop(self, opname, pyop, a, b, fr):
        # plain python / symbolic scalars
        if isinstance(a, PYCONC + (tuple, list, S, C, dict, set, frozenset)) and isinstance(b, PYCONC + (tuple, list, S, C, dict, set, frozenset)):
            try:
                if opname == 'truediv' and isinstance(b, (int, float)) and not isinstance(b, bool) and b == 0 and not isinstance(a, (S, C)):
                    raise PyRaise(self.make_exc('ZeroDivisionError', 'division by zero'))
                if opname == 'mod' and isinstance(a, str):
                    return a
                return pyop(a, b)
            except TypeError as e:
                raise PyRaise(self.make_exc('TypeError', str(e)))
            except ZeroDivisionError as e:
                raise PyRaise(self.make_exc('ZeroDivisionError', str(e)))
        ra = self._try_dunder(a, '__%s__' % opname, b, fr)
        if ra is not NOTIMPL:
            return ra
        rb = self._try_dunder(b, '__r%s__' % opname, a, fr)
        if rb is not NOTIMPL:
            return rb
        raise PyRaise(self.make_exc('TypeError', 'unsupported operand types for %s: %r and %r' % (opname, a, b)))

    def _try_dunder(self, a, name, b, fr):
        if isinstance(a, Obj):
            if self._has_dunder(a, name):
                return self.call(self._getattr(a, name, fr), [b], {}, fr)
            return NOTIMPL
        if hasattr(a, 'pv_binop'):
            return a.pv_binop(self, fr, name, b)
        return NOTIMPL

    def unop(self, op, v, fr):
        if isinstance(op, ast.Not):
            t = v if isinstance(v, (bool, S)) else self.truth(v, fr)
            if isinstance(t, S):
                return s_not(t)
            return not t
        name = {ast.USub: '__neg__', ast.UAdd: '__pos__', ast.Invert: '__invert__'}[type(op)]
        if isinstance(v, PYCONC + (S, C)):
            if isinstance(op, ast.USub):
                return -v
            if isinstance(op, ast.UAdd):
                return +v
            return ~v
        if isinstance(v, Obj):
            if self._has_dunder(v, name):
                return self.call(self._getattr(v, name, fr), [], {}, fr)
            raise PyRaise(self.make_exc('TypeError', 'bad operand type for unary op'))
        if hasattr(v, 'pv_unop'):
            return v.pv_unop(self, fr, name)
        raise Unsupported('unary %s on %r' % (name, v))

    def compare(self, op, a, b, fr):
        if isinstance(op, ast.Is):
            return self.identical(a, b)
        if isinstance(op, ast.IsNot):
            return not self.identical(a, b)
        if isinstance(op, ast.Eq):
            return self.py_eq(a, b, fr)
        if isinstance(op, ast.NotEq):
            return self.py_ne(a, b, fr)
        if isinstance(op, ast.In):
            return self.contains(b, a, fr)
        if isinstance(op, ast.NotIn):
            r = self.contains(b, a, fr)
            if isinstance(r, S):
                return s_not(r)
            return not self.truth(r, fr)
        name, pyop = _CMPOPS[type(op)]
        if isinstance(a, PYCONC + (S, C, tuple, list)) and isinstance(b, PYCONC + (S, C, tuple, list)):
            if isinstance(a, (tuple, list)) and not is_conc(a) or isinstance(b, (tuple, list)) and not is_conc(b):
                raise Unsupported('ordering of symbolic sequences')
            try:
                return pyop(a, b)
            except TypeError as e:
                raise PyRaise(self.make_exc('TypeError', str(e)))
        r = self._try_dunder(a, '__%s__' % name, b, fr)
        if r is not NOTIMPL:
            return r
        r = self._try_dunder(b, '__%s__' % _SWAP[name], a, fr)
        if r is not NOTIMPL:
            return r
        raise PyRaise(self.make_exc('TypeError', 'unorderable'))

    def identical(self, a, b):
        if a is b:
            return True
        if isinstance(a, (bool, type(None))) or isinstance(b, (bool, type(None))):
            return a is b
        if isinstance(a, BoundM) and isinstance(b, BoundM):
            return a.func is b.func and a.self_ is b.self_
        if isinstance(a, (int, str)) and isinstance(b, (int, str)) and type(a) is type(b):
            # small ints / interned strings: identity is an implementation detail; code under
            # contract only uses `is` on None/objects.  Equal constants are treated as identical.
            return a == b
        if hasattr(a, 'pv_is'):
            return a.pv_is(b)
        return False

    # ---- expressions
    def eval(self, e, env, fr):
        m = getattr(self, 'e_' + type(e).__name__, None)
        if m is None:
            raise Unsupported('expression %s' % type(e).__name__)
        return m(e, env, fr)

    def e_Constant(self, e, env, fr):
        return e.value

    def e_Name(self, e, env, fr):
        name = e.id
        try:
            return env.get(name)
        except KeyError:
            pass
        if fr.module is not None:
            try:
                return self.modenv(fr.module.name).get(name)
            except KeyError:
                pass
        if name in self.builtins:
            return self.builtins[name]
        raise PyRaise(self.make_exc('NameError', name))

    def e_Attribute(self, e, env, fr):
        obj = self.eval(e.value, env, fr)
        return self._getattr(obj, self.mangle(e.attr, fr), fr)

    def e_Tuple(self, e, env, fr):
        return tuple(self._seq(e.elts, env, fr))

    def e_List(self, e, env, fr):
        return list(self._seq(e.elts, env, fr))

    def e_Set(self, e, env, fr):
        return set(self._seq(e.elts, env, fr))

    def _seq(self, elts, env, fr):
        out = []
        for x in elts:
            if isinstance(x, ast.Starred):
                out.extend(self.iterate(self.eval(x.value, env, fr), fr))
            else:
                out.append(self.eval(x, env, fr))
        return out

    def e_Dict(self, e, env, fr):
        d = {}
        for k, v in zip(e.keys, e.values):
            if k is None:
                d.update(self.eval(v, env, fr))
            else:
                d[self.eval(k, env, fr)] = self.eval(v, env, fr)
        return d

    def e_BinOp(self, e, env, fr):
        a = self.eval(e.left, env, fr)
        b = self.eval(e.right, env, fr)
        name, pyop = _BINOPS[type(e.op)]
        return self.binop(name, pyop, a, b, fr)

    def e_UnaryOp(self, e, env, fr):
        return self.unop(e.op, self.eval(e.operand, env, fr), fr)

    def e_BoolOp(self, e, env, fr):
        isor = isinstance(e.op, ast.Or)
        v = None
        for sub in e.values:
            v = self.eval(sub, env, fr)
            t = self.truth(v, fr)
            if t == isor:
                return v if not isinstance(v, S) else t
        return v if not isinstance(v, S) else (not isor)

    def e_Compare(self, e, env, fr):
        a = self.eval(e.left, env, fr)
        res = True
        for op, c in zip(e.ops, e.comparators):
            b = self.eval(c, env, fr)
            r = self.compare(op, a, b, fr)
            if len(e.ops) == 1:
                return r
            if not self.truth(r, fr):
                return False
            a = b
        return res

    def e_IfExp(self, e, env, fr):
        if self.truth(self.eval(e.test, env, fr), fr):
            return self.eval(e.body, env, fr)
        return self.eval(e.orelse, env, fr)

    def e_Lambda(self, e, env, fr):
        return FuncV(e, env, fr.module, fr.cls, None)

    def e_Call(self, e, env, fr):
        # super() without arguments
        if isinstance(e.func, ast.Name) and e.func.id == 'super' and not e.args:
            return SuperV(fr.cls, env.get(fr.func.node.args.args[0].arg))
        f = self.eval(e.func, env, fr)
        args = self._seq(e.args, env, fr)
        kwargs = {}
        for k in e.keywords:
            if k.arg is None:
                kwargs.update(self.eval(k.value, env, fr))
            else:
                kwargs[k.arg] = self.eval(k.value, env, fr)
        return self.call(f, args, kwargs, fr)

    def e_Subscript(self, e, env, fr):
        obj = self.eval(e.value, env, fr)
        idx = self.eval(e.slice, env, fr)
        return self.getitem(obj, idx, fr)

    def e_Slice(self, e, env, fr):
        lo = self.eval(e.lower, env, fr) if e.lower is not None else None
        hi = self.eval(e.upper, env, fr) if e.upper is not None else None
        st = self.eval(e.step, env, fr) if e.step is not None else None
        if all(isinstance(x, (int, type(None))) for x in (lo, hi, st)):
            return slice(lo, hi, st)
        return SymSlice(lo, hi, st)

    def e_Starred(self, e, env, fr):
        raise Unsupported('starred expression')

    def e_JoinedStr(self, e, env, fr):
        return '<fstring>'

    def e_ListComp(self, e, env, fr):
        return list(self._comp(e.elt, e.generators, env, fr))

    def e_GeneratorExp(self, e, env, fr):
        return GenList(list(self._comp(e.elt, e.generators, env, fr)))

    def e_SetComp(self, e, env, fr):
        return set(self._comp(e.elt, e.generators, env, fr))

    def e_DictComp(self, e, env, fr):
        out = {}
        for k, v in self._comp(ast.Tuple(elts=[e.key, e.value], ctx=ast.Load()), e.generators, env, fr):
            out[k] = v
        return out

    def _comp(self, elt, gens, env, fr):
        out = []

        def rec(i, cenv):
            if i == len(gens):
                out.append(self.eval(elt, cenv, fr))
                return
            g = gens[i]
            for item in self.iterate(self.eval(g.iter, cenv, fr), fr):
                ienv = Env(cenv, {})
                self.assign(g.target, item, ienv, fr)
                if all(self.truth(self.eval(c, ienv, fr), fr) for c in g.ifs):
                    rec(i + 1, ienv)
        rec(0, env)
        return out

    def e_Yield(self, e, env, fr):
        v = self.eval(e.value, env, fr) if e.value is not None else None
        fr.yields.append(v)
        return None

    # ---- subscripts
    def getitem(self, obj, idx, fr):
        if isinstance(obj, Obj):
            if self._has_dunder(obj, '__getitem__'):
                return self.call(self._getattr(obj, '__getitem__', fr), [idx], {}, fr)
            raise PyRaise(self.make_exc('TypeError', 'object is not subscriptable'))
        if hasattr(obj, 'pv_getitem'):
            return obj.pv_getitem(self, fr, idx)
        if isinstance(obj, (tuple, list, str, range)):
            if isinstance(idx, S):
                c = idx.concrete()
                if c is None:
                    raise Unsupported('symbolic index into python sequence')
                idx = int(c)
            if isinstance(idx, bool):
                idx = int(idx)
            if isinstance(idx, (int, slice)):
                try:
                    return obj[idx]
                except IndexError as ex:
                    raise PyRaise(self.make_exc('IndexError', str(ex)))
            raise PyRaise(self.make_exc('TypeError', 'indices must be integers'))
        if isinstance(obj, dict):
            if is_conc(idx) or getattr(idx, 'pv_value_key', False):
                if idx in obj:
                    return obj[idx]
                raise PyRaise(self.make_exc('KeyError', idx))
            for k, v in obj.items():
                if k is idx:
                    return v
            raise PyRaise(self.make_exc('KeyError', idx))
        raise Unsupported('subscript of %r' % (obj,))

    def setitem(self, obj, idx, val, fr):
        if isinstance(obj, Obj):
            if self._has_dunder(obj, '__setitem__'):
                return self.call(self._getattr(obj, '__setitem__', fr), [idx, val], {}, fr)
            raise PyRaise(self.make_exc('TypeError', 'object does not support item assignment'))
        if hasattr(obj, 'pv_setitem'):
            return obj.pv_setitem(self, fr, idx, val)
        if isinstance(obj, list):
            obj[idx] = val
            return
        if isinstance(obj, dict):
            obj[idx] = val
            return
        raise Unsupported('item assignment on %r' % (obj,))

    def iterate(self, v, fr):
        if isinstance(v, (tuple, list, range, str, set, frozenset)):
            return list(v)
        if v is None or isinstance(v, (bool, int, float, complex, S, C)):
            raise PyRaise(self.make_exc('TypeError', 'object is not iterable'))
        if isinstance(v, dict):
            return list(v.keys())
        if isinstance(v, GenList):
            return list(v.items)
        if hasattr(v, 'pv_iter'):
            return v.pv_iter(self, fr)
        if isinstance(v, Obj):
            if self._has_dunder(v, '__iter__'):
                return self.iterate(self.call(self._getattr(v, '__iter__', fr), [], {}, fr), fr)
            if self._has_dunder(v, '__getitem__') and self._has_dunder(v, '__len__'):
                n = self.call(self._getattr(v, '__len__', fr), [], {}, fr)
                if isinstance(n, S):
                    n = n.concrete()
                    if n is None:
                        raise Unsupported('iteration over symbolic-length object')
                return [self.getitem(v, i, fr) for i in range(int(n))]
            if self._has_dunder(v, '__getitem__'):
                # legacy sequence protocol: __getitem__(0), (1), ... until IndexError
                out = []
                for i in range(65):
                    try:
                        out.append(self.getitem(v, i, fr))
                    except PyRaise as e:
                        if self.exc_isinstance(e.exc, 'IndexError'):
                            return out
                        raise
                raise Unsupported('iteration by __getitem__ did not end within 64 items')
        if isinstance(v, slice) or v is None or v is Ellipsis or (isinstance(v, (bool, int, float)) and not isinstance(v, str)):
            raise PyRaise(self.make_exc('TypeError', '%s object is not iterable' % type(v).__name__))
        raise Unsupported('iteration over %r' % (v,))

    # ---- statements
    def exec_block(self, body, env, fr):
        for s in body:
            self.exec_stmt(s, env, fr)

    def exec_stmt(self, s, env, fr):
        m = getattr(self, 's_' + type(s).__name__, None)
        if m is None:
            raise Unsupported('statement %s' % type(s).__name__)
        return m(s, env, fr)

    def s_Expr(self, s, env, fr):
        if isinstance(s.value, ast.Constant):
            return
        self.eval(s.value, env, fr)

    def s_Pass(self, s, env, fr):
        pass

    def s_Import(self, s, env, fr):
        for a in s.names:
            if a.asname:
                env.vars[a.asname] = self.module_value(a.name)
            else:
                env.vars[a.name.split('.')[0]] = self.module_value(a.name.split('.')[0])

    def s_ImportFrom(self, s, env, fr):
        mod = fr.module._abs(s.level, s.module) if s.level else s.module
        for a in s.names:
            if a.name == '*':
                raise Unsupported('import * inside function')
            r = self.repo.resolve(mod, a.name) if self.repo.find(mod) else ('ext', mod, a.name)
            if r is None:
                if self.repo.find(mod + '.' + a.name):
                    v = ModV(mod + '.' + a.name)
                else:
                    raise PyRaise(self.make_exc('ImportError', a.name))
            elif r[0] == 'def':
                v = self.modenv(r[1].name).get(a.name if a.name in r[1].defs else a.name)
            elif r[0] == 'mod':
                v = self.module_value(r[1])
            else:
                mv = self.module_value(r[1])
                v = ExtAttr(r[1], r[2]) if isinstance(mv, ExtModule) else mv.pv_getattr(self, fr, r[2])
            env.vars[a.asname or a.name] = v

    def s_FunctionDef(self, s, env, fr):
        qn = None
        if fr.func is not None and fr.func.qualname:
            qn = '%s.<locals>.%s' % (fr.func.qualname, s.name)
        fv = FuncV(s, env, fr.module, None, qn)
        env.vars[s.name] = self._decorate(fv, s, fr, env)

    def s_ClassDef(self, s, env, fr):
        qn = s.name
        if fr.func is not None and fr.func.qualname:
            qn = '%s.<locals>.%s' % (fr.func.qualname, s.name)
        bases = []
        for b in s.bases:
            bv = self.eval(b, env, fr)
            if not isinstance(bv, (ClassV, ExtClass)):
                raise Unsupported('base class %s' % ast.unparse(b))
            bases.append(bv)
        env.vars[s.name] = ClassV(self, s.name, s, fr.module, env, bases, qn)

    def s_Return(self, s, env, fr):
        raise _Return(self.eval(s.value, env, fr) if s.value is not None else None)

    def s_Assign(self, s, env, fr):
        v = self.eval(s.value, env, fr)
        for t in s.targets:
            self.assign(t, v, env, fr)

    def s_AnnAssign(self, s, env, fr):
        if s.value is not None:
            self.assign(s.target, self.eval(s.value, env, fr), env, fr)

    def assign(self, t, v, env, fr):
        if isinstance(t, ast.Name):
            self._bind(t.id, v, env, fr)
        elif isinstance(t, (ast.Tuple, ast.List)):
            items = self.iterate(v, fr)
            star = [i for i, x in enumerate(t.elts) if isinstance(x, ast.Starred)]
            if star:
                i = star[0]
                nafter = len(t.elts) - i - 1
                for tt, vv in zip(t.elts[:i], items[:i]):
                    self.assign(tt, vv, env, fr)
                self.assign(t.elts[i].value, list(items[i:len(items) - nafter]), env, fr)
                for tt, vv in zip(t.elts[i + 1:], items[len(items) - nafter:]):
                    self.assign(tt, vv, env, fr)
                return
            if len(items) != len(t.elts):
                raise PyRaise(self.make_exc('ValueError', 'unpack: expected %d values, got %d' % (len(t.elts), len(items))))
            for tt, vv in zip(t.elts, items):
                self.assign(tt, vv, env, fr)
        elif isinstance(t, ast.Attribute):
            obj = self.eval(t.value, env, fr)
            self.setattr(obj, self.mangle(t.attr, fr), v, fr)
        elif isinstance(t, ast.Subscript):
            obj = self.eval(t.value, env, fr)
            idx = self.eval(t.slice, env, fr)
            self.setitem(obj, idx, v, fr)
        else:
            raise Unsupported('assignment target %s' % type(t).__name__)

    def _bind(self, name, v, env, fr):
        nl = getattr(fr, 'nonlocals', None)
        if nl and name in nl:
            e = env.parent
            while e is not None:
                if name in e.vars:
                    e.vars[name] = v
                    return
                e = e.parent
        env.vars[name] = v

    def s_Nonlocal(self, s, env, fr):
        if not hasattr(fr, 'nonlocals'):
            fr.nonlocals = set()
        fr.nonlocals.update(s.names)

    def s_Global(self, s, env, fr):
        raise Unsupported('global statement')

    def s_AugAssign(self, s, env, fr):
        name, pyop = _BINOPS[type(s.op)]
        t = s.target
        if isinstance(t, ast.Name):
            cur = self.e_Name(t, env, fr)
            new = self.inplace(name, pyop, cur, self.eval(s.value, env, fr), fr)
            self._bind(t.id, new, env, fr)
        elif isinstance(t, ast.Attribute):
            obj = self.eval(t.value, env, fr)
            an = self.mangle(t.attr, fr)
            cur = self._getattr(obj, an, fr)
            new = self.inplace(name, pyop, cur, self.eval(s.value, env, fr), fr)
            self.setattr(obj, an, new, fr)
        elif isinstance(t, ast.Subscript):
            obj = self.eval(t.value, env, fr)
            idx = self.eval(t.slice, env, fr)
            cur = self.getitem(obj, idx, fr)
            new = self.inplace(name, pyop, cur, self.eval(s.value, env, fr), fr)
            self.setitem(obj, idx, new, fr)
        else:
            raise Unsupported('augmented assignment target')

    def inplace(self, name, pyop, cur, rhs, fr):
        iname = '__i%s__' % name
        if isinstance(cur, Obj) and self._has_dunder(cur, iname):
            r = self.call(self._getattr(cur, iname, fr), [rhs], {}, fr)
            if r is not NOTIMPL:
                return r
        elif hasattr(cur, 'pv_inplace'):
            r = cur.pv_inplace(self, fr, iname, rhs)
            if r is not NOTIMPL:
                return r
        return self.binop(name, pyop, cur, rhs, fr)

    def s_If(self, s, env, fr):
        if self.truth(self.eval(s.test, env, fr), fr):
            self.exec_block(s.body, env, fr)
        else:
            self.exec_block(s.orelse, env, fr)

    def s_For(self, s, env, fr):
        it = self.eval(s.iter, env, fr)
        handler = getattr(it, 'pv_forloop', None)
        if handler is not None:
            return handler(self, fr, s, env)
        items = self.iterate(it, fr)
        broke = False
        for item in items:
            self.assign(s.target, item, env, fr)
            try:
                self.exec_block(s.body, env, fr)
            except _Break:
                broke = True
                break
            except _Continue:
                continue
        if not broke:
            self.exec_block(s.orelse, env, fr)

    def s_While(self, s, env, fr):
        h = getattr(fr.st, 'while_handler', None)
        if h is not None:
            r = h(self, fr, s, env)
            if r is not NotImplemented:
                return r
        n = 0
        while self.truth(self.eval(s.test, env, fr), fr):
            n += 1
            if n > 64:
                raise Unsupported('while loop not bounded by the configuration (needs an invariant)')
            try:
                self.exec_block(s.body, env, fr)
            except _Break:
                return
            except _Continue:
                continue
        self.exec_block(s.orelse, env, fr)

    def s_Break(self, s, env, fr):
        raise _Break()

    def s_Continue(self, s, env, fr):
        raise _Continue()

    def s_Raise(self, s, env, fr):
        if s.exc is None:
            cur = getattr(fr, 'cur_exc', None)
            if cur is None:
                raise Unsupported('bare raise outside handler')
            raise PyRaise(cur)
        v = self.eval(s.exc, env, fr)
        if isinstance(v, (ClassV, ExtClass)):
            v = self.call(v, [], {}, fr)
        if isinstance(v, Obj) and not hasattr(v, 'raised_at'):
            v.raised_at = '%s:%d' % (getattr(fr.func, 'qualname', fr.func), getattr(s, 'lineno', 0))
        raise PyRaise(v)

    def s_Try(self, s, env, fr):
        try:
            try:
                self.try_depth = getattr(self, 'try_depth', 0) + (1 if s.handlers else 0)
                try:
                    self.exec_block(s.body, env, fr)
                finally:
                    self.try_depth -= (1 if s.handlers else 0)
            except PyRaise as pr:
                for h in s.handlers:
                    if h.type is None:
                        match = True
                    else:
                        ht = self.eval(h.type, env, fr)
                        match = self.exc_isinstance(pr.exc, tuple(ht) if isinstance(ht, (tuple, list)) else ht)
                    if match:
                        if h.name:
                            env.vars[h.name] = pr.exc
                        old = getattr(fr, 'cur_exc', None)
                        fr.cur_exc = pr.exc
                        try:
                            self.exec_block(h.body, env, fr)
                        finally:
                            fr.cur_exc = old
                        break
                else:
                    raise
            else:
                self.exec_block(s.orelse, env, fr)
        finally:
            if s.finalbody:
                self.exec_block(s.finalbody, env, fr)

    def s_Assert(self, s, env, fr):
        if not self.truth(self.eval(s.test, env, fr), fr):
            raise PyRaise(self.make_exc('AssertionError'))

    def s_Delete(self, s, env, fr):
        for t in s.targets:
            if isinstance(t, ast.Name):
                env.vars.pop(t.id, None)
            else:
                raise Unsupported('del of non-name')

    def s_With(self, s, env, fr):
        if len(s.items) != 1:
            # with a as x, b as y:  ==  with a as x: with b as y:
            inner = ast.With(items=s.items[1:], body=s.body)
            ast.copy_location(inner, s)
            outer = ast.With(items=s.items[:1], body=[inner])
            ast.copy_location(outer, s)
            return self.s_With(outer, env, fr)
        item = s.items[0]
        cm = self.eval(item.context_expr, env, fr)
        if not hasattr(cm, 'pv_enter'):
            raise Unsupported('with on %r' % (cm,))
        v = cm.pv_enter(self, fr)
        if item.optional_vars is not None:
            self.assign(item.optional_vars, v, env, fr)
        try:
            self.exec_block(s.body, env, fr)
        except PyRaise as pr:
            cm.pv_exit(self, fr, pr)
            raise
        cm.pv_exit(self, fr, None)


class GenList(object):
    """result of a generator expression / generator function, materialised"""

    def __init__(self, items):
        self.items = items


class SymSlice(object):
    def __init__(self, lo, hi, step):
        self.start, self.stop, self.step = lo, hi, step

    def pv_getattr(self, I, fr, name):
        if name in ('start', 'stop', 'step'):
            return getattr(self, name)
        raise PyRaise(I.make_exc('AttributeError', name))


class ExtModule(object):
    def __init__(self, name):
        self.name = name

    def pv_getattr(self, I, fr, name):
        return ExtAttr(self.name, name)

    def __repr__(self):
        return '<external module %s>' % self.name


class ExtAttr(object):
    """attribute of an unmodelled external module: usable only as an opaque token"""

    def __init__(self, mod, attr):
        self.mod, self.attr = mod, attr

    def pv_getattr(self, I, fr, name):
        return ExtAttr(self.mod, self.attr + '.' + name)

    def pv_call(self, I, fr, args, kwargs):
        cut = getattr(fr.st, 'ext_cuts', {}).get(self.mod + '.' + self.attr)
        if cut is not None:
            return cut(I, fr, *args, **kwargs)
        raise Unsupported('call of unmodelled external %s.%s' % (self.mod, self.attr))

    def __repr__(self):
        return '<external %s.%s>' % (self.mod, self.attr)


class ContextManagerFunc(object):
    """@contextmanager generator function: body split at its single yield"""

    def __init__(self, fv):
        self.fv = fv
        self.qualname = fv.qualname

    def pv_call(self, I, fr, args, kwargs):
        cut = fr.st.cuts.get(self.fv.qualname)
        if cut is not None:
            return cut(I, fr, *args, **kwargs)
        return _CMInstance(self.fv, args, kwargs)


class _CMInstance(object):
    def __init__(self, fv, args, kwargs):
        self.fv, self.args, self.kwargs = fv, args, kwargs

    def pv_enter(self, I, fr):
        f = self.fv
        self.env = I.bind_args(f, self.args, self.kwargs, fr)
        self.fr = Frame(fr.st, f, f.cls, f.module)
        body = strip_doc(f.node.body)
        # locate the single top-level `yield` (possibly inside try/finally)
        self.after = None
        for i, s in enumerate(body):
            if isinstance(s, ast.Expr) and isinstance(s.value, ast.Yield):
                I.exec_block(body[:i], self.env, self.fr)
                self.after = body[i + 1:]
                return I.eval(s.value.value, self.env, self.fr) if s.value.value is not None else None
            if isinstance(s, ast.Try) and s.finalbody and s.body and isinstance(s.body[-1], ast.Expr) and isinstance(s.body[-1].value, ast.Yield) \
                    and not any(isinstance(n, (ast.Yield, ast.YieldFrom)) for t in s.body[:-1] for n in ast.walk(t)):
                I.exec_block(body[:i], self.env, self.fr)
                self.after = list(s.finalbody) + body[i + 1:]
                try:
                    I.exec_block(s.body[:-1], self.env, self.fr)
                except PyRaise:
                    I.exec_block(list(s.finalbody), self.env, self.fr)
                    raise
                y = s.body[-1].value
                return I.eval(y.value, self.env, self.fr) if y.value is not None else None
        raise Unsupported('contextmanager shape of %s' % f.qualname)

    def pv_exit(self, I, fr, exc):
        if exc is not None and not any(True for _ in ()):
            # finalbody still runs
            pass
        try:
            I.exec_block(self.after, self.env, self.fr)
        except _Return:
            pass


def _is_generator(node):
    for n in ast.walk(node):
        if isinstance(n, (ast.Yield, ast.YieldFrom)):
            # not inside a nested def
            return _owns(node, n)
    return False


def _owns(fn, target):
    stack = list(fn.body)
    while stack:
        n = stack.pop()
        if n is target:
            return True
        if isinstance(n, (ast.FunctionDef, ast.Lambda, ast.ClassDef)):
            continue
        stack.extend(ast.iter_child_nodes(n))
    return False


def _pymethod(obj, name):
    def call(I, fr, args, kwargs):
        if name == 'format' and isinstance(obj, str):
            if all(type(a) in (str, int, bool) for a in list(args) + list(kwargs.values())):
                try:
                    return obj.format(*args, **kwargs)      # names built from literals (e.g. '__{}{}__'.format(modifier, op)) are exact
                except Exception:
                    return obj
            return obj
        if name == 'join' and isinstance(obj, str):
            return '<joined>'
        if isinstance(obj, dict) and name in ('pop', 'get', 'setdefault', 'update', 'items', 'keys', 'values', 'copy'):
            r = getattr(obj, name)(*args, **kwargs)
            if name in ('items', 'keys', 'values'):
                return list(r)
            return r
        if isinstance(obj, list) and name in ('append', 'extend', 'insert', 'pop', 'index', 'copy', 'reverse'):
            if name == 'extend':
                return obj.extend(I.iterate(args[0], fr))
            if name == 'index':
                for i, x in enumerate(obj):
                    if x is args[0] or I.truth(I.py_eq(x, args[0], fr), fr):
                        return i
                raise PyRaise(I.make_exc('ValueError', 'not in list'))
            return getattr(obj, name)(*args, **kwargs)
        if isinstance(obj, tuple) and name == 'index':
            for i, x in enumerate(obj):
                if x is args[0] or I.truth(I.py_eq(x, args[0], fr), fr):
                    return i
            raise PyRaise(I.make_exc('ValueError', 'not in tuple'))
        if is_conc(args) and is_conc(kwargs):
            try:
                return getattr(obj, name)(*args, **kwargs)
            except (TypeError, ValueError, KeyError, IndexError, AttributeError) as e:
                raise PyRaise(I.make_exc(type(e).__name__, str(e)))
        raise Unsupported('python method %s.%s on symbolic arguments' % (type(obj).__name__, name))
    return call


def default_dunder(name, target):
    if name == '__eq__':
        return Builtin('object.__eq__', lambda I, fr, a, k: target is a[0] or NOTIMPL)
    if name == '__ne__':
        return Builtin('object.__ne__', lambda I, fr, a, k: target is not a[0])
    if name == '__hash__':
        return Builtin('object.__hash__', lambda I, fr, a, k: ('idhash', id(target)))
    raise EngineError(name)
