"""Symbolic value domain shared by all pyvc engines.

S   symbolic scalar (z3 Int / Real / Bool term)
C   symbolic complex scalar (pair of z3 Real terms)
V*  whole-vector terms ("content" of a space element or of a pointwise array);
    lowered to a scalar term at the *generic index* by Lower.

Floats are mathematical reals (assumption A1 of DESIGN.md).
"""
import itertools
from fractions import Fraction
import z3


class Unsupported(Exception):
    """The code under contract left the supported subset (verdict: undecided)."""


class EngineError(Exception):
    """Internal inconsistency of the checker (exit 3)."""


# --------------------------------------------------------------------------
# scalars

def _rv(x):
    if isinstance(x, bool):
        return z3.BoolVal(x)
    if isinstance(x, int):
        return z3.IntVal(x)
    if isinstance(x, float):
        if x != x or x in (float('inf'), float('-inf')):
            raise Unsupported('non-finite float constant %r in real arithmetic' % x)
        f = Fraction(repr(x))
        return z3.RealVal('%d/%d' % (f.numerator, f.denominator))
    if isinstance(x, Fraction):
        return z3.RealVal('%d/%d' % (x.numerator, x.denominator))
    raise TypeError(x)


def is_num(x):
    return isinstance(x, (int, float, Fraction)) and not isinstance(x, bool)


class S(object):
    """Symbolic int/real/bool scalar."""
    __slots__ = ('t',)
    __array_priority__ = 1e9

    def __init__(self, t):
        assert z3.is_expr(t), t
        self.t = t

    # ---- kinds
    @property
    def is_bool(self):
        return z3.is_bool(self.t)

    @property
    def is_int(self):
        return z3.is_int(self.t)

    @property
    def is_real(self):
        return z3.is_real(self.t)

    def __repr__(self):
        return 'S(%s)' % self.t

    def __hash__(self):
        return hash(self.t)

    def __bool__(self):
        t = z3.simplify(self.t)
        if z3.is_true(t):
            return True
        if z3.is_false(t):
            return False
        raise EngineError('symbolic value used as a concrete bool: %s' % self.t)

    def concrete(self):
        """Python value if the term simplifies to a literal, else None."""
        t = z3.simplify(self.t)
        if z3.is_true(t):
            return True
        if z3.is_false(t):
            return False
        if z3.is_int_value(t):
            return t.as_long()
        if z3.is_rational_value(t):
            f = Fraction(t.numerator_as_long(), t.denominator_as_long())
            return f
        return None

    @staticmethod
    def lift(x):
        if isinstance(x, S):
            return x
        if isinstance(x, (bool, int, float, Fraction)):
            return S(_rv(x))
        raise TypeError('cannot lift %r' % (x,))

    @staticmethod
    def _arith(a, b):
        a, b = S.lift(a).t, S.lift(b).t
        if z3.is_bool(a):
            a = z3.If(a, z3.IntVal(1), z3.IntVal(0))
        if z3.is_bool(b):
            b = z3.If(b, z3.IntVal(1), z3.IntVal(0))
        if z3.is_int(a) and z3.is_real(b):
            a = z3.ToReal(a)
        elif z3.is_real(a) and z3.is_int(b):
            b = z3.ToReal(b)
        return a, b

    def _bin(self, other, f, swap=False):
        if isinstance(other, float) and (other != other or other in (float('inf'), float('-inf'))):
            # non-finite operand (np.nan / np.inf markers such as "no Lipschitz constant"): the result is
            # "not a finite number"; only used for values about which nothing is claimed
            return float('nan')
        if isinstance(other, complex):
            other = C.lift(other)
            a, b = (other, C.lift(self)) if swap else (C.lift(self), other)
            return f(a, b)
        if isinstance(other, C):
            return NotImplemented
        if not isinstance(other, (S, bool, int, float, Fraction)):
            return NotImplemented
        a, b = S._arith(self, other)
        if swap:
            a, b = b, a
        return S(f(a, b))

    def __add__(self, o): return self._bin(o, lambda a, b: a + b)
    def __radd__(self, o): return self._bin(o, lambda a, b: a + b, True)
    def __sub__(self, o): return self._bin(o, lambda a, b: a - b)
    def __rsub__(self, o): return self._bin(o, lambda a, b: a - b, True)
    def __mul__(self, o): return self._bin(o, lambda a, b: a * b)
    def __rmul__(self, o): return self._bin(o, lambda a, b: a * b, True)

    @staticmethod
    def _div(a, b):
        """a / b.  Division by a numeral stays a (linear) z3 division; otherwise the quotient is a
        fresh symbol q with the defining side condition  b != 0  ==>  q * b == a  (keeps queries
        within reach of the nonlinear solver; x / 0 is unconstrained as in z3)."""
        if z3.is_int(a):
            a = z3.ToReal(a)
        if z3.is_int(b):
            b = z3.ToReal(b)
        bs = z3.simplify(b)
        if z3.is_rational_value(bs):
            if bs.numerator_as_long() == 0:
                return a / b
            inv = Fraction(bs.denominator_as_long(), bs.numerator_as_long())     # sign normalised into the numerator
            return a * z3.RealVal('%d/%d' % (inv.numerator, inv.denominator))
        a_s = z3.simplify(a)
        key = (a_s.get_id(), bs.get_id())
        hit = _div_cache.get(key)
        if hit is not None:
            return hit[0]
        q = z3.Real('quot!%d' % next(_fresh))
        _side.append(z3.Implies(bs != 0, q * bs == a_s))
        _div_cache[key] = (q, a_s, bs)
        return q

    def __truediv__(self, o): return self._bin(o, S._div)
    def __rtruediv__(self, o): return self._bin(o, S._div, True)

    @staticmethod
    def _floordiv(a, b):
        if z3.is_int(a) and z3.is_int(b):
            # python floor division; z3 `div` is euclidean: agree for b > 0
            return z3.If(b > 0, a / b, -((-a) / (-b)) if False else z3.If((a % b) == 0, a / b, a / b - 1 + 1))
        raise Unsupported('floor division of reals')

    def __floordiv__(self, o):
        a, b = S._arith(self, o)
        if z3.is_int(a) and z3.is_int(b):
            bc = z3.simplify(b)
            if z3.is_int_value(bc) and bc.as_long() > 0:
                return S(a / b)
        raise Unsupported('floor division with non-positive-constant divisor')

    def __mod__(self, o):
        a, b = S._arith(self, o)
        if z3.is_int(a) and z3.is_int(b):
            bc = z3.simplify(b)
            if z3.is_int_value(bc) and bc.as_long() > 0:
                return S(a % b)
        raise Unsupported('modulo with non-positive-constant divisor')

    def __neg__(self):
        a, _ = S._arith(self, 0)
        return S(-a)

    def __pos__(self): return self

    def __abs__(self):
        a, _ = S._arith(self, 0)
        return S(z3.If(a >= 0, a, -a))

    def __pow__(self, p):
        if isinstance(p, S):
            pc = p.concrete()
            if pc is None:
                return spow(self, p)
            p = pc
        if isinstance(p, Fraction) and p.denominator == 1:
            p = int(p)
        if isinstance(p, float) and p == int(p):
            p = int(p)
        if isinstance(p, int):
            if p >= 0:
                r = S.lift(1)
                for _ in range(p):
                    r = r * self
                return r
            return 1 / (self ** (-p))
        if p == 0.5 or p == Fraction(1, 2):
            return ssqrt(self)
        return spow(self, S.lift(p))

    def __rpow__(self, base):
        return spow(S.lift(base), self)

    # comparisons
    def _cmp(self, o, f):
        if isinstance(o, C) or isinstance(o, complex):
            return NotImplemented
        if not isinstance(o, (S, bool, int, float, Fraction)):
            return NotImplemented
        if self.is_bool and isinstance(o, (bool, S)) and S.lift(o).is_bool:
            return S(f(self.t, S.lift(o).t))
        a, b = S._arith(self, o)
        return S(f(a, b))

    def __eq__(self, o): return self._cmp(o, lambda a, b: a == b)
    def __ne__(self, o): return self._cmp(o, lambda a, b: a != b)
    def __lt__(self, o): return self._cmp(o, lambda a, b: a < b)
    def __le__(self, o): return self._cmp(o, lambda a, b: a <= b)
    def __gt__(self, o): return self._cmp(o, lambda a, b: a > b)
    def __ge__(self, o): return self._cmp(o, lambda a, b: a >= b)

    @property
    def real(self): return self

    @property
    def imag(self): return S.lift(0.0)

    def conjugate(self): return self
    conj = conjugate


def sbool(x):
    """lift to S bool"""
    if isinstance(x, S):
        if x.is_bool:
            return x
        return x != 0
    return S(z3.BoolVal(bool(x)))


def s_and(*xs):
    return S(z3.And(*[sbool(x).t for x in xs]))


def s_or(*xs):
    return S(z3.Or(*[sbool(x).t for x in xs]))


def s_not(x):
    return S(z3.Not(sbool(x).t))


def s_if(c, a, b):
    c = sbool(c)
    if isinstance(a, C) or isinstance(b, C) or isinstance(a, complex) or isinstance(b, complex):
        a, b = C.lift(a), C.lift(b)
        return C(S(z3.If(c.t, a.re.t, b.re.t)), S(z3.If(c.t, a.im.t, b.im.t)))
    a, b = S._arith(a, b)
    return S(z3.If(c.t, a, b))


# side conditions collected for functions introduced as "fresh symbol + defining axiom"
_side = []          # list of z3 BoolRef; consumed by vc.Obligation via core.side_conditions()
_fresh = itertools.count()
_sqrt_cache = {}
_div_cache = {}
_ufs = {}


BUDGET_FACTOR = 2.0         # every nominal solver budget is multiplied by this (head-room for a loaded machine; verdicts must not flip)


def set_budget(s, nominal_ms):
    """wall-clock budget of a solver call.  (A deterministic `rlimit` was tried instead: for the nonlinear queries that end in
    `unknown` z3 counts resources so slowly that the limit is never reached, so it cannot replace the timeout.)"""
    s.set('timeout', int(nominal_ms * BUDGET_FACTOR))
    return s


def mk_solver(timeout_ms=10000):
    return set_budget(z3.Solver(), timeout_ms)


def reset_symbols():
    global _fresh
    del _side[:]
    _fresh = itertools.count()
    _sqrt_cache.clear()
    _div_cache.clear()
    _trig_cache.clear()


def side_conditions(congruence=False):
    """defining conditions of the quotient / sqrt symbols; with congruence=True also the functional congruence
    between them (equal arguments give equal symbols: sqrt and division are functions) - used where two terms
    are compared for semantic identity (merging of atoms / reduction records)"""
    out = list(_side)
    if not congruence:
        return out
    sq = [(r, a) for (r, a) in _sqrt_cache.values() if isinstance(r, S) and not z3.is_rational_value(z3.simplify(r.t))]
    if len(sq) <= 12:
        for i in range(len(sq)):
            for j in range(i + 1, len(sq)):
                out.append(z3.Implies(sq[i][1] == sq[j][1], sq[i][0].t == sq[j][0].t))
    dv = [v for v in _div_cache.values() if z3.is_expr(v[0])]
    if len(dv) <= 12:
        for i in range(len(dv)):
            for j in range(i + 1, len(dv)):
                out.append(z3.Implies(z3.And(dv[i][1] == dv[j][1], dv[i][2] == dv[j][2]), dv[i][0] == dv[j][0]))
    return out


def fresh_real(prefix='t'):
    return S(z3.Real('%s!%d' % (prefix, next(_fresh))))


def fresh_int(prefix='n'):
    return S(z3.Int('%s!%d' % (prefix, next(_fresh))))


def fresh_bool(prefix='b'):
    return S(z3.Bool('%s!%d' % (prefix, next(_fresh))))


def ssqrt(x):
    """sqrt(x) as a fresh r with r >= 0 and r*r = x (defined for x >= 0; for x < 0 r is unconstrained)."""
    x = S.lift(x)
    a, _ = S._arith(x, 0.0)
    a = z3.simplify(a)
    key = a.get_id()
    if key in _sqrt_cache:
        return _sqrt_cache[key][0]
    c = S(a).concrete()
    if c is not None and c >= 0:
        import math
        r = Fraction(math.isqrt(c.numerator), 1) / Fraction(math.isqrt(c.denominator), 1) if isinstance(c, Fraction) else Fraction(math.isqrt(c))
        if r * r == c:
            res = S.lift(r) + 0.0
            _sqrt_cache[key] = (res, a)
            return res
    r = z3.Real('sqrt!%d' % next(_fresh))
    _side.append(z3.Implies(a >= 0, z3.And(r >= 0, r * r == a)))
    res = S(r)
    _sqrt_cache[key] = (res, a)
    return res


def unfold_quot(q):
    """(numerator, denominator) of a quotient symbol introduced by S._div, or None"""
    t = S.lift(q).t
    for (qq, num, den) in [v for v in _div_cache.values() if z3.is_expr(v[0])]:
        if qq.eq(t):
            return S(num), S(den)
    return None


def unfold_sqrt(r):
    """radicand of a sqrt symbol introduced by ssqrt, or None"""
    t = S.lift(r).t
    for (res, a) in _sqrt_cache.values():
        if isinstance(res, S) and res.t.eq(t):
            return S(a)
    return None


_trig_cache = {}


def trig(x):
    """(cos x, sin x) as a pair of fresh reals c, s with the defining side condition c*c + s*s == 1 (one pair per semantically
    distinct argument term; numerals are evaluated).  Addition theorems are instantiated by the contracts that need them."""
    x = S.lift(x)
    a, _ = S._arith(x, 0.0)
    a = z3.simplify(a)
    key = a.get_id()
    if key in _trig_cache:
        return _trig_cache[key][0], _trig_cache[key][1]
    c0 = S(a).concrete()
    if c0 is not None:
        import math
        if c0 == 0:
            res = (S.lift(1.0), S.lift(0.0))
        else:
            res = (S.lift(math.cos(float(c0))), S.lift(math.sin(float(c0))))
        _trig_cache[key] = (res[0], res[1], a)
        return res
    k = next(_fresh)
    c, s_ = z3.Real('cos!%d' % k), z3.Real('sin!%d' % k)
    _side.append(c * c + s_ * s_ == 1)
    _trig_cache[key] = (S(c), S(s_), a)
    return S(c), S(s_)


def uf(name, *sorts):
    key = (name,) + tuple(str(s) for s in sorts)
    if key not in _ufs:
        _ufs[key] = z3.Function(name, *sorts)
    return _ufs[key]


def spow(b, p):
    """general real power as an uninterpreted function with the laws needed on demand"""
    b, p = S._arith(S.lift(b), 0.0)[0], S._arith(S.lift(p), 0.0)[0]
    f = uf('pow', z3.RealSort(), z3.RealSort(), z3.RealSort())
    return S(f(b, p))


def sfun(name, *args):
    """uninterpreted real function of real arguments (exp, log, ...)"""
    ts = [S._arith(S.lift(a), 0.0)[0] for a in args]
    f = uf(name, *([z3.RealSort()] * (len(ts) + 1)))
    return S(f(*ts))


class C(object):
    """Symbolic complex scalar."""
    __slots__ = ('re', 'im')
    __array_priority__ = 1e9

    def __init__(self, re, im):
        self.re, self.im = S.lift(re) + 0.0, S.lift(im) + 0.0

    @staticmethod
    def lift(x):
        if isinstance(x, C):
            return x
        if isinstance(x, complex):
            return C(x.real, x.imag)
        return C(S.lift(x), 0.0)

    def __repr__(self):
        return 'C(%s, %s)' % (self.re.t, self.im.t)

    def __add__(self, o):
        o = C.lift(o)
        return C(self.re + o.re, self.im + o.im)
    __radd__ = __add__

    def __sub__(self, o):
        o = C.lift(o)
        return C(self.re - o.re, self.im - o.im)

    def __rsub__(self, o):
        return C.lift(o) - self

    def __mul__(self, o):
        o = C.lift(o)
        return C(self.re * o.re - self.im * o.im, self.re * o.im + self.im * o.re)
    __rmul__ = __mul__

    def __truediv__(self, o):
        """complex quotient as a fresh pair q with side condition  o != 0  ==>  q * o == self"""
        o = C.lift(o)
        oi = z3.simplify(o.im.t)
        if z3.is_rational_value(oi) and oi.numerator_as_long() == 0:
            return C(self.re / o.re, self.im / o.re)
        key = tuple(z3.simplify(t).get_id() for t in (self.re.t, self.im.t, o.re.t, o.im.t))
        hit = _div_cache.get(key)
        if hit is not None:
            return hit[0]
        k = next(_fresh)
        q = C(S(z3.Real('cquot!%d.re' % k)), S(z3.Real('cquot!%d.im' % k)))
        prod = q * o
        _side.append(z3.Implies(z3.Or(o.re.t != 0, o.im.t != 0),
                                z3.And(prod.re.t == self.re.t, prod.im.t == self.im.t)))
        _div_cache[key] = (q, self, o)
        return q

    def __rtruediv__(self, o):
        return C.lift(o) / self

    def __neg__(self):
        return C(-self.re, -self.im)

    def __pos__(self):
        return self

    def __abs__(self):
        return ssqrt(self.re * self.re + self.im * self.im)

    def __pow__(self, p):
        if isinstance(p, S):
            p = p.concrete()
        if isinstance(p, Fraction) and p.denominator == 1:
            p = int(p)
        if isinstance(p, float) and p == int(p):
            p = int(p)
        if isinstance(p, int) and p >= 0:
            r = C.lift(1)
            for _ in range(p):
                r = r * self
            return r
        raise Unsupported('complex power')

    def __eq__(self, o):
        o = C.lift(o)
        return s_and(self.re == o.re, self.im == o.im)

    def __ne__(self, o):
        return s_not(self == o)

    def __hash__(self):
        return hash((self.re, self.im))

    @property
    def real(self): return self.re

    @property
    def imag(self): return self.im

    def conjugate(self): return C(self.re, -self.im)
    conj = conjugate


def is_sym(x):
    return isinstance(x, (S, C))


def is_scalar(x):
    return isinstance(x, (S, C, int, float, complex, Fraction)) and not isinstance(x, bool) or isinstance(x, bool)


def sc_eq(a, b):
    """equality of two scalars (python or symbolic) as S bool"""
    if isinstance(a, (C, complex)) or isinstance(b, (C, complex)):
        return C.lift(a) == C.lift(b)
    for u, v in ((a, b), (b, a)):
        if isinstance(u, float) and (u != u or u in (float('inf'), float('-inf'))) and isinstance(v, S):
            return sbool(False)          # a symbolic scalar stands for a finite real (A1): never equal to inf / nan
    return S.lift(a) == S.lift(b)


# --------------------------------------------------------------------------
# vector terms

class V(object):
    """Whole-vector term.  `field` is 'real' or 'complex' (of the entries)."""
    field = 'real'

    def lin_terms(self):
        """[(coef, atom)] if this term is a linear combination of atoms, coef scalar"""
        return [(1, self)]

    def key(self):
        raise NotImplementedError


class VVar(V):
    def __init__(self, name, field='real'):
        self.name, self.field = name, field

    def key(self):
        return ('var', self.name)

    def __repr__(self):
        return self.name


class VConst(V):
    """all entries equal to one scalar"""

    def __init__(self, c):
        self.c = c
        self.field = 'complex' if isinstance(c, (C, complex)) else 'real'

    def key(self):
        return ('const', skey(self.c))

    def __repr__(self):
        return 'const(%r)' % (self.c,)


class VFresh(V):
    """arbitrary content (np.empty, stale output): one free value per entry"""
    _n = itertools.count()

    def __init__(self, tag, field='real'):
        self.tag, self.field = tag, field

    def key(self):
        return ('fresh', self.tag)

    def __repr__(self):
        return 'fresh(%s)' % self.tag


class VLin(V):
    def __init__(self, terms):
        # terms: [(coef, V)]
        flat = []
        for c, v in terms:
            if isinstance(v, VLin):
                for c2, v2 in v.terms:
                    flat.append((c * c2, v2))
            else:
                flat.append((c, v))
        self.terms = tuple(flat)
        self.field = 'complex' if any(v.field == 'complex' or isinstance(c, (C, complex)) for c, v in flat) else 'real'

    def lin_terms(self):
        return list(self.terms)

    def key(self):
        return ('lin',) + tuple((skey(c), v.key()) for c, v in self.terms)

    def __repr__(self):
        return '(' + ' + '.join('%r*%r' % (c, v) for c, v in self.terms) + ')'


class VPw(V):
    """pointwise function of vectors / scalars"""

    def __init__(self, fn, args, field=None):
        self.fn, self.args = fn, tuple(args)
        if field is None:
            field = 'complex' if any(isinstance(a, V) and a.field == 'complex' or isinstance(a, (C, complex)) for a in args) else 'real'
        self.field = field

    def key(self):
        return ('pw', self.fn) + tuple(a.key() if isinstance(a, V) else skey(a) for a in self.args)

    def __repr__(self):
        return '%s(%s)' % (self.fn, ', '.join(map(repr, self.args)))


class VApp(V):
    """application of an abstract (non-pointwise) map `op` to whole vectors.
    op: OpSym; args: tuple of V / scalars; `slot` distinguishes several outputs"""

    def __init__(self, op, args, field='real', slot=None):
        self.op, self.args, self.field, self.slot = op, tuple(args), field, slot

    def key(self):
        return ('app', self.op.name, self.slot) + tuple(a.key() if isinstance(a, V) else skey(a) for a in self.args)

    def __repr__(self):
        return '%s(%s)' % (self.op.name, ', '.join(map(repr, self.args)))


class OpSym(object):
    def __init__(self, name, linear=False):
        self.name, self.linear = name, linear

    def __repr__(self):
        return self.name


def skey(c):
    if isinstance(c, S):
        return ('S', z3.simplify(c.t).sexpr())
    if isinstance(c, C):
        return ('C', z3.simplify(c.re.t).sexpr(), z3.simplify(c.im.t).sexpr())
    if isinstance(c, (bool, int, float, complex, Fraction, str, type(None))):
        return ('py', repr(c))
    if isinstance(c, tuple):
        return tuple(skey(x) for x in c)
    return ('obj', id(c))


def vlin(*pairs):
    return VLin(list(pairs))


def vadd(a, b): return VLin([(1, a), (1, b)])
def vsub(a, b): return VLin([(1, a), (-1, b)])
def vscale(c, a): return VLin([(c, a)])


def vmul(a, b):
    if isinstance(a, VConst):
        return vscale(a.c, b)
    if isinstance(b, VConst):
        return vscale(b.c, a)
    return VPw('mul', (a, b))


def vdiv(a, b):
    if isinstance(b, VConst):
        return vscale(1 / _sc(b.c), a)
    return VPw('div', (a, b))


def _sc(c):
    if isinstance(c, (S, C)):
        return c
    if isinstance(c, complex):
        return C.lift(c)
    return S.lift(c)


_ONE = VConst(1.0)


class Lower(object):
    """Lowers V terms to scalar terms at the generic index.

    Atoms created for VApp are keyed structurally; before creating a new atom for an
    operator the existing atoms of the same operator are compared *semantically*
    (argument terms equal at the generic index under the path condition `pc`, which only
    constrains scalars) so that A(s*x) and A(x) coincide when pc implies s == 1.
    """

    def __init__(self, pc=()):
        self.pc = pc if isinstance(pc, list) else list(pc)     # shared (live) with the State's path condition
        self.memo = {}
        self.vars = {}
        self.atoms = {}      # key -> scalar
        self.atom_args = {}  # (opname, slot) -> [(lowered args, scalar)]
        self.n = itertools.count()

    def var(self, name, field):
        if name not in self.vars:
            if field == 'int':
                self.vars[name] = S(z3.Int(name))
            elif field == 'complex':
                self.vars[name] = C(S(z3.Real(name + '.re')), S(z3.Real(name + '.im')))
            else:
                self.vars[name] = S(z3.Real(name))
        return self.vars[name]

    def __call__(self, v):
        if not isinstance(v, V):
            if hasattr(v, 'value') and hasattr(v, 'shape'):
                return v          # a lookup table (npmodel.Table): passed through to pw_apply
            return _sc(v)
        k = id(v)
        if k in self.memo:
            return self.memo[k][1]
        r = self._low(v)
        self.memo[k] = (v, r)
        return r

    def _low(self, v):
        if isinstance(v, VVar):
            return self.var('v.' + v.name, v.field)
        if isinstance(v, VFresh):
            return self.var('fresh.' + str(v.tag), v.field)
        if isinstance(v, VConst):
            return _sc(v.c)
        if isinstance(v, VLin):
            acc = None
            for c, t in v.terms:
                x = _sc(c) * self(t)
                acc = x if acc is None else acc + x
            return acc if acc is not None else S.lift(0.0)
        if isinstance(v, VPw):
            args = [self(a) for a in v.args]
            return pw_apply(v.fn, args)
        if isinstance(v, VApp):
            if v.op.linear and len(v.args) == 1 and isinstance(v.args[0], V):
                return self.linear_app(v)
            return self.atom(v)
        raise EngineError('cannot lower %r' % (v,))

    def linform(self, v):
        """[(coef, atom)] with every linear operator application distributed over combinations:
        L(sum c_k a_k) = sum c_k L(a_k)  (conj(c_k) for an antilinear L), L(0) = 0"""
        if isinstance(v, VLin):
            out = []
            for c, t in v.terms:
                for c2, a in self.linform(t):
                    out.append((_sc(c) * _sc(c2), a))
            return out
        if isinstance(v, VConst):
            c = v.c
            if isinstance(c, (int, float)) and c == 0:
                return []
            if isinstance(c, (int, float)) and c == 1:
                return [(1, _ONE)]
            return [(c, _ONE)]
        if isinstance(v, VPw) and v.fn == 'mul' and all(isinstance(a, V) for a in v.args):
            # pointwise product is bilinear: expand over both factors, factors in canonical order
            la, lb = self.linform(v.args[0]), self.linform(v.args[1])
            if len(la) == 1 and len(lb) == 1 and la[0][1] is v.args[0] and lb[0][1] is v.args[1]:
                return [(1, v)]
            out = []
            for c1, a1 in la:
                for c2, a2 in lb:
                    f = sorted([a1, a2], key=lambda t: repr(t.key()))
                    if f[0] is _ONE or (isinstance(f[0], VConst) and f[0].key() == _ONE.key()):
                        prod = f[1]
                    elif isinstance(f[1], VConst) and f[1].key() == _ONE.key():
                        prod = f[0]
                    else:
                        prod = VPw('mul', (f[0], f[1]))
                    out.append((_sc(c1) * _sc(c2), prod))
            return out
        if isinstance(v, VApp) and v.op.linear and len(v.args) == 1 and isinstance(v.args[0], V):
            out = []
            anti = getattr(v.op, 'antilinear', False)
            for c, a in self.linform(v.args[0]):
                cc = _sc(c)
                out.append((cc.conjugate() if anti else cc, VApp(v.op, (a,), v.field, v.slot)))
            return out
        return [(1, v)]

    def linear_app(self, v):
        acc = None
        for c, a in self.linform(v):
            x = _sc(c) * self.atom(a)
            acc = x if acc is None else acc + x
        if acc is None:
            return C(0.0, 0.0) if v.field == 'complex' else S.lift(0.0)
        return acc

    def atom(self, v):
        key = v.key()
        if key in self.atoms:
            return self.atoms[key]
        largs = [self(a) for a in v.args]
        okey = (v.op.name, v.slot)
        for (oargs, res) in self.atom_args.get(okey, []):
            if len(oargs) == len(largs) and self._all_equal(oargs, largs):
                self.atoms[key] = res
                return res
        nm = 'app.%s.%d' % (v.op.name, next(self.n))
        res = self.var(nm, v.field)
        self.atoms[key] = res
        self.atom_args.setdefault(okey, []).append((largs, res))
        return res

    def _all_equal(self, xs, ys):
        conj = []
        for x, y in zip(xs, ys):
            if isinstance(x, (S, C)) != isinstance(y, (S, C)):
                return False
            conj.append(sc_eq(x, y).t)
        goal = z3.simplify(z3.And(*conj))
        if z3.is_true(goal):
            return True
        if z3.is_false(goal):
            return False
        from . import vc
        v = vc.prove(list(self.pc), side_conditions(congruence=True), goal, quick=True)
        return v.status == 'proved'


def pw_apply(fn, a):
    """pointwise functions on scalar terms"""
    if fn == 'mul':
        return a[0] * a[1]
    if fn == 'div':
        return a[0] / a[1]
    if fn == 'abs':
        return abs(a[0])
    if fn == 'neg':
        return -a[0]
    if fn == 'conj':
        return a[0].conjugate() if isinstance(a[0], (S, C)) else _sc(a[0]).conjugate()
    if fn == 'real':
        return a[0].real
    if fn == 'imag':
        return a[0].imag
    if fn == 'sign':
        x = a[0]
        if isinstance(x, C):
            raise Unsupported('sign of complex')
        return s_if(x > 0, 1.0, s_if(x < 0, -1.0, 0.0))
    if fn == 'maximum':
        return s_if(a[0] >= a[1], a[0], a[1])
    if fn == 'minimum':
        return s_if(a[0] <= a[1], a[0], a[1])
    if fn == 'sqrt':
        return ssqrt(a[0])
    if fn == 'square':
        return a[0] * a[0]
    if fn == 'abs2':
        x = a[0]
        if isinstance(x, C):
            return x.re * x.re + x.im * x.im
        return x * x
    if fn == 'power':
        return a[0] ** a[1]
    if fn == 'where':
        return s_if(a[0], a[1], a[2])
    if fn in ('lt', 'le', 'gt', 'ge', 'eq', 'ne'):
        import operator
        return getattr(operator, fn)(a[0], a[1])
    if fn == 'and':
        return s_and(a[0], a[1])
    if fn == 'or':
        return s_or(a[0], a[1])
    if fn == 'not':
        return s_not(a[0])
    if fn in ('exp', 'log', 'lambertw'):
        return sfun(fn, a[0])
    if fn == 'complex':
        return C(a[0], a[1])
    if fn == 'lookup':
        return a[0].value(a[1:])
    raise Unsupported('pointwise function %s' % fn)
