"""Native replay of C08 obligations (conj/<kind>, moreau/*): the construction is rebuilt from concrete functionals whose conjugates are built in (L2NormSquared, Huber,
L1Norm) and checked for the Fenchel rule value h*(y) == rule(f*)(y), Fenchel-Young equality at y = grad h(x), biconjugate values and the Moreau decomposition
x == prox_{sigma h}(x) + sigma prox_{h*/sigma}(x / sigma)."""
import os
import sys


def _odl():
    root = os.environ.get('PYVC_REPO', '/repo')
    if root not in sys.path:
        sys.path.insert(0, root)
    import warnings
    warnings.filterwarnings('ignore')
    import odl
    import numpy as np
    return odl, np


def build(kind, odl, np, X, f, rng):
    S_ = odl.solvers
    t, u, v = [X.element(rng.standard_normal(X.size)) for _ in range(3)]
    v = X.element(np.abs(v.asarray()) + 0.5)
    fs = f.convex_conj
    if kind == 'left_scalar':
        return 1.7 * f, lambda y: 1.7 * fs(y / 1.7)
    if kind == 'right_scalar':
        return f * (-0.6), lambda y: fs(y / (-0.6))
    if kind == 'right_scalar_nested':
        return (f * 0.5) * 3.0, lambda y: fs(y / 1.5)
    if kind == 'right_vector':
        return f * v, lambda y: fs(y / v)
    if kind == 'scalar_sum':
        return f + 2.5, lambda y: fs(y) - 2.5
    if kind == 'translation':
        return f.translated(t), lambda y: fs(y) + y.inner(t)
    if kind == 'linear_perturb':
        return S_.FunctionalQuadraticPerturb(f, quadratic_coeff=0, linear_term=u, constant=0.3), lambda y: fs(y - u) - 0.3
    if kind == 'bregman':
        p = X.element(rng.standard_normal(X.size) + 2.0)
        sg = f.gradient(p)
        return S_.BregmanDistance(f, p, sg), lambda y: fs(y + sg) + f(p) - p.inner(sg)
    return None, None


def replay(ob):
    info = ob.get('info') or {}
    kind = info.get('kind')
    unit = ob.get('unit', '')
    if not (unit.startswith('conj/') and kind):
        return {'reproduced': False, 'detail': 'no native concretisation for this obligation kind'}
    odl, np = _odl()
    rng = np.random.default_rng(33)
    try:
        for X in (odl.rn(4), odl.uniform_discr(0, 2, 4)):
            S_ = odl.solvers
            for f in (S_.L2NormSquared(X), S_.Huber(X, 0.7), 0.5 * S_.L2NormSquared(X).translated(X.one())):
                h, rule = build(kind, odl, np, X, f, rng)
                if h is None:
                    return {'reproduced': False, 'detail': 'no native concretisation for the construction %s' % kind}
                hc = h.convex_conj
                for trial in range(3):
                    x = X.element(rng.standard_normal(X.size) * (0.3 if trial == 0 else 1.2))
                    y = h.gradient(x)
                    a, b = float(hc(y)), float(rule(y))
                    if np.isfinite(a) or np.isfinite(b):
                        if abs(a - b) > 1e-8 * max(1.0, abs(b)):
                            return {'reproduced': True, 'detail': '%s of %s on %r: convex_conj(y) = %r, the Fenchel rule gives %r (y = %r)' % (kind, type(f).__name__, X, a, b, y.asarray())}
                        fy = float(h(x)) + a - float(x.inner(y))
                        if abs(fy) > 1e-7 * max(1.0, abs(a)):
                            return {'reproduced': True, 'detail': '%s of %s on %r: Fenchel-Young gap h(x) + h*(grad h(x)) - <x, grad h(x)> = %r (x = %r)' % (kind, type(f).__name__, X, fy, x.asarray())}
                    try:
                        bi = float(hc.convex_conj(x))
                        if abs(bi - float(h(x))) > 1e-8 * max(1.0, abs(bi)):
                            return {'reproduced': True, 'detail': '%s of %s on %r: biconjugate value %r, h(x) = %r' % (kind, type(f).__name__, X, bi, float(h(x)))}
                    except NotImplementedError:
                        pass
                    for sigma in (0.6, 2.0):
                        try:
                            m = h.proximal(sigma)(x) + sigma * hc.proximal(1.0 / sigma)(x / sigma)
                        except NotImplementedError:
                            continue
                        if (m - x).norm() > 1e-8 * max(1.0, x.norm()):
                            return {'reproduced': True, 'detail': '%s of %s on %r: Moreau decomposition prox_{sigma h}(x) + sigma prox_{h*/sigma}(x/sigma) = %r for x = %r, sigma = %r'
                                    % (kind, type(f).__name__, X, m.asarray(), x.asarray(), sigma)}
    except Exception as e:
        return {'reproduced': 'no_raise' in ob.get('name', ''), 'detail': 'native evaluation raised %s: %s' % (type(e).__name__, e)}
    return {'reproduced': False, 'detail': 'Fenchel rule, Fenchel-Young, biconjugate and Moreau decomposition hold on the concretised instances'}
