"""A pool of concrete library operators whose `_call / adjoint / derivative` are outside the deductive units (tensor_ops, pspace_ops, diff_ops, discr_ops, ufunc_ops, transforms):
BOUNDED native stand-ins for C05 (adjoint identity), C06 (derivative vs central differences) and C10 (aliased call) run over it; never counted as proved."""
import os
import sys


def _odl():
    root = os.environ.get('PYVC_REPO', '/repo')
    if root not in sys.path:
        sys.path.insert(0, root)
    import warnings
    warnings.filterwarnings('ignore')
    import odl
    import numpy as np
    return odl, np


def pool():
    odl, np = _odl()
    X = odl.uniform_discr([0, 0], [1, 2], (3, 4))
    Xb = odl.uniform_discr([0, 0], [1, 2], (3, 4), nodes_on_bdry=True)
    Xc = odl.uniform_discr([0, 0], [1, 2], (3, 4), dtype='complex128')
    R = odl.rn((2, 3))
    r3 = odl.rn(3)
    w3 = odl.rn(3, weighting=[1.0, 2.0, 3.0])
    W2 = odl.ProductSpace(X, 2, weighting=[2.0, 3.0])
    M = np.arange(6.0).reshape(2, 3) - 2.0
    ps = {
        'FlatteningOperator': lambda: odl.FlatteningOperator(R), 'FlatteningOperator(F)': lambda: odl.FlatteningOperator(R, order='F'),
        'FlatteningOperator.inverse': lambda: odl.FlatteningOperator(R).inverse,
        'MatrixOperator': lambda: odl.MatrixOperator(M, r3), 'MatrixOperator(weighted)': lambda: odl.MatrixOperator(M, w3, odl.rn(2, weighting=[2.0, 0.5])),
        'MatrixOperator(axis=1)': lambda: odl.MatrixOperator(M, odl.rn((2, 3)), axis=1),
        'SamplingOperator': lambda: odl.SamplingOperator(R, [[0, 1], [1, 2]]), 'SamplingOperator(integrate)': lambda: odl.SamplingOperator(X, [[0, 1], [1, 2]], variant='integrate'),
        'WeightedSumSamplingOperator': lambda: odl.WeightedSumSamplingOperator(R, [[0, 1], [1, 2]]),
        'WeightedSumSamplingOperator(dirac)': lambda: odl.WeightedSumSamplingOperator(X, [[0, 1], [1, 2]], variant='dirac'),
        'PointwiseNorm': lambda: odl.PointwiseNorm(X ** 2), 'PointwiseNorm(p=1.5, weighted)': lambda: odl.PointwiseNorm(X ** 2, exponent=1.5, weighting=[1.0, 3.0]),
        'PointwiseInner': lambda: odl.PointwiseInner(X ** 2, (X ** 2).element([X.one(), 2 * X.one()])),
        'PointwiseInner(weighted space)': lambda: odl.PointwiseInner(W2, W2.element([X.one(), 2 * X.one()])),
        'PointwiseInner(complex)': lambda: odl.PointwiseInner(Xc ** 2, (Xc ** 2).element([(1 + 2j) * Xc.one(), 1j * Xc.one()])),
        'PointwiseSum': lambda: odl.PointwiseSum(X ** 2, weighting=[1.0, 2.0]),
        'ComponentProjection': lambda: odl.ComponentProjection(r3 * w3, 1), 'ComponentProjectionAdjoint': lambda: odl.ComponentProjection(r3 * w3, 1).adjoint,
        'BroadcastOperator': lambda: odl.BroadcastOperator(odl.IdentityOperator(r3), odl.ScalingOperator(r3, 2.0)),
        'ReductionOperator': lambda: odl.ReductionOperator(odl.IdentityOperator(r3), odl.ScalingOperator(r3, 2.0)),
        'DiagonalOperator': lambda: odl.DiagonalOperator(odl.IdentityOperator(r3), odl.ScalingOperator(r3, 2.0)),
        'ProductSpaceOperator': lambda: odl.ProductSpaceOperator([[odl.IdentityOperator(r3), odl.ScalingOperator(r3, 2.0)], [None, odl.MatrixOperator(np.eye(3) * 3, r3)]]),
        'ProductSpaceOperator.adjoint': lambda: odl.ProductSpaceOperator([[odl.IdentityOperator(r3), odl.ScalingOperator(r3, 2.0)], [odl.ScalingOperator(r3, -1.0), odl.MatrixOperator(np.eye(3) * 3, r3)]]).adjoint,
        'PartialDerivative': lambda: odl.PartialDerivative(X, 0), 'PartialDerivative(bdry, central, order1)': lambda: odl.PartialDerivative(Xb, 1, method='central', pad_mode='order1'),
        'Gradient': lambda: odl.Gradient(X), 'Gradient(symmetric)': lambda: odl.Gradient(X, pad_mode='symmetric'), 'Divergence': lambda: odl.Divergence(range=X),
        'Laplacian': lambda: odl.Laplacian(X), 'Laplacian(symmetric)': lambda: odl.Laplacian(X, pad_mode='symmetric'),
        'ResizingOperator': lambda: odl.ResizingOperator(X, ran_shp=(5, 6)), 'ResizingOperator(symmetric)': lambda: odl.ResizingOperator(X, ran_shp=(5, 2), pad_mode='symmetric'),
        'Resampling': lambda: odl.Resampling(X, odl.uniform_discr([0, 0], [1, 2], (6, 3)), 'linear'),
        'RealPart': lambda: odl.RealPart(odl.cn(3)), 'ImagPart': lambda: odl.ImagPart(odl.cn(3)), 'ComplexEmbedding': lambda: odl.ComplexEmbedding(r3, scalar=1 + 2j),
        'ComplexModulus': lambda: odl.ComplexModulus(odl.cn(3)), 'ComplexModulusSquared': lambda: odl.ComplexModulusSquared(odl.cn(3)),
        'PowerOperator': lambda: odl.PowerOperator(r3, 3), 'InnerProductOperator': lambda: odl.InnerProductOperator(w3.element([1.0, -2.0, 0.5])),
        'NormOperator': lambda: odl.NormOperator(w3), 'DistOperator': lambda: odl.DistOperator(w3.element([1.0, -2.0, 0.5])),
        'MultiplyOperator': lambda: odl.MultiplyOperator(w3.element([1.0, -2.0, 0.5])),
        'MultiplyOperator(base-space field on a power space)': lambda: odl.MultiplyOperator(X.element(np.arange(12.0).reshape(3, 4) - 5.0), domain=X ** 2, range=X ** 2),
        'MultiplyOperator(scalar)': lambda: odl.MultiplyOperator(2.5, domain=r3, range=r3), 'MultiplyOperator(array)': lambda: odl.MultiplyOperator(np.array([1.0, -2.0, 0.5]), domain=r3, range=r3),
        'OperatorRightScalarMult(Laplacian)': lambda: odl.operator.operator.OperatorRightScalarMult(odl.Laplacian(X, pad_mode='symmetric'), 2.0),
        'OperatorSum(Laplacian, PartialDerivative)': lambda: odl.Laplacian(X) + odl.PartialDerivative(X, 1, pad_mode='constant', pad_const=1.5), 'ZeroOperator': lambda: odl.ZeroOperator(r3, w3), 'ConstantOperator': lambda: odl.ConstantOperator(w3.one(), r3),
        'DiscreteFourierTransform': lambda: odl.trafos.DiscreteFourierTransform(odl.uniform_discr([0, 0], [1, 2], (3, 4), dtype='complex128')),
        'DiscreteFourierTransform(halfcomplex)': lambda: odl.trafos.DiscreteFourierTransform(odl.uniform_discr([0, 0], [1, 2], (3, 4)), halfcomplex=True),
        'FourierTransform': lambda: odl.trafos.FourierTransform(odl.uniform_discr([-1, 0], [1, 2], (3, 4), dtype='complex128')),
        'WaveletTransform': lambda: odl.trafos.WaveletTransform(odl.uniform_discr([0, 0], [1, 2], (4, 8)), 'db2', nlevels=1, pad_mode='pywt_periodic'),
    }
    for name in ('sin', 'exp', 'square', 'absolute', 'negative', 'cosh', 'arctan'):
        if hasattr(odl.ufunc_ops, name):
            ps['ufunc_ops.' + name] = (lambda name=name: getattr(odl.ufunc_ops, name)(r3))
    return ps


def rand(space, rng, odl, np, lo=0.5, hi=2.0, signed=False):
    if isinstance(space, odl.ProductSpace):
        return space.element([rand(s, rng, odl, np, lo, hi, signed) for s in space.spaces])
    if isinstance(space, odl.set.sets.Field):
        return float(rng.uniform(lo, hi))
    a = rng.uniform(lo, hi, space.shape)
    if signed:
        a = a * rng.choice([-1.0, 1.0], size=space.shape)
    if getattr(space, 'is_complex', False):
        a = a + 1j * rng.uniform(lo, hi, space.shape)
    return space.element(a)


def _inner(space, a, b, odl):
    return a * b if isinstance(space, odl.set.sets.Field) else a.inner(b)


def check_adjoint(name):
    """<A x, y> == <x, A.adjoint y> (real part for operators between a real and a complex space) and the adjoint of the adjoint acts like A"""
    odl, np = _odl()
    rng = np.random.default_rng(31)
    op = pool()[name]()
    if not op.is_linear:
        return None, 'not linear'
    if name.startswith('Resampling'):
        return None, 'documented as approximate adjoint (exempt)'
    try:
        adj = op.adjoint
    except (NotImplementedError, odl.operator.OpNotImplementedError):
        return None, 'no adjoint implemented'
    for _ in range(3):
        x, y = rand(op.domain, rng, odl, np, signed=True), rand(op.range, rng, odl, np, signed=True)
        lhs, rhs = _inner(op.range, op(x), y, odl), _inner(op.domain, x, adj(y), odl)
        mixed = getattr(op.domain, 'is_real', True) != getattr(op.range, 'is_real', True)
        if mixed:
            lhs, rhs = np.real(lhs), np.real(rhs)
        if abs(lhs - rhs) > 1e-9 * max(1.0, abs(lhs)):
            return '<A x, y> = %r but <x, A.adjoint y> = %r' % (lhs, rhs), None
        try:
            aa = adj.adjoint(x)
        except (NotImplementedError, odl.operator.OpNotImplementedError):
            continue
        d = aa - op(x)
        nd = abs(d) if isinstance(op.range, odl.set.sets.Field) else d.norm()
        if nd > 1e-9:
            return 'A.adjoint.adjoint(x) differs from A(x) by %r' % nd, None
    return None, None


def check_derivative(name):
    """derivative(x)(d) against central differences of the operator"""
    odl, np = _odl()
    rng = np.random.default_rng(32)
    op = pool()[name]()
    if not getattr(op.domain, 'is_real', True) or not getattr(op.range, 'is_real', True):
        return None, 'complex spaces: not differentiated here'
    for _ in range(3):
        x, d = rand(op.domain, rng, odl, np, signed=True), rand(op.domain, rng, odl, np, signed=True)
        try:
            D = op.derivative(x)
        except (NotImplementedError, odl.operator.OpNotImplementedError):
            return None, 'no derivative implemented'
        got = D(d)
        errs = []
        for h in (1e-3, 1e-4):
            fd = (op(x + h * d) - op(x - h * d)) / (2 * h)
            e = got - fd
            errs.append(abs(e) if isinstance(op.range, odl.set.sets.Field) else e.norm())
        scale = max(1.0, abs(got) if isinstance(op.range, odl.set.sets.Field) else got.norm())
        if errs[1] > 1e-5 * scale:
            return 'derivative(x)(d) differs from central differences by %r (h = 1e-4; %r for h = 1e-3)' % (errs[1], errs[0]), None
    return None, None


def check_alias(name):
    """op(x, out=x) leaves op(x) in x (operators with domain == range)"""
    odl, np = _odl()
    rng = np.random.default_rng(33)
    op = pool()[name]()
    if op.domain != op.range or isinstance(op.domain, odl.set.sets.Field):
        return None, 'domain != range'
    for _ in range(3):
        x = rand(op.domain, rng, odl, np, signed=True)
        want = op(x.copy())
        try:
            ret = op(x, out=x)
        except Exception as e:
            return 'op(x, out=x) raised %s: %s' % (type(e).__name__, str(e)[:120]), None
        if ret is not x or (x - want).norm() > 1e-9 * max(1.0, want.norm()):
            return 'op(x, out=x) leaves %r in x, op(x) is %r' % (x, want), None
    return None, None
