"""Native search for a failing input of a C17 obligation: the configuration of the obligation's unit (ufunc method, kind of out, result
dtype kind, dtype keyword) is run with real NumPy ufuncs on real NumpyTensor elements and compared with NumPy on the underlying arrays
(values, result space class / shape / dtype / weighting, identity and content of out, shared memory of wrapped arrays)."""
import os
import sys


def _odl():
    root = os.environ.get('PYVC_REPO', '/repo')
    if root not in sys.path:
        sys.path.insert(0, root)
    import warnings
    warnings.filterwarnings('ignore')
    import odl
    import numpy as np
    return odl, np


def run_config(method, outk, reskind, dtype_kw):
    odl, np = _odl()
    rng = np.random.default_rng(3)
    problems = []
    for sp in (odl.rn((3, 4)), odl.rn((3, 4), weighting=2.0, exponent=1.5), odl.rn(5, dtype='float32')):
        a, b = rng.uniform(0.5, 2.0, sp.shape).astype(sp.dtype), rng.uniform(0.5, 2.0, sp.shape).astype(sp.dtype)
        x, y = sp.element(a.copy()), sp.element(b.copy())
        m = '__call__' if method.startswith('__call__') else method
        if method == '__call__2':
            ufs = [np.frexp, np.modf]
        elif reskind == 'float':
            ufs = [np.add, np.multiply] if m != '__call__' else [np.add, np.sqrt, np.arctan2]
        else:
            ufs = [np.greater, np.less_equal] if m in ('__call__', 'outer') else [np.logical_and]
        for uf in ufs:
            if m != '__call__' and uf.nin != 2:
                continue
            kw = {}
            if m in ('reduce', 'accumulate'):
                kw['axis'] = sp.ndim - 1
            if dtype_kw and reskind == 'float' and method != '__call__2':
                kw['dtype'] = 'float32'            # as in the symbolic configuration: a dtype keyword that differs from float64
            try:
                if m == '__call__':
                    ins_e, ins_a = ([x, y], [a, b]) if uf.nin == 2 else ([x], [a])
                    if outk == 'ndarray' and uf.nin == 2:
                        ins_e, ins_a = [b, x], [b, a]
                    f_e, f_a = uf, uf
                elif m == 'at':
                    ref = a.copy()
                    uf.at(ref, (0,), 2.5)
                    xx = sp.element(a.copy())
                    r = uf.at(xx, (0,), 2.5)
                    if r is not None or not np.array_equal(xx.asarray(), ref):
                        problems.append('%s.at on an element differs from NumPy on the array' % uf.__name__)
                    continue
                elif m == 'reduceat':
                    ins_e, ins_a = [x, [0, 1]], [a, [0, 1]]
                    f_e = f_a = uf.reduceat
                else:
                    ins_e, ins_a = ([x, b] if m == 'outer' else [x]), ([a, b] if m == 'outer' else [a])
                    f_e = f_a = getattr(uf, m)
                ref = f_a(*ins_a, **kw)
                refs = ref if isinstance(ref, tuple) else (ref,)
                if outk == 'none':
                    res = f_e(*ins_e, **kw)
                    ress = res if isinstance(res, tuple) else (res,)
                    for j, (r, rr) in enumerate(zip(ress, refs)):
                        if np.isscalar(rr) or np.ndim(rr) == 0:
                            if not np.allclose(r, rr):
                                problems.append('%s.%s scalar result differs' % (uf.__name__, m))
                            continue
                        if not isinstance(r, type(x)):
                            problems.append('%s.%s result %d is %r, not a %s' % (uf.__name__, m, j, type(r), type(x).__name__))
                            continue
                        if not np.array_equal(r.asarray(), rr) or r.shape != rr.shape or r.dtype != rr.dtype:
                            problems.append('%s.%s result %d: values / shape / dtype differ from NumPy (%r %r vs %r %r)' % (uf.__name__, m, j, r.shape, r.dtype, rr.shape, rr.dtype))
                        if type(r.space) is not type(sp):
                            problems.append('%s.%s result space class %r' % (uf.__name__, m, type(r.space)))
                        if np.issubdtype(rr.dtype, np.floating) and uf.nout == 1:
                            if r.shape == sp.shape and not (r.space.weighting == sp.weighting):
                                problems.append('%s.%s floating result of unchanged shape lost the weighting: %r vs %r' % (uf.__name__, m, r.space.weighting, sp.weighting))
                            if r.space.exponent != sp.exponent:
                                problems.append('%s.%s floating result lost the exponent' % (uf.__name__, m))
                else:
                    outs_e, outs_a = [], []
                    for rr in refs:
                        odt = rr.dtype
                        if np.issubdtype(rr.dtype, np.floating) and dtype_kw:
                            odt = 'float64' if dtype_kw == 'match' else 'float32'       # 'match': out has the ufunc's natural dtype, the dtype keyword differs
                        arr = np.zeros(np.shape(rr), dtype=odt)
                        outs_a.append(arr)
                        outs_e.append(odl.tensor_space(arr.shape, dtype=arr.dtype).element(arr) if outk == 'element' else arr)
                    if any(np.ndim(o) == 0 for o in outs_a):
                        continue
                    out_arg = tuple(outs_e) if len(outs_e) > 1 else outs_e[0]
                    res = f_e(*ins_e, out=out_arg, **kw)
                    ress = res if isinstance(res, tuple) else (res,)
                    for j, (r, o, rr) in enumerate(zip(ress, outs_e, refs)):
                        if r is not o:
                            problems.append('%s.%s out %d: returned object is not the given out' % (uf.__name__, m, j))
                        got = np.asarray(o)
                        if not np.allclose(got, rr.astype(got.dtype)):
                            problems.append('%s.%s out %d (%s, dtype kw %r): content %r differs from NumPy result %r' % (uf.__name__, m, j, outk, kw.get('dtype'), got.ravel()[:4], rr.ravel()[:4]))
            except Exception as e:
                # NumPy itself may refuse a combination (casting rules): compare with NumPy on arrays
                try:
                    f_a(*ins_a, **kw)
                    problems.append('%s.%s raised %s: %s on elements but not on arrays' % (uf.__name__, m, type(e).__name__, e))
                except Exception:
                    pass
            if problems:
                return problems
    return problems


def run_discr(method, outk):
    odl, np = _odl()
    rng = np.random.default_rng(4)
    pr = []
    X = odl.uniform_discr([0, 0], [1, 2], (3, 4), dtype='float32')
    Yc = odl.uniform_discr([0, 0], [1, 2], (3, 4), dtype='complex128')
    a = rng.uniform(0.5, 2, X.shape).astype('float32')
    b = (rng.uniform(0.5, 2, X.shape) + 1j * rng.uniform(0.5, 2, X.shape))
    x, y = X.element(a.copy()), Yc.element(b.copy())
    m = '__call__' if method.startswith('__call__') else method
    try:
        if m == 'outer':
            r, ref = np.add.outer(x, y), np.add.outer(a, b)
            if r.dtype != ref.dtype or not np.allclose(r.asarray(), ref) or r.shape != ref.shape:
                pr.append('np.add.outer(float32 element, complex128 element): dtype %r shape %r, NumPy gives dtype %r shape %r (values equal: %r)' % (
                    r.dtype, r.shape, ref.dtype, ref.shape, bool(np.allclose(np.asarray(r.asarray(), dtype=ref.dtype), ref))))
        if m in ('accumulate', '__call__') and outk in ('element', 'tensor', 'ndarray'):
            X64 = odl.uniform_discr([0, 0], [1, 2], (3, 4))
            x64 = X64.element(a.astype('float64'))
            out = X64.element() if outk == 'element' else (X64.tspace.element() if outk == 'tensor' else np.empty(X64.shape))
            res = np.add.accumulate(x64, axis=0, out=out) if m == 'accumulate' else np.add(x64, x64, out=out)
            ref = np.add.accumulate(a.astype('float64'), axis=0) if m == 'accumulate' else 2 * a.astype('float64')
            if res is not out:
                pr.append('np.add%s(..., out=<%s>): the returned object is not the given out (got %s)' % ('.accumulate' if m == 'accumulate' else '', outk, type(res).__name__))
            if not np.allclose(np.asarray(out), ref):
                pr.append('out content differs from NumPy')
    except Exception as e:
        pr.append('raised %s: %s' % (type(e).__name__, e))
    return pr


def reduce_native_cases():
    """(case, failure-or-None): ufunc.reduce on tensor and discretized elements with integer, negative and tuple axes (2 and 3 axes), with and without out,
    against NumPy on the underlying arrays: values, shape, dtype; for discretized elements the sub-space keeps the cell sides of the remaining axes"""
    odl, np = _odl()
    rng = np.random.default_rng(6)
    spaces = [odl.rn((3, 4)), odl.rn((2, 3, 4)), odl.uniform_discr([0, 0], [1, 2], (3, 4)), odl.uniform_discr([0, 0, 0], [1, 2, 3], (2, 3, 4)), odl.uniform_discr([0, 0], [1, 2], (3, 4), dtype='float32')]
    for sp in spaces:
        x = sp.element(rng.uniform(0.5, 2.0, sp.shape))
        arr = x.asarray()
        nd = sp.ndim
        axes = [None, 0, nd - 1, -1, -nd, (0,), (nd - 1,), (-1,), tuple(range(nd))] + ([(0, 2), (1, 2), (0, -1)] if nd == 3 else [])
        for uf in (np.add, np.maximum, np.multiply):
            for ax in axes:
                case = {'space': repr(sp), 'ufunc': uf.__name__, 'axis': repr(ax)}
                kw = {} if ax is None else {'axis': ax}
                ref = uf.reduce(arr, **kw)
                try:
                    got = uf.reduce(x, **kw)
                except Exception as e:
                    yield case, 'np.%s.reduce(x, axis=%r) with x in %r raised %s: %s - NumPy on the array gives shape %r' % (uf.__name__, ax, sp, type(e).__name__, e, np.shape(ref))
                    continue
                bad = None
                if np.shape(got) != np.shape(ref) or not np.allclose(np.asarray(got), ref) or np.asarray(got).dtype != np.asarray(ref).dtype:
                    bad = 'np.%s.reduce(x, axis=%r) with x in %r: %r (%s), NumPy gives %r (%s)' % (uf.__name__, ax, sp, np.asarray(got), np.asarray(got).dtype, ref, np.asarray(ref).dtype)
                elif isinstance(sp, odl.DiscretizedSpace) and hasattr(got, 'space') and isinstance(got.space, odl.DiscretizedSpace):
                    keep = [i for i in range(nd) if i not in tuple(a % nd for a in ((0,) if ax is None else ((ax,) if isinstance(ax, int) else ax)))]
                    if not np.allclose(got.space.cell_sides, sp.cell_sides[keep]):
                        bad = 'np.%s.reduce(x, axis=%r): the result lives on cell sides %r, the remaining axes have %r' % (uf.__name__, ax, got.space.cell_sides, sp.cell_sides[keep])
                yield case, bad


def replay(ob):
    cfg = ob.get('config') or {}
    unit = ob['unit']
    odl, np = _odl()
    if unit.startswith('reduce-native/'):
        want = ob.get('model') or (ob.get('replay') or {}).get('case')
        for case, bad in reduce_native_cases():
            if case == want:
                return {'reproduced': bool(bad), 'detail': bad or 'holds natively', 'input': case}
        return {'reproduced': False, 'detail': 'case not found'}
    if not unit.startswith('element/') and any(k in ob.get('name', '') for k in ('no copy', 'wraps', 'shares')):
        r = replay(dict(ob, unit='element/wrapping', name=''))        # obligations about wrapping without copy: the element-factory checks (strided views) first
        if r.get('reproduced'):
            return r
    if unit.startswith('legacy-pspace/'):
        pr = []
        r2 = odl.rn(2)
        for sp in (r2 ** 2, r2 ** 3, (r2 ** 2) ** 2, (r2 ** 2) ** 3, (r2 ** 3) ** 2):
            rng = np.random.default_rng(8)
            x = sp.element(rng.uniform(0.5, 2.0, sp.shape))
            others = [('member', sp.element(rng.uniform(0.5, 2.0, sp.shape))), ('factor element', sp[0].element(rng.uniform(0.5, 2.0, sp[0].shape))), ('scalar', 1.5)]
            for label, x2 in others:
                want = np.add(x.asarray(), np.asarray(x2))
                try:
                    got = x.ufuncs.add(x2)
                    out = sp.element()
                    got2 = x.ufuncs.add(x2, out=out)
                except Exception as e:
                    pr.append('%r: x.ufuncs.add(<%s>) raised %s: %s' % (sp, label, type(e).__name__, e))
                    continue
                if not np.allclose(got.asarray(), want) or got2 is not out or not np.allclose(out.asarray(), want):
                    pr.append('%r: x.ufuncs.add(<%s>) = %r (out: %r), NumPy on the arrays gives %r' % (sp, label, got.asarray().tolist(), out.asarray().tolist(), want.tolist()))
            if not np.allclose(x.ufuncs.sqrt().asarray(), np.sqrt(x.asarray())):
                pr.append('%r: x.ufuncs.sqrt() differs from NumPy' % (sp,))
        return {'reproduced': bool(pr), 'detail': '; '.join(pr[:2]) or 'legacy product-space ufuncs agree with NumPy on the arrays natively'}
    if unit.startswith('dispatch/discr'):
        pr = run_discr(cfg.get('method'), cfg.get('out'))
        return {'reproduced': bool(pr), 'detail': '; '.join(pr[:3]) or 'agrees with NumPy natively', 'input': cfg}
    if unit.startswith('dispatch/tensor'):
        pr = run_config(cfg.get('method'), cfg.get('out'), cfg.get('result'), cfg.get('dtype_kw'))
        return {'reproduced': bool(pr), 'detail': '; '.join(pr[:3]) or 'agrees with NumPy on the native pool', 'input': cfg}
    if unit.startswith('element/'):
        sp = odl.rn((2, 3))
        arr = np.arange(6.0).reshape(2, 3)
        x = sp.element(arr)
        pr = []
        if not np.shares_memory(arr, x.asarray()) or x.asarray() is not arr:
            pr.append('element(arr) of matching dtype / shape does not wrap arr itself')
        # strided / reversed / transposed views of matching dtype and shape are wrapped without copy, and writes through the element reach the buffer
        for label, view in (('reversed rows', np.arange(6.0).reshape(2, 3)[::-1]), ('reversed columns', np.arange(6.0).reshape(2, 3)[:, ::-1]),
                            ('every second column', np.arange(12.0).reshape(2, 6)[:, ::2]), ('transposed', np.arange(6.0).reshape(3, 2).T)):
            e = sp.element(view)
            if not np.shares_memory(view, e.asarray()):
                pr.append('element(<%s view>) copies instead of wrapping the array' % label)
                continue
            base = view.base.copy()
            np.sqrt(sp.one() * 4.0, out=e)
            if np.array_equal(view.base, base):
                pr.append('np.sqrt(x, out=element(<%s view>)) did not write into the caller\'s buffer' % label)
        if sp.element(x) is not x:
            pr.append('element(x) of a member is not x')
        if sp.element(arr.astype('float32')).dtype != sp.dtype:
            pr.append('element of another dtype is not converted')
        try:
            sp.element(np.zeros((3, 2)))
            pr.append('element of another shape does not raise')
        except ValueError:
            pass
        return {'reproduced': bool(pr), 'detail': '; '.join(pr) or 'element factory behaves as claimed natively'}
    if unit.startswith('errors/'):
        x = odl.rn(3).one()
        pr = []
        try:
            np.add(x, x, out=(np.zeros(3), np.zeros(3)))
            pr.append('two out arguments accepted')
        except (ValueError, TypeError):
            pass
        return {'reproduced': bool(pr), 'detail': '; '.join(pr) or 'errors as claimed natively'}
    return {'reproduced': False, 'detail': 'no native concretisation for this obligation kind'}
