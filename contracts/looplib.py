"""Loop contracts for the solver loops `for _ in range(niter)` with a symbolic iteration count.

The loop is never unrolled.  The handler installed on the state runs in one of two modes:

'init'   record the loop-head state reached by the pre-loop code, execute zero iterations and let the
         function finish (initiation of the invariant, and the post-loop code on the niter == 0 path)
'step'   replace the loop-head state by a *generic* one chosen by the contract (`havoc`: the exposed algorithm
         state becomes fresh vector variables, every other buffer the body writes becomes unconstrained junk
         unless the contract gives it a private invariant), bind the loop variable to a generic index
         0 <= k < niter, execute the body of the real loop exactly once, record the state, and let the function
         finish as if the loop had ended (consecution, and the post-loop code)

The contract must declare every object the body mutates: after the body the handler compares the content of
every reachable element with its loop-head content and reports an undeclared loop-carried buffer as
unsupported (the contract has to be extended; never a violation)."""
import ast

import z3

from pyvc import core, interp as ip
from pyvc.core import S, C, V, VVar, VFresh, Unsupported
from contracts.lib import content, set_content


def is_elem(o):
    return isinstance(o, ip.Obj) and (hasattr(o, 'content') or hasattr(o, 'buf'))


def reachable_elems(vals):
    seen, out, stack = set(), [], list(vals)
    while stack:
        v = stack.pop()
        if id(v) in seen:
            continue
        seen.add(id(v))
        if is_elem(v):
            out.append(v)
        elif isinstance(v, (list, tuple, set, frozenset)):
            stack.extend(v)
        elif isinstance(v, dict):
            stack.extend(v.values())
        elif isinstance(v, ip.GenList):
            stack.extend(v.items)
    return out


def assigned_names(body):
    names = set()
    for s in body:
        for n in ast.walk(s):
            if isinstance(n, ast.Name) and isinstance(n.ctx, (ast.Store, ast.Del)):
                names.add(n.id)
    return names


class Ghost(object):
    """ghost callback: records (object, content at call time) of every call"""

    def __init__(self):
        self.calls = []

    def pv_call(self, I, fr, args, kwargs):
        a = args[0] if args else None
        self.calls.append((a, content(a) if is_elem(a) else a, len(args), dict(kwargs)))
        return None


class LoopRun(object):
    """result of running a function with a loop contract"""

    def __init__(self):
        self.head = None          # env at the loop head (after havoc in step mode)
        self.head_content = {}    # id(elem) -> content at the loop head
        self.post = None          # env after one body execution
        self.post_content = {}
        self.k = None
        self.body_exit = None     # None | 'break' | 'return' | 'continue'
        self.calls_before = 0
        self.calls_after = 0
        self.loops = 0
        self.ret = None


def snapshot(env, extra=()):
    return {id(e): content(e) for e in reachable_elems(list(env.values()) + list(extra))}


def run_with_loop(I, st, fr, func, args, kwargs, mode, havoc=None, ghost=None, declared=None, extra_roots=(), allow_no_loop=False, readonly=()):
    """havoc(env, fr, run): step mode, sets the generic loop-head state; declared(env) -> list of objects the
    contract allows the body to mutate"""
    run = LoopRun()

    def handler(I_, fr_, node, env, rng):
        run.loops += 1
        if run.loops > 1:
            raise Unsupported('second symbolic loop in the function (one loop contract per function)')
        n_it = rng.stop - rng.start if not (isinstance(rng.start, int) and rng.start == 0) else rng.stop
        loc = env.vars
        run.n_it = n_it
        if mode == 'init':
            run.head = dict(loc)
            run.head_content = snapshot(loc, extra_roots)
            run.calls_before = len(ghost.calls) if ghost else 0
            run.calls_after = run.calls_before
            # zero iterations: the else-branch of the loop and the rest of the function run
            I_.exec_block(node.orelse, env, fr_)
            return
        k = S(z3.Int('k_iter'))
        fr_.st.assume(k >= 0)
        fr_.st.assume(k < core.S.lift(n_it) if isinstance(n_it, S) else k < n_it)
        run.k = k
        # scalars assigned in the body are loop-carried unless re-assigned before use: make them arbitrary
        for nm in assigned_names(node.body):
            if nm in loc and isinstance(loc[nm], (S, float, int)) and not isinstance(loc[nm], bool) and nm not in getattr(havoc, 'keep_scalars', ()):
                loc[nm] = S(z3.Real('junk_' + nm))
        if havoc is not None:
            havoc(loc, fr_, run)
        run.head = dict(loc)
        roots = list(loc.values()) + list(extra_roots)
        before = {id(e): (e, content(e)) for e in reachable_elems(roots)}
        run.head_content = {i: c for i, (e, c) in before.items()}
        run.calls_before = len(ghost.calls) if ghost else 0
        I_.assign(node.target, k, env, fr_)
        try:
            I_.exec_block(node.body, env, fr_)
        except ip._Break:
            run.body_exit = 'break'
        except ip._Continue:
            run.body_exit = 'continue'
        except ip._Return as r:
            run.body_exit = 'return'
            run.post = dict(loc)
            run.post_content = snapshot(loc, extra_roots)
            run.calls_after = len(ghost.calls) if ghost else 0
            raise
        run.post = dict(loc)
        run.post_content = snapshot(loc, extra_roots)
        run.calls_after = len(ghost.calls) if ghost else 0
        if declared is not None:
            ok = set(id(o) for o in reachable_elems(declared(run.head)))
            for i, (e, c) in before.items():
                if content(e) is not c and i not in ok:
                    if any(e is r for r in readonly):
                        continue        # caller-owned read-only data: the unit's own frame obligation reports the write (a violation, not a contract gap)
                    raise Unsupported('loop body writes a buffer the loop contract does not declare (%s)' % getattr(e, 'ename', '?'))
        # the function finishes as if the loop were over (post-loop code)
        if run.body_exit != 'break':
            I_.exec_block(node.orelse, env, fr_)

    st.loop_handler = handler
    try:
        run.ret = I.call(func, list(args), dict(kwargs), fr)
    finally:
        st.loop_handler = None
    if run.loops == 0 and not allow_no_loop:
        raise Unsupported('no loop over a symbolic range was reached')
    return run


class PathCut(Exception):
    """the rest of this path is covered by the induction hypothesis of a loop contract"""


def while_contract(st, havoc, on_entry=None, on_backedge=None, match=None):
    """Loop contract for a `while` loop (inductive, unbounded): at the loop the handler
       1. calls on_entry(loc, fr)      - the contract records the initiation obligations of its invariant
       2. calls havoc(loc, fr)         - every variable the body assigns becomes arbitrary, the invariant is assumed
       3. evaluates the loop test; if false the loop is left (else-branch runs)
       4. executes the real body once: break -> the code after the loop runs on the generic state;
          fall through / continue -> on_backedge(loc, fr) records the consecution obligations and the path ends
          (every later iteration starts in a state the havoc already covers)
    exceptions raised by the body propagate as usual."""
    def handler(I, fr, node, env):
        if match is not None and not match(node):
            return NotImplemented
        loc = env.vars
        if on_entry is not None:
            on_entry(loc, fr)
        havoc(loc, fr)
        if not I.truth(I.eval(node.test, env, fr), fr):
            I.exec_block(node.orelse, env, fr)
            return None
        try:
            I.exec_block(node.body, env, fr)
        except ip._Break:
            return None
        except ip._Continue:
            pass
        if on_backedge is not None:
            on_backedge(loc, fr)
        raise PathCut()
    st.while_handler = handler


class PermOracle(object):
    """ghost model of np.random.permutation: the permutation drawn in a sweep is arbitrary (the path forks over all
    m! orders) but a fixed function of the sweep number, so two runs consulting the oracle see the same draw"""

    def __init__(self, m):
        import itertools
        self.m = m
        self.perms = list(itertools.permutations(range(m)))
        self.calls = 0
        self.order = None

    def __call__(self, I, fr, arg, *a, **k):
        items = list(I.iterate(arg, fr))
        self.calls += 1
        if len(items) != self.m:
            raise Unsupported('permutation of an unexpected length')
        if self.order is None:
            self.order = self.perms[-1]
            for j, pm in enumerate(self.perms[:-1]):
                if I.truth(S(z3.Bool('perm_is_%d' % j)), fr):
                    self.order = pm
                    break
        return [items[i] for i in self.order]
