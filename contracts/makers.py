"""Instance makers: how to build an instance of each operator class under contract with symbolic
parameters, through its *real* constructor / factory.  Each maker returns
dict(inst, domb, ranb, stored, field, expected(optional spec of op(x) as a function of the x term))."""
import z3

from pyvc import core, interp as ip, odlmodel as om
from pyvc.core import S, C, V, VVar, VConst, VFresh, VLin, VPw, Unsupported
from contracts import lib, oplib, tlib
from contracts.lib import content
from contracts.oplib import OP, AbsOp, FieldSpec

PROX = 'odl.solvers.nonsmooth.proximal_operators:'
DOPS = 'odl.operator.default_ops:'


def pos_scalar(st, name):
    s = S(z3.Real(name))
    st.assume(s > 0)
    return s


def tspace(I, st, name='X', field='real'):
    X = tlib.TSpace(I, name, field)
    for c in X.constraints():
        st.assume(c)
    return X


def pos_elem(st, X, name):
    e = X.element(name)
    st.assume(st.lower(content(e)) > 0)
    return e


# ---- proximal operators -------------------------------------------------------------------------

_SIMPLEX_SYMS = {}


def proj_simplex_contract(I, fr, x, diameter=1, out=None):
    """contract of proj_simplex (sort / cumsum / argwhere code, not interpreted): `out` (a new element if None) receives a value that is a FUNCTION
    of the values of x and of the diameter only; x is not written unless it is out"""
    if out is None:
        out = tlib.builder(I._getattr(x, 'space', fr)).element()
    key = core.skey(diameter)
    sym = _SIMPLEX_SYMS.setdefault(key, core.OpSym('proj_simplex[%s]' % (key,)))
    lib.set_content(out, core.VApp(sym, (content(x),), 'real'))
    fr.st.events.append(('write', out))
    return out


def prox_maker(factory, field='real', g=False, sigma='scalar', extra=None):
    def make(I, st, fr):
        X = tspace(I, st, 'X', field)
        f = I.get_func(PROX + factory)
        stored = {}
        kw = {}
        args = [X.space]
        gv = None
        if g:
            gv = stored['g'] = X.element('g')
        lam = pos_scalar(st, 'lam')
        if factory in ('proximal_l2', 'proximal_l1', 'proximal_convex_conj_l1', 'proximal_l2_squared', 'proximal_convex_conj_l2_squared',
                       'proximal_convex_conj_kl', 'proximal_convex_conj_kl_cross_entropy'):
            kw = {'lam': lam, 'g': gv}
        elif factory == 'proximal_huber':
            kw = {'gamma': pos_scalar(st, 'gamma')}
        elif factory == 'proximal_box_constraint':
            lo, up = extra
            if lo == 'scalar':
                kw['lower'] = S(z3.Real('lower'))
            elif lo == 'elem':
                kw['lower'] = stored['lower'] = X.element('lower')
            if up == 'scalar':
                kw['upper'] = S(z3.Real('upper'))
            elif up == 'elem':
                kw['upper'] = stored['upper'] = X.element('upper')
            if lo is not None and up is not None:
                # requires: the box is not empty (lower <= upper at every index)
                lo_v = kw['lower'] if lo == 'scalar' else st.lower(content(kw['lower']))
                up_v = kw['upper'] if up == 'scalar' else st.lower(content(kw['upper']))
                st.assume(lo_v <= up_v)
        elif factory in ('proximal_linfty', 'proximal_convex_conj_linfty', 'proximal_const_func'):
            kw = {}
            st.cuts[PROX + 'proj_simplex'] = proj_simplex_contract
        cls = I.call(f, args, kw, fr)
        if sigma == 'scalar':
            sg = pos_scalar(st, 'sigma')
        else:
            sg = stored['sigma'] = pos_elem(st, X, 'sigma')
        inst = I.call(cls, [sg], {}, fr)
        if factory == 'proximal_convex_conj_kl' and g:
            st.assume(st.lower(content(gv)) >= 0)
        return dict(inst=inst, domb=X, ranb=X, stored=stored, field=field, params=dict(kw, sigma=sg))
    return make


PROX_CASES = []
for _f in ('proximal_l1', 'proximal_convex_conj_l1', 'proximal_l2_squared', 'proximal_convex_conj_l2_squared'):
    for _g in (False, True):
        for _s in ('scalar', 'elem'):
            PROX_CASES.append((_f, dict(g=_g, sigma=_s)))
for _f in ('proximal_l2', 'proximal_convex_conj_kl'):
    for _g in (False, True):
        PROX_CASES.append((_f, dict(g=_g, sigma='scalar')))
PROX_CASES.append(('proximal_huber', dict(sigma='scalar')))
for _lo in (None, 'scalar', 'elem'):
    for _up in (None, 'scalar', 'elem'):
        PROX_CASES.append(('proximal_box_constraint', dict(sigma='scalar', extra=(_lo, _up))))
PROX_CASES.append(('proximal_const_func', dict(sigma='scalar')))
PROX_CASES.append(('proximal_linfty', dict(sigma='scalar')))
PROX_CASES.append(('proximal_convex_conj_linfty', dict(sigma='scalar')))


# ---- default_ops ---------------------------------------------------------------------------------

def dop_maker(clsname, field='real', variant=None):
    def make(I, st, fr):
        X = tspace(I, st, 'X', field)
        cls = I.get_class(DOPS + clsname)
        stored = {}
        domb = ranb = X
        expected = None
        F = FieldSpec(I, field)
        if clsname == 'ScalingOperator':
            s = om.sym_scalar('s', field)
            inst = I.call(cls, [X.space, s], {}, fr)
            expected = lambda x: VLin([(s, x)])
        elif clsname == 'IdentityOperator':
            inst = I.call(cls, [X.space], {}, fr)
            expected = lambda x: x
        elif clsname == 'MultiplyOperator':
            if variant == 'vec':
                m = stored['m'] = X.element('m')
                inst = I.call(cls, [m], {}, fr)
                expected = lambda x: core.vmul(content(m), x)
            elif variant == 'scalar':
                s = om.sym_scalar('s', field)
                inst = I.call(cls, [s], {'domain': X.space, 'range': X.space}, fr)
                expected = lambda x: VLin([(s, x)])
            elif variant == 'field_dom':
                m = stored['m'] = X.element('m')
                inst = I.call(cls, [m], {'domain': F.space}, fr)
                domb = F
                expected = lambda x: VLin([(x, content(m))])
            else:
                raise KeyError(variant)
        elif clsname == 'PowerOperator':
            p = variant
            inst = I.call(cls, [X.space, p], {}, fr)
            from contracts.props.C01 import vpow
            expected = lambda x: vpow(x, p)
        elif clsname == 'ConstantOperator':
            c = stored['c'] = X.element('c')
            st.cuts[tlib.SPACE + 'LinearSpaceElement.norm'] = st.cuts.get(tlib.SPACE + 'LinearSpaceElement.norm')
            inst = I.call(cls, [c], {}, fr)
            expected = lambda x: content(c)
        elif clsname == 'ZeroOperator':
            if variant == 'same':
                inst = I.call(cls, [X.space], {}, fr)
            else:
                Y = tspace(I, st, 'Y', field)
                inst = I.call(cls, [X.space], {'range': Y.space}, fr)
                ranb = Y
            expected = lambda x: VConst(0.0)
        elif clsname == 'InnerProductOperator':
            v = stored['v'] = X.element('v')
            inst = I.call(cls, [v], {}, fr)
            ranb = F
        elif clsname == 'NormOperator':
            inst = I.call(cls, [X.space], {}, fr)
            ranb = FieldSpec(I, 'real')
        elif clsname == 'DistOperator':
            v = stored['v'] = X.element('v')
            inst = I.call(cls, [v], {}, fr)
            ranb = FieldSpec(I, 'real')
        elif clsname in ('RealPart', 'ImagPart', 'ComplexModulus', 'ComplexModulusSquared'):
            inst = I.call(cls, [X.space], {}, fr)
            ranb = X.real_twin
            if clsname == 'RealPart':
                expected = lambda x: x if field == 'real' else VPw('real', (x,))
            elif clsname == 'ImagPart':
                expected = lambda x: VConst(0.0) if field == 'real' else VPw('imag', (x,))
            elif clsname == 'ComplexModulusSquared':
                expected = lambda x: core.vmul(x, x) if field == 'real' else VLin([(1, VPw('square', (VPw('real', (x,)),))), (1, VPw('square', (VPw('imag', (x,)),)))])
        elif clsname == 'ComplexEmbedding':
            s = om.sym_scalar('s', 'complex')
            inst = I.call(cls, [X.space], {'scalar': s}, fr)
            ranb = X.complex_twin
            expected = lambda x: VLin([(s, x)])
        elif clsname == 'LinCombOperator':
            raise Unsupported('LinCombOperator needs a product-space domain (see pspace makers)')
        else:
            raise KeyError(clsname)
        return dict(inst=inst, domb=domb, ranb=ranb, stored=stored, field=field, expected=expected)
    return make


DOP_CASES = [('ScalingOperator', None), ('IdentityOperator', None), ('MultiplyOperator', 'vec'), ('MultiplyOperator', 'scalar'),
             ('MultiplyOperator', 'field_dom'), ('PowerOperator', 1), ('PowerOperator', 2), ('PowerOperator', 3),
             ('ConstantOperator', None), ('ZeroOperator', 'same'), ('ZeroOperator', 'other'), ('InnerProductOperator', None),
             ('NormOperator', None), ('DistOperator', None), ('RealPart', None), ('ImagPart', None), ('ComplexModulus', None),
             ('ComplexModulusSquared', None), ('ComplexEmbedding', None)]
