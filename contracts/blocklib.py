"""Block operators of odl.operator.pspace_ops (ProductSpaceOperator, BroadcastOperator, ReductionOperator, DiagonalOperator,
ComponentProjection / ComponentProjectionAdjoint): `derivative(x)` and `adjoint` executed from source with arbitrary operators as blocks.

The blocks are abstract operators known only through two uninterpreted constructions, Deriv(A, p) and Adj(A) (the cuts of Operator.derivative /
Operator.adjoint below return tokens).  The constructors of the block classes are cuts that record their arguments, so what is decided is
*which operator is built*:

  derivative   block k of the result is Deriv(A_k, x[col_k]) sitting at (row_k, col_k); same shape, domain and range.  Together with the
               call contract proved in C03 (out[i] == sum_{k: row_k == i} A_k(x[col_k])) this is the block-wise Frechet derivative
               F'(x) d = (sum_{k: row_k == i} A_k'(x[col_k]) d[col_k])_i.
  adjoint      block k of the result is Adj(A_k) sitting at (col_k, row_k); shape transposed, domain and range swapped.  With the same call
               contract, <F x, y> = sum_k <A_k x[col_k], y[row_k]> = sum_k <x[col_k], A_k* y[row_k]> = <x, F* y> in the unweighted product
               inner products (the constructors reject weighted product spaces).
"""
import numpy as np
import z3

from pyvc import core, interp as ip
from pyvc.core import S, Unsupported, VVar
from pyvc.harness import Unit
from contracts import lib, oplib
from contracts.lib import content
from contracts.oplib import AbsOp

PSO = 'odl.operator.pspace_ops:'
OP = 'odl.operator.operator:'
SPARSE = 'odl.util.sparse:'
BLOCK_CLASSES = ['ProductSpaceOperator', 'BroadcastOperator', 'ReductionOperator', 'DiagonalOperator', 'ComponentProjection', 'ComponentProjectionAdjoint']


class Tok(object):
    """Deriv(op, point) / Adj(op)"""

    def __init__(self, kind, op, point=None):
        self.kind, self.op, self.point = kind, op, point

    def __repr__(self):
        return '%s(%s%s)' % (self.kind, getattr(self.op, 'tag', self.op), '' if self.point is None else ', %r' % (self.point,))

    def pv_getattr(self, I, fr, name):
        if name == 'is_linear':
            return True
        raise Unsupported('token .%s' % name)


class PVec(object):
    """a product-space element known through its components"""

    def __init__(self, comps, space=None):
        self.comps, self.space = list(comps), space

    def pv_getitem(self, I, fr, idx):
        if isinstance(idx, (list, tuple)):
            return PVec([self.comps[int(i)] for i in idx])
        if not -len(self.comps) <= int(idx) < len(self.comps):
            raise ip.PyRaise(I.make_exc('IndexError', 'list index out of range'))
        return self.comps[int(idx)]

    def pv_setitem(self, I, fr, idx, val):
        if not -len(self.comps) <= int(idx) < len(self.comps):
            raise ip.PyRaise(I.make_exc('IndexError', 'list assignment index out of range'))
        self.comps[int(idx)] = val

    def pv_iter(self, I, fr):
        return iter(list(self.comps))

    def pv_len(self, I, fr):
        return len(self.comps)

    def pv_getattr(self, I, fr, name):
        if name == 'space' and self.space is not None:
            return self.space
        if name == 'set_zero':
            # contract of LinearSpaceElement.set_zero on a product-space element (C01 pspace/*): every part becomes zero in place
            def sz(I_, fr_, a, kw):
                for c in self.comps:
                    lib.set_content(c, core.VConst(0.0))
                return self
            return ip.Builtin('set_zero', sz)
        raise Unsupported('product space element .%s' % name)


class PSpaceStub(object):
    """a product space known by identity; element(x) returns x for its own elements"""

    def __init__(self, tag, n):
        self.tag, self.n = tag, n

    def __repr__(self):
        return '<pspace %s>' % self.tag

    def pv_len(self, I, fr):
        return self.n

    def pv_getattr(self, I, fr, name):
        if name == 'element':
            def el(I_, fr_, a, kw):
                if a and isinstance(a[0], PVec):
                    return a[0]
                raise Unsupported('pspace.element(%r)' % (a,))
            return ip.Builtin('element', el)
        if name == '__len__':
            return ip.Builtin('len', lambda I_, fr_, a, kw: self.n)
        raise Unsupported('product space .%s' % name)


def install(I, st, record):
    """cuts: block constructors record their arguments; Operator.derivative / adjoint of the blocks return tokens"""
    def mk_ctor(cn):
        def ctor(I_, fr_, self, *a, **kw):
            self.fields['ctor'] = (cn, tuple(a), dict(kw))
            record.append(self)
            return None
        return ctor
    for cn in BLOCK_CLASSES:
        st.cuts[PSO + cn + '.__init__'] = mk_ctor(cn)

    def deriv(I_, fr_, self, point):
        return Tok('Deriv', self, point)

    def adj(I_, fr_, self):
        return Tok('Adj', self)
    st.cuts[OP + 'Operator.derivative'] = deriv
    st.cuts[OP + 'Operator.adjoint'] = adj


def as_list(v):
    if isinstance(v, np.ndarray):
        return list(v.tolist()) if v.dtype != object else list(v)
    if hasattr(v, 'a') and isinstance(getattr(v, 'a'), np.ndarray):
        return [x.v if (hasattr(x, 'v') and type(x).__name__ == 'S' and isinstance(x.v, (int, float))) else x for x in list(v.a.reshape(-1))]
    if isinstance(v, (list, tuple)):
        return list(v)
    raise Unsupported('sequence %r' % (v,))


def same_point(st, p, q):
    """semantic equality of two points (elements by content)"""
    if p is q:
        return True
    if isinstance(p, ip.Obj) and isinstance(q, ip.Obj) and hasattr(p, 'content') and hasattr(q, 'content'):
        return core.sc_eq(st.lower(content(p)), st.lower(content(q)))
    return False


# --------------------------------------------------------------------------
# units

def _world(I, st, m, n, entries, linear):
    from contracts import tlib, makers
    tlib.install(st)
    st.cuts.update(oplib.operator_cuts())
    st.object_arrays = True
    record = []
    install(I, st, record)
    X = makers.tspace(I, st, 'X', 'real')
    ops = [AbsOp(I, 'A%d' % k, X, X, linear=linear) for k in range(len(entries))]
    for k, o in enumerate(ops):
        o.op.tag = 'A%d' % k
    dom, ran = PSpaceStub('dom', n), PSpaceStub('ran', m)
    return X, ops, dom, ran, record


def _coo(I, ops, entries, m, n):
    coo = ip.Obj(I.get_class(SPARSE + 'COOMatrix'))
    coo.fields.update({'_COOMatrix__data': [o.op for o in ops], '_COOMatrix__row_index': [e[0] for e in entries],
                       '_COOMatrix__col_index': [e[1] for e in entries], '_COOMatrix__shape': (m, n)})
    return coo


def _matrix_of(res):
    """(data, rows, cols, shape, domain, range) handed to the ProductSpaceOperator constructor"""
    cn, a, kw = res.fields['ctor']
    mat = a[0] if a else kw.get('operators')
    dom = a[1] if len(a) > 1 else kw.get('domain')
    ran = a[2] if len(a) > 2 else kw.get('range')
    if not isinstance(mat, ip.Obj) or mat.cls.name != 'COOMatrix':
        raise Unsupported('operator matrix %r' % (mat,))
    f = mat.fields
    return as_list(f['_COOMatrix__data']), [int(i) for i in as_list(f['_COOMatrix__row_index'])], [int(i) for i in as_list(f['_COOMatrix__col_index'])], \
        tuple(int(i) for i in f['_COOMatrix__shape']), dom, ran


def unit_pso(what, m, n, entries, linear=False):
    """ProductSpaceOperator.derivative(x) / .adjoint for an m x n matrix with the given COO entries (any order, duplicates, empty rows)"""
    def run(ctx):
        I = ctx.I

        def path(st):
            X, ops, dom, ran, record = _world(I, st, m, n, entries, linear)
            fr = ip.Frame(st)
            op = ip.Obj(I.get_class(PSO + 'ProductSpaceOperator'))
            op.fields.update({'_Operator__domain': dom, '_Operator__range': ran, '_Operator__is_linear': bool(linear), '_ProductSpaceOperator__ops': _coo(I, ops, entries, m, n)})
            x = PVec([X.element('x%d' % j) for j in range(n)], dom)
            try:
                if what == 'derivative':
                    res = I.call(I._getattr(op, 'derivative', fr), [x], {}, fr)
                else:
                    res = I._getattr(op, 'adjoint', fr)
            except ip.PyRaise as e:
                return ('raise', e.exc)
            return ('ok', dict(op=op, ops=ops, x=x, res=res, dom=dom, ran=ran))
        info = {'shape': [m, n], 'entries': [list(e) for e in entries], 'linear_blocks': linear}
        rp = dict(info, kind='pso', what=what)
        for st, (status, r) in ctx.explore(path):
            if status == 'raise':
                ctx.fail(st, 'no_raise', 'raises %s' % lib.exc_desc(r), info, replay=rp)
                continue
            res = r['res']
            if what == 'derivative' and linear:
                ctx.prove(st, 'a linear operator is its own derivative', res is r['op'], dict(info, got=repr(res)), replay=rp)
                continue
            ok = isinstance(res, ip.Obj) and 'ctor' in res.fields and res.fields['ctor'][0] == 'ProductSpaceOperator'
            ctx.prove(st, 'returns a ProductSpaceOperator', ok, dict(info, got=repr(res)), replay=rp)
            if not ok:
                continue
            data, rows, cols, shape, dom, ran = _matrix_of(res)
            ctx.prove(st, 'one block per block of the operator', len(data) == len(entries) == len(rows) == len(cols), info, replay=rp)
            if len(data) != len(entries):
                continue
            if what == 'derivative':
                ctx.prove(st, 'same shape, domain and range', shape == (m, n) and dom is r['dom'] and ran is r['ran'], dict(info, got=repr((shape, dom, ran))), replay=rp)
                # the multiset of blocks {(row, col, Deriv(A_k, x[col]))}: order of the result is free
                want = sorted((e[0], e[1], k) for k, e in enumerate(entries))
                got = []
                good = True
                for d, i, j in zip(data, rows, cols):
                    if not (isinstance(d, Tok) and d.kind == 'Deriv'):
                        good = False
                        break
                    got.append((i, j, r['ops'].index(d.op.absop) if hasattr(d.op, 'absop') and d.op.absop in r['ops'] else -1))
                ctx.prove(st, 'every block is the derivative of the block at the same (row, col)', good and sorted(got) == want, dict(info, got=repr(got)), replay=rp)
                if good:
                    for d, i, j in zip(data, rows, cols):
                        ctx.prove(st, 'block (%d, %d): derivative taken at the component x[%d] of the point (the column index)' % (i, j, j),
                                  same_point(st, d.point, r['x'].comps[j]) if 0 <= j < n else False, dict(info, got=repr(d)), replay=rp)
            else:
                ctx.prove(st, 'transposed shape, domain and range swapped', shape == (n, m) and dom is r['ran'] and ran is r['dom'], dict(info, got=repr((shape, dom, ran))), replay=rp)
                want = sorted((e[1], e[0], k) for k, e in enumerate(entries))
                got = []
                good = True
                for d, i, j in zip(data, rows, cols):
                    if not (isinstance(d, Tok) and d.kind == 'Adj'):
                        good = False
                        break
                    got.append((i, j, r['ops'].index(d.op.absop) if hasattr(d.op, 'absop') and d.op.absop in r['ops'] else -1))
                ctx.prove(st, 'block (row, col) of the operator appears adjointed at (col, row)', good and sorted(got) == want, dict(info, got=repr(got)), replay=rp)
    tag = '-'.join('%d%d' % e for e in entries) or 'empty'
    return Unit('block/pso-%s/%dx%d/%s%s' % (what, m, n, tag, '/linear' if linear else ''), run, funcs=[PSO + 'ProductSpaceOperator.' + what, SPARSE + 'COOMatrix.__init__'],
                config={'shape': [m, n], 'entries': [list(e) for e in entries], 'what': what})


def unit_brd(cls, what, k):
    """BroadcastOperator / ReductionOperator / DiagonalOperator .derivative(x) / .adjoint with k arbitrary blocks"""
    def run(ctx):
        I = ctx.I

        def path(st):
            X, ops, dom, ran, record = _world(I, st, k, k, [(i, i) for i in range(k)], False)
            fr = ip.Frame(st)
            op = ip.Obj(I.get_class(PSO + cls))
            op.fields.update({'_Operator__domain': dom, '_Operator__range': ran, '_Operator__is_linear': False,
                              '_%s__operators' % cls: tuple(o.op for o in ops)})
            if cls == 'BroadcastOperator':
                x = X.element('x')
            else:
                x = PVec([X.element('x%d' % j) for j in range(k)], dom)
            try:
                if what == 'derivative':
                    res = I.call(I._getattr(op, 'derivative', fr), [x], {}, fr)
                else:
                    res = I._getattr(op, 'adjoint', fr)
            except ip.PyRaise as e:
                return ('raise', e.exc)
            return ('ok', dict(op=op, ops=ops, x=x, res=res, dom=dom, ran=ran))
        info = {'class': cls, 'blocks': k}
        rp = dict(info, kind='brd', what=what)
        want_cls = {('BroadcastOperator', 'derivative'): 'BroadcastOperator', ('BroadcastOperator', 'adjoint'): 'ReductionOperator',
                    ('ReductionOperator', 'derivative'): 'ReductionOperator', ('ReductionOperator', 'adjoint'): 'BroadcastOperator',
                    ('DiagonalOperator', 'derivative'): 'DiagonalOperator', ('DiagonalOperator', 'adjoint'): 'DiagonalOperator'}[(cls, what)]
        for st, (status, r) in ctx.explore(path):
            if status == 'raise':
                ctx.fail(st, 'no_raise', 'raises %s' % lib.exc_desc(r), info, replay=rp)
                continue
            res = r['res']
            ok = isinstance(res, ip.Obj) and 'ctor' in res.fields and res.fields['ctor'][0] == want_cls
            ctx.prove(st, 'returns a %s' % want_cls, ok, dict(info, got=repr(res)), replay=rp)
            if not ok:
                continue
            cn, a, kw = res.fields['ctor']
            ctx.prove(st, 'one block per block, in order', len(a) == k and all(isinstance(t, Tok) and t.kind == ('Deriv' if what == 'derivative' else 'Adj') and
                                                                               getattr(t.op, 'absop', None) is r['ops'][i] for i, t in enumerate(a)), dict(info, got=repr(a)), replay=rp)
            if len(a) != k or not all(isinstance(t, Tok) for t in a):
                continue
            if what == 'derivative':
                for i, t in enumerate(a):
                    pt = r['x'] if cls == 'BroadcastOperator' else r['x'].comps[i]
                    ctx.prove(st, 'block %d: derivative taken at %s' % (i, 'the point' if cls == 'BroadcastOperator' else 'component %d of the point' % i), same_point(st, t.point, pt), dict(info, got=repr(t)), replay=rp)
            if cls == 'DiagonalOperator':
                if what == 'derivative':
                    ctx.prove(st, 'same domain and range', kw.get('domain') is r['dom'] and kw.get('range') is r['ran'], dict(info, got=repr(kw)), replay=rp)
                else:
                    ctx.prove(st, 'domain and range swapped', kw.get('domain') is r['ran'] and kw.get('range') is r['dom'], dict(info, got=repr(kw)), replay=rp)
            else:
                ctx.prove(st, 'no further constructor arguments', not kw, dict(info, got=repr(kw)), replay=rp)
    return Unit('block/%s-%s/k=%d' % (cls, what, k), run, funcs=[PSO + cls + '.' + what], config={'class': cls, 'blocks': k, 'what': what})


def unit_projection(k, idx):
    """ComponentProjection / ComponentProjectionAdjoint: _call (out-of-place and in-place) and .adjoint - the adjoint of the projection onto component(s) idx is
    the zero-extension from the same component(s) of the same product space and vice versa; <P x, y> = <x[idx], y> = <x, E y> in the unweighted product"""
    def run(ctx):
        I = ctx.I
        from contracts import tlib, makers
        for cls in ('ComponentProjection', 'ComponentProjectionAdjoint'):
            def path(st, cls=cls):
                tlib.install(st)
                st.object_arrays = True
                record = []
                install(I, st, record)
                X = makers.tspace(I, st, 'X', 'real')
                fr = ip.Frame(st)
                ps = PSpaceStub('P', k)
                zeros = []

                class Ran(PSpaceStub):
                    def pv_getattr(self, I_, fr_, name):
                        if name == 'zero':
                            def z(I2, fr2, a, kw):
                                v = PVec([X.element(cont=core.VConst(0.0)) for _ in range(k)], self)
                                zeros.append(v)
                                return v
                            return ip.Builtin('zero', z)
                        return PSpaceStub.pv_getattr(self, I_, fr_, name)
                ps = Ran('P', k)
                op = ip.Obj(I.get_class(PSO + cls))
                sub = X.space
                if cls == 'ComponentProjection':
                    op.fields.update({'_Operator__domain': ps, '_Operator__range': sub, '_Operator__is_linear': True, '_ComponentProjection__index': idx})
                else:
                    op.fields.update({'_Operator__domain': sub, '_Operator__range': ps, '_Operator__is_linear': True, '_ComponentProjectionAdjoint__index': idx})
                try:
                    adj = I._getattr(op, 'adjoint', fr)
                except ip.PyRaise as e:
                    return ('raise', e.exc)
                callf = I.get_class(PSO + cls).lookup('_call')
                f = I.class_entry_value(callf[0], '_call', callf[1])
                try:
                    if cls == 'ComponentProjection':
                        x = PVec([X.element('x%d' % j) for j in range(k)], ps)
                        x0 = [content(c) for c in x.comps]
                        oop = I.call(f, [op, x], {}, fr)
                        out = X.element('old')
                        ipr = I.call(f, [op, x, out], {}, fr)
                        return ('ok', dict(cls=cls, op=op, adj=adj, ps=ps, sub=sub, x=x, x0=x0, oop=oop, out=out, ipr=ipr))
                    y = X.element('y')
                    y0 = content(y)
                    oop = I.call(f, [op, y], {}, fr)
                    oop_vals = [content(c) for c in oop.comps] if isinstance(oop, PVec) else None
                    out = PVec([X.element('old%d' % j) for j in range(k)], ps)
                    ipr = I.call(f, [op, y, out], {}, fr)
                    return ('ok', dict(cls=cls, op=op, adj=adj, ps=ps, sub=sub, y=y, y0=y0, oop=oop, oop_vals=oop_vals, out=out, ipr=ipr))
                except ip.PyRaise as e:
                    return ('raise', e.exc)
            info = {'class': cls, 'components': k, 'index': idx}
            rp = dict(info, kind='projection')
            for st, (status, r) in ctx.explore(path):
                if status == 'raise':
                    ctx.fail(st, 'no_raise', 'raises %s' % lib.exc_desc(r), info, replay=rp)
                    continue
                low = st.lower
                adj = r['adj']
                want_cls = 'ComponentProjectionAdjoint' if cls == 'ComponentProjection' else 'ComponentProjection'
                ok = isinstance(adj, ip.Obj) and 'ctor' in adj.fields and adj.fields['ctor'][0] == want_cls
                ctx.prove(st, 'adjoint is a %s' % want_cls, ok, dict(info, got=repr(adj)), replay=rp)
                if ok:
                    cn, a, kw = adj.fields['ctor']
                    ctx.prove(st, 'adjoint: on the same product space with the same index', len(a) == 2 and not kw and a[0] is r['ps'] and a[1] == idx, dict(info, got=repr((a, kw))), replay=rp)
                if cls == 'ComponentProjection':
                    ctx.prove(st, 'out-of-place: a fresh element holding x[index]', isinstance(r['oop'], ip.Obj) and all(r['oop'] is not c for c in r['x'].comps) and
                              core.sc_eq(low(content(r['oop'])), low(r['x0'][idx])) if isinstance(r['oop'], ip.Obj) else False, info, replay=rp)
                    ctx.prove(st, 'in-place: out is returned and holds x[index]', r['ipr'] is r['out'] and core.sc_eq(low(content(r['out'])), low(r['x0'][idx])), info, replay=rp)
                    for j in range(k):
                        ctx.prove(st, 'x[%d] untouched' % j, core.sc_eq(low(content(r['x'].comps[j])), low(r['x0'][j])), info, replay=rp)
                else:
                    for label, res in (('out-of-place', r['oop']), ('in-place', r['ipr'])):
                        okv = isinstance(res, PVec) and len(res.comps) == k
                        ctx.prove(st, '%s: an element of the product space' % label, okv and (label == 'out-of-place' or res is r['out']), info, replay=rp)
                        if not okv:
                            continue
                        for j in range(k):
                            want = low(r['y0']) if j == idx else core._sc(0.0)
                            ctx.prove(st, '%s: component %d == %s' % (label, j, 'y' if j == idx else '0'), core.sc_eq(low(content(res.comps[j])), want), info, replay=rp)
                    ctx.prove(st, 'y untouched', core.sc_eq(low(content(r['y'])), low(r['y0'])), info, replay=rp)
    return Unit('block/projection/k=%d/index=%d' % (k, idx), run, funcs=[PSO + 'ComponentProjection._call', PSO + 'ComponentProjection.adjoint',
                                                                         PSO + 'ComponentProjectionAdjoint._call', PSO + 'ComponentProjectionAdjoint.adjoint'],
                config={'components': k, 'index': idx})


PSO_PATTERNS = [
    (2, 2, ((0, 0), (0, 1), (1, 0), (1, 1))),
    (2, 2, ((0, 1),)),
    (2, 2, ((1, 0), (0, 1))),
    (2, 2, ((1, 1), (0, 1), (0, 0))),
    (2, 2, ((0, 1), (0, 1))),
    (2, 3, ((0, 2), (1, 0), (0, 1))),
    (3, 2, ((2, 0), (0, 1), (2, 1))),
    (1, 2, ((0, 0), (0, 1))),
    (2, 1, ((0, 0), (1, 0))),
]


def units(what):
    us = []
    for m, n, entries in PSO_PATTERNS:
        us.append(unit_pso(what, m, n, entries))
    if what == 'derivative':
        us.append(unit_pso(what, 2, 2, ((0, 1), (1, 0)), linear=True))
    for cls in ('BroadcastOperator', 'ReductionOperator', 'DiagonalOperator'):
        for k in (2, 3):
            us.append(unit_brd(cls, what, k))
    if what == 'adjoint':
        for k, idx in ((2, 0), (2, 1), (3, 1)):
            us.append(unit_projection(k, idx))
    return us


# --------------------------------------------------------------------------
# native replay: real block operators with concrete blocks

def native_replay(ob):
    """block operators built through the real constructors with non-linear blocks (derivative vs central differences) resp. matrix blocks
    (adjoint identity in the spaces' own inner products, adjoint.adjoint acts like the operator), for the entry pattern / class of the obligation"""
    import os
    import sys
    root = os.environ.get('PYVC_REPO', '/repo')
    if root not in sys.path:
        sys.path.insert(0, root)
    import odl
    rp = ob.get('replay') or {}
    what = rp.get('what') or ('adjoint' if rp.get('kind') == 'projection' else None)
    rng = np.random.default_rng(3)
    X = odl.rn(3)

    def nonlinear(k):
        M = odl.MatrixOperator(rng.standard_normal((3, 3)))
        pw = [odl.ufunc_ops.sin(X), odl.ufunc_ops.exp(X), odl.PowerOperator(X, 3), odl.ufunc_ops.cos(X)][k % 4]
        return pw * M + (k + 1.0) * odl.ufunc_ops.square(X)

    def linear(k):
        return odl.MatrixOperator(rng.standard_normal((3, 3)))

    def rand(sp):
        if isinstance(sp, odl.ProductSpace):
            return sp.element([rand(s) for s in sp.spaces])
        return sp.element(rng.standard_normal(sp.shape))

    def build(mk):
        if rp.get('kind') == 'pso':
            m, n = rp['shape']
            grid = [[0] * n for _ in range(m)]
            for k, (i, j) in enumerate(rp['entries']):
                grid[i][j] = mk(k) if isinstance(grid[i][j], int) else grid[i][j] + mk(k)      # duplicate cells add up
            return [odl.ProductSpaceOperator(grid, domain=X ** n, range=X ** m)]
        if rp.get('kind') == 'brd':
            k = int(rp['blocks'])
            return [getattr(odl, rp['class'])(*[mk(i) for i in range(k)])]
        if rp.get('kind') == 'projection':
            k, idx = int(rp['components']), int(rp['index'])
            return [odl.ComponentProjection(X ** k, idx), odl.ComponentProjection(X ** k, idx).adjoint]
        return []
    try:
        if what == 'derivative':
            for A in build(nonlinear):
                x, d = rand(A.domain), rand(A.domain)
                got = A.derivative(x)(d)
                t = 1e-5
                fd = (A(x + t * d) - A(x - t * d)) / (2 * t)
                err = (got - fd).norm() / max(1.0, fd.norm())
                if err > 1e-5:
                    return {'reproduced': True, 'detail': '%s with non-linear blocks: derivative(x)(d) differs from central differences, relative error %.3g' % (type(A).__name__, err),
                            'input': dict(rp)}
            return {'reproduced': False, 'detail': 'derivative matches central differences natively'}
        if what == 'adjoint':
            for A in build(linear):
                x, y = rand(A.domain), rand(A.range)
                lhs, rhs = A(x).inner(y), x.inner(A.adjoint(y))
                if abs(lhs - rhs) > 1e-9 * max(1.0, abs(lhs)):
                    return {'reproduced': True, 'detail': '%s: <A x, y> = %r but <x, A.adjoint y> = %r' % (type(A).__name__, lhs, rhs), 'input': dict(rp)}
                if (A.adjoint.adjoint(x) - A(x)).norm() > 1e-9:
                    return {'reproduced': True, 'detail': '%s: adjoint.adjoint does not act like the operator' % type(A).__name__, 'input': dict(rp)}
                if A.adjoint.domain != A.range or A.adjoint.range != A.domain:
                    return {'reproduced': True, 'detail': '%s: adjoint maps %r -> %r' % (type(A).__name__, A.adjoint.domain, A.adjoint.range), 'input': dict(rp)}
            return {'reproduced': False, 'detail': 'adjoint identity holds natively'}
    except Exception as e:
        return {'reproduced': True, 'detail': 'native evaluation raised %s: %s' % (type(e).__name__, e), 'input': dict(rp)}
    return {'reproduced': False, 'detail': 'no native concretisation for this obligation kind'}


# --------------------------------------------------------------------------
# ResizingOperator: which resize_array call the operator, its adjoint and the adjoint's adjoint make

DOPS = 'odl.discr.discr_ops:'
RESIZE_SHAPES = [((4,), (6,)), ((6,), (4,)), ((4, 5), (6, 7)), ((4, 5), (3, 4)), ((4, 5), (3, 7)), ((4, 5), (6, 3)), ((4, 5), (4, 7)), ((3, 4, 5), (2, 4, 7))]


def unit_resizing_operator(pad_mode, dshape, rshape):
    """ResizingOperator(domain -> range, pad_mode).adjoint: an operator range -> domain whose evaluation is exactly ONE call
    resize_array(x, domain.shape, offset=op.offset, pad_mode=op.pad_mode, pad_const=0, direction='adjoint', out=<the array of out>) - the transpose proved in
    C16 for that very mode and offset - for EVERY combination of growing / shrinking axes; its adjoint is the operator itself; the forward `_call` makes the
    matching direction='forward' call.  (A different operator is accepted only where C16 proves it equal: zero-padding forward resize when no axis grows.)"""
    def run(ctx):
        I = ctx.I

        def path(st):
            from contracts import tlib
            tlib.install(st)
            st.cuts.update(oplib.operator_cuts())
            calls = []

            class Sp(object):
                def __init__(self, tag, shape):
                    self.tag, self.shape = tag, shape

                def __repr__(self):
                    return '<space %s %r>' % (self.tag, self.shape)

                def pv_isinstance(self, I_, cls):
                    return getattr(cls, 'name', None) in ('Set', 'LinearSpace', 'TensorSpace', 'DiscretizedSpace')

                def pv_getattr(self, I_, fr_, name):
                    if name == 'shape':
                        return self.shape
                    if name == 'ndim':
                        return len(self.shape)
                    raise Unsupported('space .%s' % name)

            class Arr(object):
                def __init__(self, tag):
                    self.tag = tag

                def __repr__(self):
                    return '<array %s>' % self.tag

            class El(object):
                def __init__(self, tag):
                    self.tag, self.arr = tag, Arr(tag)

                def pv_getattr(self, I_, fr_, name):
                    if name == 'asarray':
                        return ip.Builtin('asarray', lambda I2, fr2, a, k: self.arr)
                    raise Unsupported('element .%s' % name)

            class CM(object):
                def __init__(self, el):
                    self.el = el

                def pv_enter(self, I_, fr_):
                    return self.el.arr

                def pv_exit(self, I_, fr_, exc):
                    return None

            def writable(I_, fr_, obj, **kw):
                if not isinstance(obj, El):
                    raise Unsupported('writable_array(%r)' % (obj,))
                return CM(obj)

            def resize(I_, fr_, *a, **kw):
                calls.append((a, dict(kw)))
                return kw.get('out')

            def ro_init(I_, fr_, self, *a, **kw):
                self.fields['ctor'] = ('ResizingOperator', tuple(a), dict(kw))
                return None
            st.cuts['odl.util.utility:writable_array'] = writable
            st.cuts['odl.util.numerics:resize_array'] = resize
            st.cuts[DOPS + 'ResizingOperator.__init__'] = ro_init
            fr = ip.Frame(st)
            dom, ran = Sp('dom', dshape), Sp('ran', rshape)
            off = tuple(1 for _ in dshape)
            pc = S(z3.Real('pad_const')) if pad_mode == 'constant-nonzero' else 0.0
            mode = 'constant' if pad_mode.startswith('constant') else pad_mode
            op = ip.Obj(I.get_class(DOPS + 'ResizingOperator'))
            op.fields.update({'_Operator__domain': dom, '_Operator__range': ran, '_Operator__is_linear': pad_mode != 'constant-nonzero',
                              '_ResizingOperator__offset': off, '_ResizingOperator__pad_mode': mode, '_ResizingOperator__pad_const': pc})
            if pad_mode == 'constant-nonzero':
                st.assume(core.s_not(core.sc_eq(pc, 0)))
            out = {}
            # forward call
            x, y = El('x'), El('y')
            callf = I.get_class(DOPS + 'ResizingOperator').lookup('_call')
            I.call(I.class_entry_value(callf[0], '_call', callf[1]), [op, x, y], {}, fr)
            out['fwd'] = list(calls)
            del calls[:]
            try:
                adj = I._getattr(op, 'adjoint', fr)
            except ip.PyRaise as e:
                return ('adj-raise', (e.exc, out))
            out['adj'] = adj
            if isinstance(adj, ip.Obj) and 'ctor' not in adj.fields:
                u, v = El('u'), El('v')
                c, e = adj.cls.lookup('_call')
                I.call(I.bind_entry(adj, c, '_call', e, fr), [u, v], {}, fr)
                out['adjcalls'] = list(calls)
                out['u'], out['v'] = u, v
                out['adjadj'] = I._getattr(adj, 'adjoint', fr)
                out['adj_dom'], out['adj_ran'] = I._getattr(adj, 'domain', fr), I._getattr(adj, 'range', fr)
                out['adj_lin'] = I._getattr(adj, 'is_linear', fr)
            out.update(op=op, dom=dom, ran=ran, off=off, mode=mode, pc=pc, x=x, y=y)
            return ('ok', out)
        info = {'pad_mode': pad_mode, 'domain_shape': list(dshape), 'range_shape': list(rshape)}
        rp = dict(info, kind='resizing_operator')
        for st, (status, r) in ctx.explore(path):
            if status == 'adj-raise':
                ctx.prove(st, 'a non-linear resizing operator (constant padding, non-zero constant) has no adjoint: NotImplementedError', pad_mode == 'constant-nonzero' and
                          lib.exc_name(r[0]) == 'NotImplementedError', dict(info, got=lib.exc_desc(r[0])), replay=rp)
                continue

            def one_call(calls, xarr, shape, direction, pcval, outarr):
                if len(calls) != 1:
                    return False
                a, kw = calls[0]
                names = ['arr', 'newshp', 'offset', 'pad_mode', 'pad_const', 'direction', 'out']
                full = dict(zip(names, a))
                full.update(kw)
                pcok = full.get('pad_const', 0) is pcval or (not core.is_sym(pcval) and not core.is_sym(full.get('pad_const', 0)) and full.get('pad_const', 0) == pcval)
                return full.get('arr') is xarr and tuple(full.get('newshp')) == tuple(shape) and tuple(full.get('offset') or ()) == tuple(r['off']) and \
                    full.get('pad_mode') == r['mode'] and pcok and full.get('direction', 'forward') == direction and full.get('out') is outarr
            ctx.prove(st, 'forward: one resize_array(x, range.shape, offset, pad_mode, pad_const, direction=forward, out=array of out)',
                      one_call(r['fwd'], r['x'].arr, rshape, 'forward', r['pc'], r['y'].arr), dict(info, got=repr(r['fwd'])), replay=rp)
            if pad_mode == 'constant-nonzero':
                ctx.fail(st, 'a non-linear resizing operator has no adjoint', 'returned %r' % (r['adj'],), info, replay=rp)
                continue
            adj = r['adj']
            if isinstance(adj, ip.Obj) and 'ctor' in adj.fields:
                cn, a, kw = adj.fields['ctor']
                full = dict(zip(['domain', 'range'], a))
                full.update(kw)
                grows = any(rs > ds for ds, rs in zip(dshape, rshape))
                same = full.get('domain') is r['ran'] and full.get('range') is r['dom'] and full.get('pad_mode', 'constant') == 'constant' and \
                    full.get('pad_const', 0) in (0, 0.0) and 'ran_shp' not in full and 'offset' not in full
                ctx.prove(st, 'a forward zero-padding ResizingOperator(range -> domain) stands in for the adjoint only where no axis grows (or the padding is zero-padding)',
                          same and (not grows or r['mode'] == 'constant'), dict(info, got=repr(adj.fields['ctor'])), replay=rp)
                continue
            ok = isinstance(adj, ip.Obj) and 'adjcalls' in r
            ctx.prove(st, 'adjoint is an operator', ok, dict(info, got=repr(adj)), replay=rp)
            if not ok:
                continue
            ctx.prove(st, 'adjoint maps range -> domain and is linear', r['adj_dom'] is r['ran'] and r['adj_ran'] is r['dom'] and r['adj_lin'] is True, info, replay=rp)
            ctx.prove(st, 'adjoint: one resize_array(x, domain.shape, offset, pad_mode, pad_const=0, direction=adjoint, out=array of out)',
                      one_call(r['adjcalls'], r['u'].arr, dshape, 'adjoint', 0, r['v'].arr), dict(info, got=repr(r['adjcalls'])), replay=rp)
            ctx.prove(st, 'adjoint.adjoint is the operator itself', r['adjadj'] is r['op'], info, replay=rp)
    return Unit('resizing/%s/%s->%s' % (pad_mode, 'x'.join(map(str, dshape)), 'x'.join(map(str, rshape))), run,
                funcs=[DOPS + 'ResizingOperator.adjoint', DOPS + 'ResizingOperator._call'], config={'pad_mode': pad_mode, 'domain_shape': list(dshape), 'range_shape': list(rshape)})


def resizing_units():
    us = []
    for mode in ('constant', 'symmetric', 'periodic', 'order0', 'order1'):
        for d, r in RESIZE_SHAPES:
            us.append(unit_resizing_operator(mode, d, r))
    us.append(unit_resizing_operator('constant-nonzero', (4, 5), (6, 7)))
    return us


def resizing_native_replay(ob):
    import os
    import sys
    root = os.environ.get('PYVC_REPO', '/repo')
    if root not in sys.path:
        sys.path.insert(0, root)
    import odl
    rp = ob.get('replay') or {}
    d, r, mode = tuple(rp['domain_shape']), tuple(rp['range_shape']), rp['pad_mode']
    if mode == 'constant-nonzero':
        return {'reproduced': False, 'detail': 'no native concretisation for this obligation kind'}
    rng = np.random.default_rng(4)
    X = odl.uniform_discr([0] * len(d), [float(n) for n in d], d)
    for off in (None, tuple(1 if rs != ds else 0 for ds, rs in zip(d, r))):
        try:
            A = odl.ResizingOperator(X, ran_shp=r, offset=off, pad_mode=mode)
            x, y = X.element(rng.standard_normal(d)), A.range.element(rng.standard_normal(r))
            lhs, rhs = A(x).inner(y), x.inner(A.adjoint(y))
            if abs(lhs - rhs) > 1e-9 * max(1.0, abs(lhs)):
                return {'reproduced': True, 'detail': 'ResizingOperator(%r -> %r, offset=%r, pad_mode=%r): <A x, y> = %r but <x, A.adjoint y> = %r' % (d, r, off, mode, lhs, rhs), 'input': dict(rp)}
            if (A.adjoint.adjoint(x) - A(x)).norm() > 1e-9:
                return {'reproduced': True, 'detail': 'ResizingOperator(%r -> %r, pad_mode=%r): adjoint.adjoint does not act like the operator' % (d, r, mode), 'input': dict(rp)}
        except Exception as e:
            return {'reproduced': True, 'detail': 'native evaluation raised %s: %s' % (type(e).__name__, e), 'input': dict(rp)}
    return {'reproduced': False, 'detail': 'adjoint identity holds natively'}
