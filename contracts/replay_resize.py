"""Native replay for resize_array obligations: compare with the rule-based reference / transposes for the
model's extents and offset (and a few neighbours)."""
import os
import sys


def _ref(np, a, m, off, mode, c):
    n = len(a)
    out = np.empty(m)
    for k in range(m):
        p = k - off
        if 0 <= p < n:
            out[k] = a[p]
        elif mode == 'constant':
            out[k] = c
        elif mode == 'periodic':
            out[k] = a[p % n]
        elif mode == 'symmetric':
            out[k] = a[-p] if p < 0 else a[2 * (n - 1) - p]
        elif mode == 'order0':
            out[k] = a[0] if p < 0 else a[-1]
        else:
            out[k] = a[0] + p * (a[1] - a[0]) if p < 0 else a[-1] + (p - (n - 1)) * (a[-1] - a[-2])
    return out


def replay_2d(ob, rp):
    import itertools
    root = os.environ.get('PYVC_REPO', '/repo')
    if root not in sys.path:
        sys.path.insert(0, root)
    import numpy as np
    from odl.util.numerics import resize_array
    mode, kinds = rp['mode'], rp['kinds']
    cands = []
    for base in ((2, 3), (3, 2), (4, 5), (3, 3)):
        for d in ((1, 1), (2, 1), (1, 2), (2, 3)):
            n = list(base)
            m = [b + dd if k == 'grow' else max(b - dd, 1) for b, dd, k in zip(base, d, kinds)]
            for off in itertools.product(*[range(0, abs(mm - nn) + 1) for mm, nn in zip(m, n)]):
                cands.append((tuple(n), tuple(m), off))
    for n, m, off in cands[:400]:
        try:
            F = np.zeros(m + n)
            A = np.zeros(n + m)
            for j in np.ndindex(*n):
                e = np.zeros(n)
                e[j] = 1
                F[(slice(None),) * 2 + j] = resize_array(e, m, offset=off, pad_mode=mode)
            changed = False
            for k in np.ndindex(*m):
                e = np.zeros(m)
                e[k] = 1
                e0 = e.copy()
                A[(slice(None),) * 2 + k] = resize_array(e, n, offset=off, pad_mode=mode, direction='adjoint')
                changed = changed or not np.array_equal(e, e0)
            if changed and 'unchanged' in ob.get('name', ''):
                return {'reproduced': True, 'detail': 'adjoint direction modified its input array: n=%s m=%s offset=%s' % (n, m, off),
                        'input': {'n': n, 'm': m, 'offset': off, 'mode': mode}}
            if not np.allclose(A, np.transpose(F, (2, 3, 0, 1))) and 'transpose' in ob.get('name', ''):
                return {'reproduced': True, 'detail': 'adjoint is not the transpose: n=%s m=%s offset=%s' % (n, m, off),
                        'input': {'n': n, 'm': m, 'offset': off, 'mode': mode}}
        except ValueError:
            continue
    return {'reproduced': False, 'detail': 'contract holds natively on the tried 2-d extents'}


def replay(ob):
    rp = ob.get('replay') or {}
    if rp.get('kind') == 'resize-transpose-2d':
        return replay_2d(ob, rp)
    if rp.get('kind') not in ('resize', 'resize-transpose'):
        return {'reproduced': False, 'detail': 'no native concretisation for this obligation kind'}
    root = os.environ.get('PYVC_REPO', '/repo')
    if root not in sys.path:
        sys.path.insert(0, root)
    import numpy as np
    from odl.util.numerics import resize_array
    m_ = ob.get('model') or {}
    mode, kind = rp['mode'], rp['shape_kind']
    cands = [(int(m_.get('n', 4)), int(m_.get('m', 7)), int(m_.get('off', 1)))]
    if kind == 'same':
        cands = [(cands[0][0], cands[0][0], 0)] + [(n, n, 0) for n in (1, 2, 3, 5)]
    for n in ((1, 2, 3, 4, 5) if kind != 'same' else ()):
        for d in (1, 2, 3):
            for off in range(0, d + 1):
                cands.append((n, n + d, off) if kind == 'grow' else (n + d, n, off))
    rng = np.random.default_rng(0)
    for n, m, off in cands:
        if n < 1 or m < 1 or n > 60 or m > 60:
            continue
        try:
            if rp['kind'] == 'resize':
                a = rng.standard_normal(n)
                got = resize_array(a, (m,), offset=[off], pad_mode=mode, pad_const=0.3)
                want = _ref(np, a, m, off, mode, 0.3) if kind != 'shrink' else a[off:off + m]
                if not np.allclose(got, want):
                    return {'reproduced': True, 'detail': 'n=%d m=%d off=%d: %s vs rule-based reference %s' % (n, m, off, got, want),
                            'input': {'n': n, 'm': m, 'offset': off, 'mode': mode, 'arr': a.tolist()}}
            else:
                F = np.array([resize_array(np.eye(n)[j], (m,), offset=[off], pad_mode=mode) for j in range(n)]).T
                A = np.array([resize_array(np.eye(m)[k], (n,), offset=[off], pad_mode=mode, direction='adjoint') for k in range(m)]).T
                if not np.allclose(A, F.T):
                    return {'reproduced': True, 'detail': 'n=%d m=%d off=%d: adjoint matrix is not the transpose of the forward matrix' % (n, m, off),
                            'input': {'n': n, 'm': m, 'offset': off, 'mode': mode}}
        except ValueError:
            continue
        except Exception as e:
            return {'reproduced': 'no_raise' in ob.get('name', ''), 'detail': 'native call raised %s: %s' % (type(e).__name__, e)}
    return {'reproduced': False, 'detail': 'contract holds natively on the tried extents'}
