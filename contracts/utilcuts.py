"""Contracts of small utility functions that are implemented with NumPy object-array tricks (assumed here,
cross-checked natively by the bounded unit `util/*` of C16)."""
from pyvc import core, interp as ip
from pyvc.core import S, Unsupported

NORM = 'odl.util.normalize:'
UTIL = 'odl.util.utility:'


def safe_int_conv(I, fr, number):
    k = I.scalar_kind(number)
    if k in ('int', 'bool'):
        return number if not isinstance(number, bool) else int(number)
    if k == 'real':
        if isinstance(number, float) and number == int(number):
            raise ip.PyRaise(I.make_exc('ValueError', 'cannot safely convert float to integer'))
        raise ip.PyRaise(I.make_exc('ValueError', 'cannot safely convert to integer'))
    raise ip.PyRaise(I.make_exc('ValueError', 'cannot safely convert to integer'))


def normalized_scalar_param_list(I, fr, param, length, param_conv=None, keep_none=True, return_nonconv=False):
    if isinstance(length, S):
        c = length.concrete()
        if c is None:
            raise Unsupported('normalized_scalar_param_list with symbolic length')
        length = int(c)
    if length < 0:
        raise ip.PyRaise(I.make_exc('ValueError', '`length` must be nonnegative'))
    if isinstance(param, (list, tuple)):
        if len(param) == 1:
            items = list(param) * length
        elif len(param) != length:
            raise ip.PyRaise(I.make_exc('ValueError', 'sequence `param` has wrong length'))
        else:
            items = list(param)
    else:
        items = [param] * length
    out = []
    for p in items:
        if param_conv is None or (p is None and keep_none):
            out.append(p)
        else:
            out.append(I.call(param_conv, [p], {}, fr))
    if return_nonconv:
        return (out, items)
    return out


def cuts():
    return {NORM + 'normalized_scalar_param_list': normalized_scalar_param_list, NORM + 'safe_int_conv': safe_int_conv}
