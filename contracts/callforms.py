"""Generic obligations on the call forms of one operator instance, shared by C03 (protocol, frames,
in-place == out-of-place) and C10 (aliased call op(x, out=x)).

The *real* Operator.__call__ (with _default_call_in_place / _default_call_out_of_place where the
class needs them) is executed for the instance under test; every other operator it calls is seen
through the Operator.__call__ contract only."""
from pyvc import core, interp as ip
from pyvc.core import S, C, V, VVar, VConst, VFresh, VLin, VPw, Unsupported
from contracts import lib, oplib
from contracts.lib import content, set_content
from contracts.oplib import OP, value_of, FieldSpec


def real_call(I, fr, inst, x, out=None):
    """Operator.__call__ from source for `inst` (bypasses the contract cut for this one call)"""
    f = I.get_func(OP + 'Operator.__call__')
    kw = {} if out is None else {'out': out}
    return I.call_func(f, [inst, x], kw, fr)


def fresh_input(domb, name, field, cont=None):
    if isinstance(domb, FieldSpec):
        from pyvc.odlmodel import sym_scalar
        return sym_scalar(name, field)
    return domb.element(name, cont=cont)


def run_forms(I, st, fr, inst, domb, ranb, field, stored, want=('oop', 'ip', 'alias')):
    """runs the requested call forms on separate copies of the input; returns a result dict.
    stored: {name: element} vectors held by the operator (must stay unchanged)."""
    res = {'stored': stored, 'stored_old': {k: value_of(v) for k, v in stored.items()}, 'forms': {}}
    xcont = None if isinstance(domb, FieldSpec) else VVar('x', domb.field or 'real')
    same_space = (not isinstance(domb, FieldSpec)) and (not isinstance(ranb, FieldSpec)) and \
        I.truth(I.py_eq(domb.space, ranb.space, fr), fr)
    for form in want:
        if form == 'ip' and isinstance(ranb, FieldSpec):
            continue
        if form == 'alias' and not same_space:
            continue
        x = fresh_input(domb, 'x', field, cont=xcont)
        if isinstance(domb, FieldSpec):
            xcont_v = x
            # scalars: one symbolic value shared by all forms
            if 'xscalar' in res:
                x = res['xscalar']
            res['xscalar'] = x
        out = None
        if form == 'ip':
            out = ranb.element('out.' + form, cont=VFresh('stale.' + form, ranb.field or 'real'))
        elif form == 'alias':
            out = x
        rec = {'x': x, 'out': out, 'xold': value_of(x)}
        ev0 = len(st.events)
        try:
            rec['ret'] = real_call(I, fr, inst, x, out)
            rec['status'] = 'ok'
        except ip.PyRaise as e:
            rec['status'] = 'raise'
            rec['exc'] = e.exc
        rec['xnew'] = value_of(x)
        rec['aliased_operand_calls'] = [e for e in st.events[ev0:] if e[0] == 'opcall' and e[3] is not None and e[3] is e[2]]
        res['forms'][form] = rec
    res['stored_new'] = {k: value_of(v) for k, v in stored.items()}
    return res


def check_forms(ctx, st, I, fr, res, ranb, info, props=('C03',), expected=None, allow_raise=None):
    """emit the obligations.  expected: optional spec value (V / scalar) of op(x)."""
    low = st.lower
    forms = res['forms']
    oop = forms.get('oop')
    ref = None
    for name, rec in forms.items():
        if rec['status'] == 'raise':
            exc = rec['exc']
            if allow_raise and allow_raise(name, exc):
                continue
            ctx.fail(st, '%s:no_raise' % name, 'raises %s%r' % (lib.exc_name(exc), exc.fields.get('args')), info)
    if oop and oop['status'] == 'ok':
        ret = oop['ret']
        if isinstance(ranb, FieldSpec):
            ctx.prove(st, 'oop:returns a scalar of the range field', I.scalar_kind(ret) is not None, info)
        else:
            ok = isinstance(ret, ip.Obj) and I.truth(I.contains(ranb.space, ret, fr), fr)
            ctx.prove(st, 'oop:returns an element of the range', ok, info)
            if ok:
                fresh = ret is not oop['x'] and all(ret is not v for v in res['stored'].values()) and \
                    getattr(ret, 'view_of', None) is None
                ctx.prove(st, 'oop:result is a new object (not the input, not a stored vector, not a view)', fresh, info)
        if isinstance(ret, ip.Obj) or I.scalar_kind(ret) is not None:
            ref = value_of(ret)
            if expected is not None:
                ctx.prove(st, 'oop:value == specification', lib.eq_goal(low, ref, expected), info)
        if isinstance(oop['x'], ip.Obj):
            ctx.prove(st, 'oop:input x unchanged', lib.eq_goal(low, oop['xnew'], oop['xold']), info)
    if 'C03' in props:
        for name in ('oop', 'ip'):
            rec = forms.get(name)
            if rec and rec['status'] == 'ok':
                # an operand is an ARBITRARY operator: it need not tolerate its output being its input, so a non-aliased call of the expression must not call an operand that way
                ctx.prove(st, '%s:no operand is evaluated with its output aliased to its input' % name, not rec.get('aliased_operand_calls'), dict(info, calls=repr(rec.get('aliased_operand_calls'))[:300]))
    ipr = forms.get('ip')
    if ipr and ipr['status'] == 'ok' and 'C03' in props:
        ctx.prove(st, 'ip:returns the very object out', ipr['ret'] is ipr['out'], info)
        if ref is not None:
            ctx.prove(st, 'ip:value == out-of-place value, whatever out held before', lib.eq_goal(low, value_of(ipr['out']), ref), info)
        elif expected is not None:
            ctx.prove(st, 'ip:value == specification', lib.eq_goal(low, value_of(ipr['out']), expected), info)
        if isinstance(ipr['x'], ip.Obj):
            ctx.prove(st, 'ip:input x unchanged', lib.eq_goal(low, ipr['xnew'], ipr['xold']), info)
    al = forms.get('alias')
    if al and al['status'] == 'ok' and 'C10' in props:
        ctx.prove(st, 'alias:returns the very object x', al['ret'] is al['x'], info)
        target = ref if ref is not None else (value_of(ipr['out']) if ipr and ipr['status'] == 'ok' else expected)
        if target is not None:
            ctx.prove(st, 'alias:op(x, out=x) leaves in x the value op(x) returns', lib.eq_goal(low, al['xnew'], target), info)
    for k in sorted(res['stored']):
        if isinstance(res['stored'][k], ip.Obj):
            ctx.prove(st, 'frame:stored vector %s unchanged' % k, lib.eq_goal(low, res['stored_new'][k], res['stored_old'][k]), info)
