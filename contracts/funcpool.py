"""A pool of concrete built-in functionals on concrete spaces (tensor spaces with one and several axes, weighted discretizations, plain / constant- /
array-weighted power spaces) for BOUNDED native stand-ins of C07 (proximal = minimiser), C08 (conjugate pairs, Moreau) and C09 (gradient = derivative of
the values).  Never counted as proved: one small instance per entry, random inputs with a fixed seed.  The closed-form proximals / conjugates / gradients
of the sort-, SVD- and group-norm based built-ins are outside the deductive subset (reductions over sorted data, PointwiseNorm on weighted power spaces)."""
import os
import sys


def _odl():
    root = os.environ.get('PYVC_REPO', '/repo')
    if root not in sys.path:
        sys.path.insert(0, root)
    import warnings
    warnings.filterwarnings('ignore')
    import numpy as np
    import odl
    return odl, np


def spaces(odl, np):
    r3 = odl.rn(3)
    d4 = odl.uniform_discr(0, 1, 4)
    return {
        'rn5': odl.rn(5),
        'rn2x3': odl.rn((2, 3)),
        'discr5': odl.uniform_discr(0, 1, 5),
        'discr3x2': odl.uniform_discr([0, 0], [1, 2], (3, 2)),
        'rn5w': odl.rn(5, weighting=2.5),
        'pow': r3 ** 2,
        'pow-w-array': odl.ProductSpace(r3, 2, weighting=[1.0, 3.0]),
        'pow-w-const': odl.ProductSpace(r3, 3, weighting=2.5),
        'pow-discr': d4 ** 2,
        'rn5-f32': odl.rn(5, dtype='float32'),
        'discr5-f32': odl.uniform_discr(0, 1, 5, dtype='float32'),
    }


def pool():
    """name -> builder(odl, np) of a functional"""
    odl, np = _odl()
    S = odl.solvers
    sp = spaces(odl, np)
    P = {}
    flat = ['rn5', 'rn2x3', 'discr5', 'discr3x2', 'rn5w']
    pows = ['pow', 'pow-w-array', 'pow-w-const', 'pow-discr']
    for k in flat:
        X = sp[k]
        P['L1Norm/' + k] = lambda X=X: S.L1Norm(X)
        P['L2Norm/' + k] = lambda X=X: S.L2Norm(X)
        P['L2NormSquared/' + k] = lambda X=X: S.L2NormSquared(X)
        P['LinfNorm/' + k] = lambda X=X: S.LpNorm(X, float('inf'))
        P['IndicatorL1Ball/' + k] = lambda X=X: S.IndicatorLpUnitBall(X, 1)
        P['IndicatorL2Ball/' + k] = lambda X=X: S.IndicatorLpUnitBall(X, 2)
        P['IndicatorLinfBall/' + k] = lambda X=X: S.IndicatorLpUnitBall(X, float('inf'))
        P['IndicatorSimplex/' + k] = lambda X=X: S.IndicatorSimplex(X, diameter=1.5)
        P['IndicatorSumConstraint/' + k] = lambda X=X: S.IndicatorSumConstraint(X, sum_value=1.5)
        P['IndicatorBox/' + k] = lambda X=X: S.IndicatorBox(X, -0.5, 0.75)
        P['IndicatorNonnegativity/' + k] = lambda X=X: S.IndicatorNonnegativity(X)
        P['IndicatorZero/' + k] = lambda X=X: S.IndicatorZero(X)
        P['Huber/' + k] = lambda X=X: S.Huber(X, 0.6)
        P['KullbackLeibler/' + k] = lambda X=X: S.KullbackLeibler(X, prior=X.element(np.linspace(0.5, 2.0, X.size).reshape(X.shape)))
        P['KullbackLeibler-zero-prior/' + k] = lambda X=X: S.KullbackLeibler(X, prior=X.element(np.maximum(np.linspace(-0.5, 2.0, X.size), 0).reshape(X.shape)))
        P['KullbackLeiblerCrossEntropy/' + k] = lambda X=X: S.KullbackLeiblerCrossEntropy(X, prior=X.element(np.linspace(0.5, 2.0, X.size).reshape(X.shape)))
        P['QuadraticForm/' + k] = lambda X=X: S.QuadraticForm(operator=odl.ScalingOperator(X, 3.0), vector=X.element(np.linspace(-1, 1, X.size).reshape(X.shape)), constant=0.5)
        P['MoreauEnvelope-L1/' + k] = lambda X=X: S.MoreauEnvelope(S.L1Norm(X), sigma=0.7)
        P['ZeroFunctional/' + k] = lambda X=X: S.ZeroFunctional(X)
    for k in ('rn5-f32', 'discr5-f32'):
        # single precision: only finiteness of f(p) and in-place == out-of-place are checked (the probes need double precision)
        X = sp[k]
        P['IndicatorL2Ball/' + k] = lambda X=X: S.IndicatorLpUnitBall(X, 2)
        P['IndicatorLinfBall/' + k] = lambda X=X: S.IndicatorLpUnitBall(X, float('inf'))
        P['IndicatorBox/' + k] = lambda X=X: S.IndicatorBox(X, -0.5, 0.75)
        P['L2Norm/' + k] = lambda X=X: S.L2Norm(X)
        P['L1Norm/' + k] = lambda X=X: S.L1Norm(X)
    for k in pows:
        X = sp[k]
        P['GroupL1Norm-2/' + k] = lambda X=X: S.GroupL1Norm(X, 2)
        P['GroupL1Norm-1/' + k] = lambda X=X: S.GroupL1Norm(X, 1)
        P['IndicatorGroupL1UnitBall-2/' + k] = lambda X=X: S.IndicatorGroupL1UnitBall(X, 2)
        P['IndicatorGroupL1UnitBall-inf/' + k] = lambda X=X: S.IndicatorGroupL1UnitBall(X, float('inf'))
        P['Huber/' + k] = lambda X=X: S.Huber(X, 0.6)
        P['L1Norm/' + k] = lambda X=X: S.L1Norm(X)
        P['L2NormSquared/' + k] = lambda X=X: S.L2NormSquared(X)
        P['SeparableSum/' + k] = lambda X=X: S.SeparableSum(*[S.L1Norm(s) if i % 2 == 0 else S.L2NormSquared(s) for i, s in enumerate(X.spaces)]) if not X.is_weighted else None
    r3 = odl.rn(3)
    P['NuclearNorm-1-2/pow2x2'] = lambda: S.NuclearNorm(odl.ProductSpace(odl.ProductSpace(r3, 2), 2), 1, 2)
    P['NuclearNorm-2-2/pow2x2'] = lambda: S.NuclearNorm(odl.ProductSpace(odl.ProductSpace(r3, 2), 2), 2, 2)
    P['NuclearNorm-1-1/pow2x2'] = lambda: S.NuclearNorm(odl.ProductSpace(odl.ProductSpace(r3, 2), 2), 1, 1)
    return P


def rand(space, rng, odl, np, scale=1.5):
    if isinstance(space, odl.ProductSpace):
        return space.element([rand(s, rng, odl, np, scale) for s in space.spaces])
    return space.element(rng.standard_normal(space.shape) * scale)


def _build(name):
    f = pool()[name]()
    return f


def _finite(v):
    import math
    return isinstance(v, (int, float)) and math.isfinite(v) or (hasattr(v, 'dtype') and bool(v == v) and abs(float(v)) != float('inf'))


def _value_up_to_rounding(f, p, ball=None):
    """f(p); an indicator evaluated ON the boundary of its set may come out inf by rounding (A1: rounding is not decided): retry a hair inside"""
    import math
    v = float(f(p))
    if ball is None:
        ball = type(f).__name__.startswith('Indicator')
    if math.isinf(v) and ball:
        w = float(f((1 - 1e-9) * p))
        if math.isfinite(w):
            return w
    return v


def check_prox(name):
    """p = f.proximal(sigma)(x) has finite f(p) and no probe (local perturbations of p in random and coordinate directions, x itself, convex combinations)
    has a smaller value of f(z) + ||z - x||^2 / (2 sigma), the norm being the space's own; in-place == out-of-place.  Returns (failure or None, evaluations)."""
    odl, np = _odl()
    f = _build(name)
    if f is None:
        return None, 0
    rng = np.random.default_rng(21)
    X = f.domain
    n = 0
    try:
        f.proximal
    except NotImplementedError:
        return None, 0
    positive = name.startswith('KullbackLeibler')
    if name.startswith('KullbackLeibler-zero-prior'):
        return None, 0          # with prior entries 0 the minimiser has entries 0, where the library defines the functional as +inf (documented domain x > 0): outside the claim
    for sigma in (0.4, 1.7):
        for trial in range(3):
            x = rand(X, rng, odl, np)
            if positive:
                x = x.ufuncs.absolute() + 0.3
            x0 = x.copy()
            try:
                prox = f.proximal(sigma)
            except NotImplementedError:
                return None, n
            except Exception as e:
                return '%s.proximal(%r) raised %s: %s' % (name, sigma, type(e).__name__, e), n + 1
            try:
                p = prox(x)
            except Exception as e:
                return '%s.proximal(%r)(x) raised %s: %s' % (name, sigma, type(e).__name__, e), n + 1
            n += 1
            if (x - x0).norm() != 0:
                return '%s.proximal(%r)(x) modified x' % (name, sigma), n
            fp = _value_up_to_rounding(f, p)
            if not np.isfinite(fp):
                return '%s.proximal(%r)(x): f(p) = %r is not finite; x = %r, p = %r' % (name, sigma, fp, x, p), n
            single = name.endswith('-f32')
            q = X.element()
            r = prox(x, out=q)
            if r is not q or (q - p).norm() > (1e-5 if single else 1e-10) * max(1.0, p.norm()):
                return '%s.proximal(%r): in-place result differs from out-of-place (%r vs %r)' % (name, sigma, q, p), n

            if single:
                continue

            def obj(z):
                return float(f(z)) + (z - x).norm() ** 2 / (2 * sigma)
            op = obj(p)
            probes = [x, 0.5 * (x + p)]
            for eps in (1e-1, 1e-2, 1e-3):
                for _ in range(6):
                    probes.append(p + eps * rand(X, rng, odl, np, 1.0))
                    d = rand(X, rng, odl, np, 1.0)
                    probes.append(p + eps * d.ufuncs.sign() * (rng.integers(0, 2) * 2 - 1))
                # feasible directions for indicator functionals: move towards other prox points / towards zero
                probes.append(p + eps * (prox(rand(X, rng, odl, np)) - p))
                probes.append((1 - eps) * p)
            for z in probes:
                oz = obj(z)
                n += 1
                if oz < op - 1e-9 * max(1.0, abs(op)):
                    return '%s.proximal(%r)(x) is not the minimiser: objective %.10g at p = %r but %.10g at z = %r (x = %r)' % (name, sigma, op, p, oz, z, x), n
    return None, n


def check_conj(name):
    """Fenchel-Young inequality at random pairs, equality at y = gradient(x) where the gradient exists, biconjugate values, Moreau decomposition"""
    odl, np = _odl()
    if name.endswith('-f32'):
        return None, 0          # single-precision entries serve the proximal check only (tolerances here are double precision)
    f = _build(name)
    if f is None:
        return None, 0
    rng = np.random.default_rng(22)
    X = f.domain
    n = 0
    try:
        fc = f.convex_conj
    except NotImplementedError:
        return None, 0
    except Exception as e:
        return '%s.convex_conj raised %s: %s' % (name, type(e).__name__, e), 1
    positive = name.startswith('KullbackLeibler')
    for trial in range(6):
        x, y = rand(X, rng, odl, np), rand(X, rng, odl, np, 0.6)
        if positive:
            x = x.ufuncs.absolute() + 0.3
            y = 0.9 - y.ufuncs.absolute()
        try:
            fx, fy, ip = float(f(x)), float(fc(y)), float(x.inner(y))
        except NotImplementedError:
            return None, n
        except Exception as e:
            return '%s: evaluating f / f* raised %s: %s' % (name, type(e).__name__, e), n + 1
        n += 1
        if fx + fy < ip - 1e-9 * max(1.0, abs(ip)):
            return '%s: Fenchel-Young violated: f(x) + f*(y) = %r + %r < <x, y> = %r (x = %r, y = %r)' % (name, fx, fy, ip, x, y), n
        # equality at the gradient
        try:
            g = f.gradient(x)
        except Exception:
            g = None
        if g is not None and np.isfinite(fx) and g in X:
            fg, ig = _value_up_to_rounding(fc, g, ball=not name.startswith('KullbackLeibler')), float(x.inner(g))      # the conjugates of the norm-like entries are (sums with) indicators of dual balls, the gradient lies ON the ball up to rounding; the KL conjugates are finite at their documented boundary
            n += 1
            if abs(fx + fg - ig) > 1e-8 * max(1.0, abs(ig), abs(fx)):
                return '%s: f(x) + f*(grad f(x)) = %r + %r but <x, grad f(x)> = %r (x = %r)' % (name, fx, fg, ig, x), n
        # biconjugate
        try:
            fcc = fc.convex_conj
            v = float(fcc(x))
            n += 1
            if np.isfinite(fx) and abs(v - fx) > 1e-8 * max(1.0, abs(fx)):
                return '%s: f.convex_conj.convex_conj(x) = %r but f(x) = %r (x = %r)' % (name, v, fx, x), n
        except NotImplementedError:
            pass
        except Exception as e:
            return '%s: biconjugate raised %s: %s' % (name, type(e).__name__, e), n + 1
        # Moreau decomposition
        for sigma in (0.4, 1.7):
            try:
                a = f.proximal(sigma)(x)
                b = fc.proximal(1.0 / sigma)(x / sigma)
            except NotImplementedError:
                break
            except Exception:
                break          # a proximal that cannot be evaluated is C07's business (functional-pool/prox); Moreau is claimed where both proximals exist
            n += 1
            err = (a + sigma * b - x).norm()
            if err > 1e-8 * max(1.0, x.norm()):
                return '%s: Moreau decomposition violated for sigma = %r: ||prox_{sigma f}(x) + sigma prox_{f*/sigma}(x/sigma) - x|| = %.3g (x = %r)' % (name, sigma, err, x), n
    return None, n


def check_grad(name):
    """inner(f.gradient(x), d) == f.derivative(x)(d) == central differences of the values, in the functional's own inner product"""
    odl, np = _odl()
    if name.endswith('-f32'):
        return None, 0          # single-precision entries serve the proximal check only (tolerances here are double precision)
    f = _build(name)
    if f is None:
        return None, 0
    rng = np.random.default_rng(23)
    X = f.domain
    n = 0
    positive = name.startswith('KullbackLeibler')
    for trial in range(5):
        x, d = rand(X, rng, odl, np), rand(X, rng, odl, np, 1.0)
        if positive:
            x = x.ufuncs.absolute() + 0.5
        try:
            g = f.gradient(x)
            fx = float(f(x))
        except NotImplementedError:
            return None, n
        except Exception as e:
            return '%s.gradient(x) raised %s: %s' % (name, type(e).__name__, e), n + 1
        if g not in X:
            return None, n
        if not np.isfinite(fx):
            continue
        vals = []
        for t in (1e-4, 1e-5):
            vals.append((float(f(x + t * d)) - float(f(x - t * d))) / (2 * t))
        if not all(np.isfinite(v) for v in vals) or abs(vals[0] - vals[1]) > 1e-4 * max(1.0, abs(vals[1])):
            continue            # not differentiable along d at this point (kink): skipped
        gi = float(g.inner(d))
        n += 1
        if abs(gi - vals[1]) > 1e-5 * max(1.0, abs(vals[1])):
            return '%s: inner(gradient(x), d) = %r but the values have directional derivative %r (x = %r, d = %r)' % (name, gi, vals[1], x, d), n
        try:
            dv = float(f.derivative(x)(d))
            n += 1
            if abs(dv - vals[1]) > 1e-5 * max(1.0, abs(vals[1])):
                return '%s: derivative(x)(d) = %r but the values have directional derivative %r' % (name, dv, vals[1]), n
        except NotImplementedError:
            pass
    return None, n
