"""Native search for a failing input of a C12 obligation, and the bounded run-time monitor of the thorough tier.

The deductive obligations of C12 quantify over abstract operators / functionals; `replay` runs the *real* solvers
(CPython, NumPy) on a stated, bounded family of small problems and reports the first instance on which the claim of
the obligation's unit fails natively:

descent/*   random s.p.d. / rectangular matrices: monotone energy error (CG; plus exactness after n steps, bounded),
            monotone residual (CGN, Landweber), monotone distance (Kaczmarz, consistent system), monotone objective
            (steepest descent with BacktrackingLineSearch)
opnorm/*    power_method_opnorm(A) <= sigma_max(A) (1 + 1e-10)
kkt/*       lasso-type problems with a closed-form solution  min 1/2||x - a||^2 + lam ||x||_1  (soft threshold), written in
            the form each solver accepts, admissible step sizes: the iterates approach the solution, and the solver started
            at the solution stays there; plus the saddle problem  min_x i_{0}(x)  for forward_backward_pd
stepsize/*  the returned steps satisfy the documented inequality for random norms"""
import os
import sys


def _odl():
    root = os.environ.get('PYVC_REPO', '/repo')
    if root not in sys.path:
        sys.path.insert(0, root)
    import warnings
    warnings.filterwarnings('ignore')
    import odl
    import numpy as np
    return odl, np


class Rec(object):
    def __init__(self):
        self.its = []

    def __call__(self, x):
        self.its.append(x.copy())


def soft(np, a, lam):
    return np.sign(a) * np.maximum(np.abs(a) - lam, 0)


def instances(kind, cfg, n_inst, seed):
    odl, np = _odl()
    S = odl.solvers
    rng = np.random.default_rng(seed)
    for t in range(n_inst):
        n, k = int(rng.integers(2, 6)), int(rng.integers(2, 6))
        desc = {'n': n, 'k': k, 'seed': seed, 'instance': t}
        X, Y = odl.rn(n), odl.rn(k)
        if kind == 'cg':
            B = rng.standard_normal((n, n))
            M = B @ B.T + 0.1 * np.eye(n)
            A = odl.MatrixOperator(M, domain=X, range=X)
            xs = rng.standard_normal(n)
            b = X.element(M @ xs)

            def check(A=A, M=M, xs=xs, b=b, n=n):
                rec = Rec()
                x = X.element(rng.standard_normal(n))
                e0 = (x.asarray() - xs) @ M @ (x.asarray() - xs)
                S.conjugate_gradient(A, x, b, niter=n, callback=rec)
                prev = e0
                for i, it in enumerate(rec.its):
                    e = (it.asarray() - xs) @ M @ (it.asarray() - xs)
                    if e > prev * (1 + 1e-9) + 1e-12:
                        return 'energy-norm error increases at step %d: %r -> %r' % (i + 1, prev, e)
                    prev = e
                if len(rec.its) == n and np.linalg.norm(rec.its[-1].asarray() - xs) > 1e-5 * (1 + np.linalg.norm(xs)) * np.linalg.cond(M):
                    return 'not exact after n=%d steps: error %r' % (n, np.linalg.norm(rec.its[-1].asarray() - xs))
            yield desc, check
        elif kind in ('cgn', 'landweber'):
            M = rng.standard_normal((k, n))
            A = odl.MatrixOperator(M, domain=X, range=Y)
            b = Y.element(rng.standard_normal(k))
            omega = float(rng.uniform(0.2, 1.99)) / np.linalg.norm(M, 2) ** 2

            def check(A=A, M=M, b=b, omega=omega):
                rec = Rec()
                x = X.element(rng.standard_normal(n))
                prev = np.linalg.norm(M @ x.asarray() - b.asarray())
                if kind == 'cgn':
                    S.conjugate_gradient_normal(A, x, b, niter=6, callback=rec)
                else:
                    S.landweber(A, x, b, niter=12, omega=omega, callback=rec)
                for i, it in enumerate(rec.its):
                    r = np.linalg.norm(M @ it.asarray() - b.asarray())
                    if r > prev * (1 + 1e-9) + 1e-12:
                        return 'residual increases at step %d: %r -> %r' % (i + 1, prev, r)
                    prev = r
            yield dict(desc, omega=omega), check
        elif kind == 'kaczmarz':
            m = int(cfg.get('m', 2))
            Ms = [rng.standard_normal((int(rng.integers(1, 4)), n)) for _ in range(m)]
            ops = [odl.MatrixOperator(Mi, domain=X, range=odl.rn(Mi.shape[0])) for Mi in Ms]
            xs = rng.standard_normal(n)
            rhs = [o.range.element(Mi @ xs) for o, Mi in zip(ops, Ms)]
            om = [float(rng.uniform(0.2, 1.99)) / np.linalg.norm(Mi, 2) ** 2 for Mi in Ms]
            rnd = bool(cfg.get('random'))

            def check(ops=ops, rhs=rhs, om=om, xs=xs, rnd=rnd):
                rec = Rec()
                x = X.element(rng.standard_normal(n))
                prev = np.linalg.norm(x.asarray() - xs)
                np.random.seed(3)
                S.kaczmarz(ops, x, rhs, niter=8, omega=om, random=rnd, callback=rec)
                for i, it in enumerate(rec.its):
                    d = np.linalg.norm(it.asarray() - xs)
                    if d > prev * (1 + 1e-9) + 1e-12:
                        return 'distance to the solution increases in sweep %d: %r -> %r' % (i + 1, prev, d)
                    prev = d
            yield dict(desc, omega=om, random=rnd), check
        elif kind in ('steepest_descent', 'backtracking'):
            B = rng.standard_normal((n, n))
            Q = odl.MatrixOperator(B @ B.T + 0.1 * np.eye(n), domain=X, range=X)
            f = S.QuadraticForm(operator=Q, vector=X.element(rng.standard_normal(n)))
            ls = S.BacktrackingLineSearch(f, tau=float(rng.uniform(0.2, 0.8)), discount=float(rng.uniform(0.01, 0.5)), estimate_step=bool(cfg.get('estimate_step')))

            def check(f=f, ls=ls):
                rec = Rec()
                x = X.element(rng.standard_normal(n))
                prev = f(x)
                S.steepest_descent(f, x, line_search=ls, maxiter=15, callback=rec)
                for i, it in enumerate(rec.its):
                    v = f(it)
                    if v > prev + 1e-12 * (1 + abs(prev)):
                        return 'objective increases at step %d: %r -> %r' % (i + 1, prev, v)
                    prev = v
            yield desc, check
        elif kind == 'power_method':
            sa = bool(cfg.get('self_adjoint'))
            if sa:
                B = rng.standard_normal((n, n))
                M = B + B.T
                A = odl.MatrixOperator(M, domain=X, range=X)
                A = A + 0 * A      # not recognised as self-adjoint by identity: the normal-equation branch; the symmetric branch needs `op.adjoint is op`
                M_ = M
                if t % 2 == 1:
                    # an operator whose adjoint IS the operator (the symmetric branch of the power method), norm away from 1
                    class Sym(odl.Operator):
                        def __init__(self, mat):
                            self.mat = mat
                            super(Sym, self).__init__(domain=X, range=X, linear=True)

                        def _call(self, x):
                            return X.element(self.mat.dot(x.asarray()))

                        @property
                        def adjoint(self):
                            return self
                    M_ = M * float(rng.choice([0.05, 1.0, 4.0]))
                    A = Sym(M_)
            else:
                M_ = rng.standard_normal((k, n))
                A = odl.MatrixOperator(M_, domain=X, range=Y)
            true = np.linalg.norm(M_, 2)
            mi = 2 * int(rng.integers(1, 15))

            def check(A=A, true=true, mi=mi):
                est = odl.power_method_opnorm(A, xstart=X.element(rng.standard_normal(n) + 0.1), maxiter=mi)
                if est > true * (1 + 1e-10):
                    return 'estimate %r exceeds the operator norm %r' % (est, true)
            yield dict(desc, maxiter=mi), check
        elif kind in ('pdhg', 'forward_backward_pd', 'douglas_rachford_pd', 'proximal_gradient', 'accelerated_proximal_gradient', 'admm_linearized'):
            a = rng.standard_normal(n) * 2
            lam = float(rng.uniform(0.1, 1.0))
            xs = soft(np, a, lam)
            I_ = odl.IdentityOperator(X)
            half = 0.5 * S.L2NormSquared(X).translated(X.element(a))
            l1 = lam * S.L1Norm(X)
            x0 = X.element(rng.standard_normal(n))

            def solve(x, niter, cb=None):
                if kind == 'pdhg':
                    S.pdhg(x, half, l1, I_, niter, tau=0.5, sigma=0.5, callback=cb)
                elif kind == 'forward_backward_pd':
                    S.forward_backward_pd(x, S.ZeroFunctional(X), [l1], [I_], half, tau=0.5, sigma=[0.5], niter=niter, callback=cb)
                elif kind == 'douglas_rachford_pd':
                    S.douglas_rachford_pd(x, half, [l1], [I_], niter, tau=1.0, sigma=[1.0], callback=cb)
                elif kind == 'proximal_gradient':
                    S.proximal_gradient(x, l1, half, gamma=0.7, niter=niter, callback=cb, **({} if t % 3 == 0 else {'lam': 0.6 if t % 3 == 1 else (lambda it: 0.8)}))       # relaxation 1 (default), constant, callable
                elif kind == 'accelerated_proximal_gradient':
                    S.accelerated_proximal_gradient(x, l1, half, gamma=0.7, niter=niter, callback=cb)
                else:
                    S.admm_linearized(x, half, l1, I_, 0.4, 0.5, niter, callback=cb)

            def check(solve=solve, x0=x0, xs=xs):
                x = x0.copy()
                solve(x, 1500)
                err = np.linalg.norm(x.asarray() - xs)
                if not err < 1e-6 * (1 + np.linalg.norm(xs)):
                    return 'after 1500 iterations with admissible steps the iterate is %r away from the solution %r (got %r)' % (err, xs, x)
            yield dict(desc, a=a.tolist(), lam=lam), check
            if kind == 'douglas_rachford_pd':
                # two operators into ONE range space (temporaries keyed by range): min 1/2 |x - a|^2 + lam/2 |x|_1 + lam/2 |M x|_1 with M = -I has the same solution
                def solve2(x, niter, cb=None, l1=l1):
                    S.douglas_rachford_pd(x, half, [0.5 * l1, 0.5 * l1], [I_, -1.0 * I_], niter, tau=1.0, sigma=[1.0, 0.7], callback=cb)

                def check_shared(solve=solve2, x0=x0, xs=xs):
                    x = x0.copy()
                    solve(x, 3000)
                    err = np.linalg.norm(x.asarray() - xs)
                    if not err < 1e-6 * (1 + np.linalg.norm(xs)):
                        return 'two operators with the same range: after 3000 iterations with admissible steps the iterate is %r away from the solution %r (got %r)' % (err, xs, x)
                yield dict(desc, a=a.tolist(), lam=lam, shared_range=True), check_shared
            if kind == 'forward_backward_pd' and t == 0:
                # saddle problem min_x i_{0}(x): f = 0, g = i_{0} (g* = 0), h = 0, L = I, tau = sigma = 1/2 (admissible: 1/tau - sigma ||L||^2 > 0)
                X1 = odl.rn(1)

                def check2():
                    x = X1.element([1.0])
                    rec = Rec()
                    S.forward_backward_pd(x, S.ZeroFunctional(X1), [S.IndicatorZero(X1)], [odl.IdentityOperator(X1)], S.ZeroFunctional(X1), tau=0.5, sigma=[0.5], niter=400, callback=rec)
                    if abs(float(x[0])) > 1e-6:
                        return 'min_x i_{0}(x), x0 = 1, tau = sigma = 0.5: iterate after 400 iterations is %r (solution 0; textbook iteration contracts with factor sqrt(1 - tau sigma))' % float(x[0])
                yield {'problem': 'indicator of {0}, L = I, x0 = 1, tau = sigma = 0.5', 'seed': seed, 'instance': -1}, check2
        elif kind == 'stepsize_pdhg':
            N = float(rng.uniform(0.1, 10))
            tau = float(rng.uniform(0.01, 3)) if cfg.get('given') in ('tau',) else None
            sigma = float(rng.uniform(0.01, 3)) if cfg.get('given') in ('sigma',) else None

            def check(N=N, tau=tau, sigma=sigma):
                t_, s_ = S.pdhg_stepsize(N, tau, sigma)
                if not (t_ > 0 and s_ > 0 and t_ * s_ * N ** 2 < 1):
                    return 'pdhg_stepsize(%r, %r, %r) = %r: not admissible' % (N, tau, sigma, (t_, s_))
            yield dict(desc, N=N, tau=tau, sigma=sigma), check
        elif kind == 'stepsize_dr':
            from odl.solvers.nonsmooth.douglas_rachford import douglas_rachford_pd_stepsize
            m = int(cfg.get('m', 2))
            Ns = [float(rng.uniform(0.1, 10)) for _ in range(m)]
            tau = float(rng.uniform(0.01, 3)) if cfg.get('given') == 'tau' else None
            sigma = [float(rng.uniform(0.01, 3)) for _ in range(m)] if cfg.get('given') == 'sigma' else None

            def check(Ns=Ns, tau=tau, sigma=sigma):
                t_, s_ = douglas_rachford_pd_stepsize(Ns, tau, sigma)
                if not (t_ > 0 and all(x > 0 for x in s_) and t_ * sum(x * N ** 2 for x, N in zip(s_, Ns)) < 4):
                    return 'douglas_rachford_pd_stepsize(%r, %r, %r) = %r: not admissible' % (Ns, tau, sigma, (t_, s_))
            yield dict(desc, Ns=Ns, tau=tau, sigma=sigma), check
        else:
            return


def kind_of(unit, cfg):
    p = unit.split('/')
    if p[0] == 'descent':
        return p[1]
    if p[0] == 'opnorm':
        return 'power_method'
    if p[0] == 'kkt':
        return p[1]
    if p[0] == 'stepsize':
        return 'stepsize_pdhg' if p[1] == 'pdhg' else 'stepsize_dr'
    if p[0] == 'monitor':
        return p[1]
    return None


def search(kind, cfg, n_inst=25, seed=5, skip_recorded=False):
    tried = 0
    for desc, check in instances(kind, cfg, n_inst, seed):
        if skip_recorded and desc.get('instance') == -1:
            continue
        tried += 1
        try:
            bad = check()
        except Exception as e:
            bad = None
            desc['skipped'] = '%s: %s' % (type(e).__name__, e)
        if bad:
            return {'reproduced': True, 'detail': bad, 'input': desc, 'tried': tried}
    if tried == 0:
        return {'reproduced': False, 'detail': 'no native concretisation for this obligation kind'}
    return {'reproduced': False, 'detail': 'no failing input among %d native instances' % tried, 'tried': tried}


def replay_case(case):
    idx, seed = int(case['input']['instance']), int(case['seed'])
    for desc, check in instances(case['kind'], case['cfg'], max(idx, 0) + 1, seed):
        if desc['instance'] == idx:
            try:
                bad = check()
            except Exception as e:
                return {'reproduced': False, 'detail': 'instance raised %s: %s' % (type(e).__name__, e)}
            return {'reproduced': bool(bad), 'detail': bad or 'holds natively', 'input': desc}
    return {'reproduced': False, 'detail': 'instance not regenerated'}


def replay(ob):
    if (ob.get('replay') or {}).get('kind') == 'native-case':
        return replay_case(ob['replay']['case'])
    cfg = dict(ob.get('config') or {})
    kind = kind_of(ob['unit'], cfg)
    parts = ob['unit'].split('/')
    if kind is None or (parts[0] == 'kkt' and len(parts) > 2 and parts[2] in ('fixed_to_kkt', 'kkt_to_fixed')):
        # the solvers initialise their dual variables themselves: a run cannot be started at a primal-dual fixed point
        return {'reproduced': False, 'detail': 'no native concretisation for this obligation kind'}
    if ob.get('status') == 'proved':
        # engine / CPython cross-check of a proved contract: few instances, and not the instance of the recorded finding (it belongs to a different, refuted obligation)
        return search(kind, cfg, n_inst=5, skip_recorded=True)
    return search(kind, cfg)
