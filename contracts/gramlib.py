"""Gram algebra for one-step solver lemmas (C12): inner products of real vector terms are expanded bilinearly over
atoms and every atom pair is brought to a canonical form with the adjoint law and symmetry,

    <O1 O2 a, Q1 Q2 b>  =  <a, O2* O1* Q1 Q2 b>  =  <b, Q2* Q1* O1 O2 a>        (linear O, Q; real space)

so that two inner products are the same z3 symbol iff they are equal by (bi)linearity, the adjoint law, symmetry and
(for operators declared self-adjoint) A* = A.  Facts: <u, u> >= 0; operator-norm bounds are instantiated on demand."""
import z3

from pyvc import core
from pyvc.core import S, V, VVar, VConst, VLin, VPw, VApp, Unsupported
from contracts.oplib import adjoint_sym


def strip(a):
    """a = O1(O2(... base)) with linear O: ([O1, O2, ...], base)"""
    chain = []
    while isinstance(a, VApp) and a.op.linear and len(a.args) == 1 and isinstance(a.args[0], V) and not getattr(a.op, 'antilinear', False):
        chain.append(a.op)
        a = a.args[0]
    return chain, a


def _key(a):
    return repr(a.key())


def gsym(st, a, b):
    ca, ba = strip(a)
    cb, bb = strip(b)
    # <ca ba, cb bb> = <ba, rev(ca)* cb bb>
    W = [adjoint_sym(o) for o in reversed(ca)] + cb
    Wr = [adjoint_sym(o) for o in reversed(W)]
    f1 = (_key(ba), tuple(o.name for o in W), _key(bb))
    f2 = (_key(bb), tuple(o.name for o in Wr), _key(ba))
    form = min(f1, f2)
    tab = st.__dict__.setdefault('gram_syms', {})
    if form not in tab:
        tab[form] = S(z3.Real('G<%s|%s|%s>#%d' % (form[0][:24], '.'.join(form[1]), form[2][:24], len(tab))))
    return tab[form]


def ginner(st, u, v):
    """<u, v> in the (real) space the two terms live in"""
    low = st.lower
    u = u if isinstance(u, V) else VConst(u)
    v = v if isinstance(v, V) else VConst(v)
    lu, lv = low.linform(u), low.linform(v)
    acc = S.lift(0.0)
    for c, a in lu:
        for d, b in lv:
            acc = acc + core._sc(c) * core._sc(d) * gsym(st, a, b)
    if u is v or _key(u) == _key(v):
        st.assume(acc >= 0)
    return acc


def sqnorm(st, u):
    r = ginner(st, u, u)
    st.assume(r >= 0)
    return r


def cs_fact(st, u, v):
    """instance of the Cauchy-Schwarz inequality  <u, v>^2 <= <u, u> <v, v>"""
    g = ginner(st, u, v)
    st.assume(g * g <= sqnorm(st, u) * sqnorm(st, v))


def install(st):
    """element.inner / norm / dist of the abstract tensor space evaluate in the Gram algebra"""
    st.inner_fn = lambda I, fr, space, a, b: ginner(fr.st, a, b)
