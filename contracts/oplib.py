"""Operator vocabulary for C03-C06, C09-C12: abstract operators, the semantic function `sem` of the
operator-expression classes (the property's algebra table), and the contract of Operator.__call__."""
import ast

from pyvc import core, interp as ip
from pyvc.core import S, C, V, VVar, VConst, VFresh, VLin, VPw, VApp, OpSym, Unsupported
from contracts import lib
from contracts.lib import content, set_content, SPACE

OP = 'odl.operator.operator:'


class FieldSpec(object):
    """a field used as domain / range of an operator"""

    def __init__(self, I, kind):
        from pyvc.odlmodel import field_obj
        self.kind = kind
        self.space = field_obj(I, kind)
        self.field = kind


def is_field_obj(I, o):
    return isinstance(o, ip.Obj) and I.isinstance(o, I.get_class('odl.set.sets:Field'))


class AbsOp(object):
    """an arbitrary operator A: dom -> ran (instance of the real class Operator), known only through
    app(A, .) and its linearity flag"""

    def __init__(self, I, name, dom, ran, linear=False):
        self.I, self.name, self.dom, self.ran = I, name, dom, ran
        cls = I.get_class(OP + 'Operator')
        op = ip.Obj(cls)
        op.fields['_Operator__domain'] = dom.space
        op.fields['_Operator__range'] = ran.space
        op.fields['_Operator__is_linear'] = bool(linear)
        op.fields['_Operator__is_functional'] = isinstance(ran, FieldSpec)
        op.opsym = OpSym(name, linear=bool(linear))
        op.absop = self
        self.op = op
        self.adj = None
        self.derivs = {}


def register_space(asp):
    asp.space.builder = asp
    return asp


def new_range_value(I, fr, rng, val):
    """fresh element of the space `rng` holding `val`, or the scalar itself when rng is a field"""
    if is_field_obj(I, rng):
        return val
    b = getattr(rng, 'builder', None)
    if b is None:
        raise Unsupported('range space without builder')
    return b.element(cont=val)


def value_of(x):
    """content of an element or the scalar itself"""
    if isinstance(x, ip.Obj):
        return content(x)
    if hasattr(x, 'nd_content'):
        return x.nd_content
    return x


def v_add(a, b):
    if isinstance(a, V) or isinstance(b, V):
        a = a if isinstance(a, V) else VConst(a)
        b = b if isinstance(b, V) else VConst(b)
        return VLin([(1, a), (1, b)])
    return a + b


def v_mul(a, b):
    if isinstance(a, V) and isinstance(b, V):
        return core.vmul(a, b)
    if isinstance(a, V):
        return VLin([(b, a)])
    if isinstance(b, V):
        return VLin([(a, b)])
    return a * b


def field_kind_of(I, fr, space):
    if is_field_obj(I, space):
        return 'complex' if space.cls.name == 'ComplexNumbers' else 'real'
    b = getattr(space, 'builder', None)
    if b is not None:
        return b.field or 'real'
    return 'real'


def app_abstract(I, fr, op, v):
    """app(A, v) for an abstract leaf operator"""
    rng = I._getattr(op, 'range', fr)
    fld = field_kind_of(I, fr, rng)
    arg = v if isinstance(v, V) else VConst(v)
    t = VApp(op.opsym, (arg,), fld)
    if is_field_obj(I, rng):
        dom = I._getattr(op, 'domain', fr)
        if op.opsym.linear and not is_field_obj(I, dom):
            # linear functional in Riesz form: f(v) = <v, f*(1)>  (what Adj(f, f*) means for a functional)
            rep = VApp(adjoint_sym(op.opsym), (VConst(1.0),), field_kind_of(I, fr, dom))
            return inner(I, fr, dom, arg, rep)
        return fr.st.lower(t)          # scalar value: the (index independent) lowered atom
    return t


SEM = {}


def sem(I, fr, op, v):
    """value of operator object `op` at `v` as defined by the property's algebra table, structurally over
    the expression classes; abstract leaves give app(A, v)"""
    if hasattr(op, 'opsym'):
        return app_abstract(I, fr, op, v)
    if hasattr(op, 'sem'):
        return op.sem(I, fr, v)
    for k in op.cls.mro:
        f = SEM.get(getattr(k, 'qualname', None))
        if f is not None:
            return f(I, fr, op, v)
    # helper operator classes without a table entry (e.g. the ad-hoc gradient operators of functionals):
    # their real _call is executed in place (inlined; operands are still seen through contracts)
    return sem_by_execution(I, fr, op, v)


def sem_by_execution(I, fr, op, v):
    dom = I._getattr(op, 'domain', fr)
    if is_field_obj(I, dom):
        x = v
    else:
        x = getattr(dom, 'builder').element(cont=v if isinstance(v, V) else VConst(v))
    f = I.get_func(OP + 'Operator.__call__')
    fr.st.depth += 1
    try:
        if fr.st.depth > 40:
            raise Unsupported('semantic evaluation too deep')
        r = I.call_func(f, [op, x], {}, fr)
    finally:
        fr.st.depth -= 1
    return value_of(r)


def _g(I, fr, o, name):
    return I._getattr(o, name, fr)


SEM[OP + 'OperatorSum'] = lambda I, fr, o, v: v_add(sem(I, fr, _g(I, fr, o, 'left'), v), sem(I, fr, _g(I, fr, o, 'right'), v))
SEM[OP + 'OperatorVectorSum'] = lambda I, fr, o, v: v_add(sem(I, fr, _g(I, fr, o, 'operator'), v), value_of(_g(I, fr, o, 'vector')))
SEM[OP + 'OperatorComp'] = lambda I, fr, o, v: sem(I, fr, _g(I, fr, o, 'left'), sem(I, fr, _g(I, fr, o, 'right'), v))
SEM[OP + 'OperatorPointwiseProduct'] = lambda I, fr, o, v: v_mul(sem(I, fr, _g(I, fr, o, 'left'), v), sem(I, fr, _g(I, fr, o, 'right'), v))
SEM[OP + 'OperatorLeftScalarMult'] = lambda I, fr, o, v: v_mul(_g(I, fr, o, 'scalar'), sem(I, fr, _g(I, fr, o, 'operator'), v))
SEM[OP + 'OperatorRightScalarMult'] = lambda I, fr, o, v: sem(I, fr, _g(I, fr, o, 'operator'), v_mul(_g(I, fr, o, 'scalar'), v))
SEM[OP + 'FunctionalLeftVectorMult'] = lambda I, fr, o, v: v_mul(sem(I, fr, _g(I, fr, o, 'functional'), v), value_of(_g(I, fr, o, 'vector')))
SEM[OP + 'OperatorLeftVectorMult'] = lambda I, fr, o, v: v_mul(value_of(_g(I, fr, o, 'vector')), sem(I, fr, _g(I, fr, o, 'operator'), v))
SEM[OP + 'OperatorRightVectorMult'] = lambda I, fr, o, v: sem(I, fr, _g(I, fr, o, 'operator'), v_mul(value_of(_g(I, fr, o, 'vector')), v))


def raise_op(I, name, msg=''):
    lib.raise_(I, OP + name, msg)


def call_contract(I, fr, self, x, out=None, **kwargs):
    """Contract of Operator.__call__ (C03): domain / range errors before any evaluation, result in the
    range, with `out` the very object out holding app(op, x) whatever it held before, x untouched."""
    dom = I._getattr(self, 'domain', fr)
    ran = I._getattr(self, 'range', fr)
    if not I.truth(I.contains(dom, x, fr), fr):
        raise_op(I, 'OpDomainError', 'unable to cast to an element of the domain')
    if out is not None:
        if not I.truth(I.contains(ran, out, fr), fr):
            raise_op(I, 'OpRangeError', '`out` not an element of the range')
        if I.truth(I._getattr(self, 'is_functional', fr), fr):
            raise ip.PyRaise(I.make_exc('TypeError', '`out` parameter cannot be used when range is a field'))
    fr.st.events.append(('opcall', self, x, out))
    val = sem(I, fr, self, value_of(x))
    if out is not None:
        set_content(out, val)
        fr.st.events.append(('write', out))
        return out
    return new_range_value(I, fr, ran, val)


def new_contract(I, fr, cls, *args, **kwargs):
    """Contract of Operator.__new__ + _dispatch_call_args: binds _call_in_place / _call_out_of_place
    according to the signature of the class's _call (has `out`? optional?); signature read from the AST."""
    o = ip.Obj(cls)
    c, e = cls.lookup('_call')
    node = e[1]
    a = node.args
    pos = [p.arg for p in a.args][1:]
    kwonly = [p.arg for p in a.kwonlyargs]
    if len(pos) == 1:
        has_out = 'out' in kwonly
        out_opt = has_out
    elif len(pos) == 2 and pos[1] == 'out':
        has_out = True
        out_opt = bool(a.defaults)
    else:
        raise ip.PyRaise(I.make_exc('ValueError', 'bad signature of _call'))
    call = I.bind_entry(o, c, '_call', e, fr)
    o.fields['_call_has_out'] = has_out
    o.fields['_call_out_optional'] = out_opt
    if not has_out:
        dip = I.get_func(OP + '_default_call_in_place')
        o.fields['_call_in_place'] = ip.BoundM(dip, o)
        o.fields['_call_out_of_place'] = call
    elif out_opt:
        o.fields['_call_in_place'] = call
        o.fields['_call_out_of_place'] = call
    else:
        dop = I.get_func(OP + '_default_call_out_of_place')
        o.fields['_call_in_place'] = call
        o.fields['_call_out_of_place'] = ip.BoundM(dop, o)
    return o


def operator_cuts():
    return {OP + 'Operator.__call__': call_contract, OP + 'Operator.__new__$': new_contract}


def std_cuts(make_elem):
    """everything a caller of operators / elements / spaces sees: only contracts"""
    cuts = {}
    cuts.update(lib.space_api_cuts(make_elem))
    cuts.update(lib.elem_api_cuts(make_elem))
    cuts.update(operator_cuts())
    return cuts


def make_elem_by_builder(fr, space, cont):
    b = getattr(space, 'builder', None)
    if b is None:
        raise Unsupported('space without builder')
    return b.element(cont=cont)


# --------------------------------------------------------------------------
# semantic functions of the default operators (documented behaviour; proved from _call in C03/C10 dop units)

DOPS = 'odl.operator.default_ops:'


def _vec(v):
    return value_of(v)


SEM[DOPS + 'ScalingOperator'] = lambda I, fr, o, v: v_mul(_g(I, fr, o, 'scalar'), v)
SEM[DOPS + 'MultiplyOperator'] = lambda I, fr, o, v: v_mul(_vec(_g(I, fr, o, 'multiplicand')), v)
SEM[DOPS + 'ConstantOperator'] = lambda I, fr, o, v: _vec(_g(I, fr, o, 'constant'))
SEM[DOPS + 'ZeroOperator'] = lambda I, fr, o, v: (VConst(0.0) if not is_field_obj(I, _g(I, fr, o, 'range')) else 0.0)


def _sem_inner(I, fr, o, v):
    vec = _g(I, fr, o, 'vector')
    return inner(I, fr, _g(I, fr, vec, 'space'), v, value_of(vec))


SEM[DOPS + 'InnerProductOperator'] = _sem_inner


def _sem_part(part):
    def f(I, fr, o, v):
        fld = field_kind_of(I, fr, _g(I, fr, o, 'domain'))
        if fld != 'complex':
            return v if part == 'real' else VConst(0.0)
        return VPw(part, (v,))
    return f


SEM[DOPS + 'RealPart'] = _sem_part('real')
SEM[DOPS + 'ImagPart'] = _sem_part('imag')
SEM[DOPS + 'ComplexEmbedding'] = lambda I, fr, o, v: v_mul(_g(I, fr, o, 'scalar'), v)


# --------------------------------------------------------------------------
# abstract inner products in Gram normal form

TESTVARS = ('x', 'y', 'd')


def depends_on(v, names):
    if isinstance(v, VVar):
        return v.name in names
    if isinstance(v, VLin):
        return any(depends_on(t, names) for _, t in v.terms)
    if isinstance(v, (VPw, VApp)):
        return any(isinstance(a, V) and depends_on(a, names) for a in v.args)
    return False


def conj_v(v, field):
    return v if field != 'complex' else VPw('conj', (v,))


def adjoint_sym(op):
    """OpSym of the adjoint of an abstract linear operator symbol (created on demand; (A*)* = A)"""
    if getattr(op, 'adj', None) is None:
        a = OpSym(op.name + '*', linear=True)
        a.adj = op
        op.adj = a
        a.dom_field, a.ran_field = getattr(op, 'ran_field', 'real'), getattr(op, 'dom_field', 'real')
    return op.adj


def gram(I, fr, spacekey, field, a, b):
    """one normalisation step of <a, b> for an atom a: a linear operator application or a pointwise
    multiplier on the left is moved to the right argument (adjoint law / conjugate-multiplication law)"""
    if isinstance(a, VApp) and a.op.linear and len(a.args) == 1 and isinstance(a.args[0], V) and depends_on(a.args[0], TESTVARS):
        adj = adjoint_sym(a.op)
        return ('relin', spacekey, a.args[0], VApp(adj, (b,), field))
    if isinstance(a, VPw) and a.fn == 'mul':
        f0, f1 = a.args
        d0, d1 = depends_on(f0, TESTVARS), depends_on(f1, TESTVARS)
        if d0 != d1:
            mult, rest = (f1, f0) if d0 else (f0, f1)
            return ('relin', spacekey, rest, core.vmul(conj_v(mult, field), b))
    return ('atom', spacekey, a, b)


def inner(I, fr, space, u, v):
    """inner product of the space object (field: u * conj(v)) of two values, bilinear expansion over atoms"""
    if is_field_obj(I, space):
        vv = v.conjugate() if isinstance(v, (S, C)) else (v.conjugate() if isinstance(v, complex) else v)
        return u * vv
    fld = field_kind_of(I, fr, space)
    key = getattr(space, 'tag', 'S')
    return _inner(I, fr, key, fld, u if isinstance(u, V) else VConst(u), v if isinstance(v, V) else VConst(v), 0)


def _inner(I, fr, key, fld, u, v, depth):
    if depth > 12:
        raise Unsupported('inner product normal form does not terminate')
    low = fr.st.lower
    acc = None
    for c, a in low.linform(u):
        for d, b in low.linform(v):
            dd = core._sc(d)
            coef = core._sc(c) * (dd.conjugate() if fld == 'complex' else dd)
            kind, k2, a2, b2 = gram(I, fr, key, fld, a, b)
            if kind == 'relin':
                g = _inner(I, fr, k2, fld, a2, b2, depth + 1)
            else:
                # conjugate symmetry: canonical argument order (test-variable dependent argument first)
                da, db = depends_on(a2, TESTVARS), depends_on(b2, TESTVARS)
                if (db and not da) or (da == db and repr(a2.key()) > repr(b2.key())):
                    if db and not da and not isinstance(b2, VVar):
                        # the right argument may still carry movable operators: normalise <b, a> and conjugate
                        g = _inner(I, fr, k2, fld, b2, a2, depth + 1)
                    else:
                        g = low(VApp(_gsym('G'), (b2, a2), fld))
                    g = core._sc(g).conjugate() if fld == 'complex' else g
                else:
                    g = low(VApp(_gsym('G'), (a2, b2), fld))
            t = coef * g
            acc = t if acc is None else acc + t
    if acc is None:
        return C(0.0, 0.0) if fld == 'complex' else S.lift(0.0)
    return acc


_GS = {}


def _gsym(key):
    if key not in _GS:
        _GS[key] = OpSym('G[' + key + ']', linear=False)
    return _GS[key]


# --------------------------------------------------------------------------
# contracts of Operator.adjoint / Operator.derivative for abstract leaves

def adjoint_contract(I, fr, self):
    """abstract linear leaf: returns the abstract operator A* (Adj(A, A*) is built into `inner`)"""
    if not hasattr(self, 'opsym'):
        raise_op(I, 'OpNotImplementedError', 'adjoint not implemented')
    if not self.opsym.linear:
        raise_op(I, 'OpNotImplementedError', 'adjoint not implemented for nonlinear operator')
    ab = self.absop
    if ab.adj is None:
        adj = AbsOp(I, ab.name + '*', ab.ran, ab.dom, True)
        sym = adjoint_sym(self.opsym)
        adj.op.opsym = sym
        adj.adj = ab
        ab.adj = adj
    return ab.adj.op


def derivative_contract(I, fr, self, point):
    """Operator.derivative: linear operators are their own derivative; an abstract non-linear leaf has the
    abstract Frechet derivative dA[p] (a linear operator symbol per semantically distinct point p)"""
    if I.truth(I._getattr(self, 'is_linear', fr), fr):
        return self
    if not hasattr(self, 'opsym'):
        raise_op(I, 'OpNotImplementedError', 'derivative not implemented')
    ab = self.absop
    p = value_of(point)
    lp = fr.st.lower(p if isinstance(p, V) else VConst(p))
    for (lq, d) in ab.derivs.setdefault(id(fr.st), []):
        if type(lq) is type(lp) and fr.st.entails(core.sc_eq(lq, lp)):
            return d.op
    d = AbsOp(I, 'd%s[%d]' % (ab.name, len(ab.derivs[id(fr.st)])), ab.dom, ab.ran, True)
    ab.derivs[id(fr.st)].append((lp, d))
    d.point = p
    return d.op


def calculus_cuts():
    return {OP + 'Operator.adjoint': adjoint_contract, OP + 'Operator.derivative': derivative_contract}
