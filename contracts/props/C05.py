"""C05 - every exposed adjoint satisfies <Ax, y> = <x, A*y> in the spaces' own inner product.

expr/*   adjoint of the operator-expression classes: for abstract linear operands A, B with abstract
         adjoints (Adj(A, A*) is the only thing known about them) the operator returned by the real
         `.adjoint` property satisfies the identity for all x, y (Gram normal form: sesquilinearity,
         adjoint law, conjugate-multiplication law), maps range to domain, and its own adjoint acts
         like the operator.  Non-linear instances must raise OpNotImplementedError.
dop/*    adjoints of the pointwise / rank-one default operators on an arbitrary weighted tensor-like
         space: identity proved summand-wise on the documented weighted sum (real part for operators
         between a real and a complex space).
fd/*     finite-difference operators on uniformly weighted spaces: see C13 (transpose by the delta
         trick); resizing: C16.
"""
import itertools

import z3

from pyvc import core, interp as ip, odlmodel as om
from pyvc.core import S, C, V, VVar, VConst, VFresh, VLin, VPw, VApp, Unsupported
from pyvc.harness import Unit
from contracts import lib, oplib, tlib, makers
from contracts.lib import content, set_content
from contracts.oplib import OP, DOPS, AbsOp, FieldSpec, sem, value_of, inner

META = {
    'level': 'proof',
    'trusted_base': [
        'pyvc symbolic interpreter (A7); contracts of element / space arithmetic (C01), Operator.__call__ (C03), operator arithmetic (C04)',
        'abstract inner product: sesquilinear, <v*u, y> = <u, conj(v)*y> (holds for the weighted sums proved in C02), operands have adjoints with Adj(A, A*)',
        'A1 reals',
    ],
    'assumptions': ['A1', 'A2', 'A5', 'A7', 'weights are positive (A3)'],
    'not_decided': [
        'adjoints of FFT / wavelet based operators, ray transforms (external kernels, K9)',
        'MatrixOperator, sampling operators: not under contract (bounded operator pool only)',
        'block operators: the product spaces are unweighted (the constructors reject weighted ones); ProductSpaceOperator.__init__ (scipy sparse conversion) is not interpreted, the operator is built field-wise; ComponentProjection with index lists',
        'ResizingOperator: shapes are enumerated (8 shape pairs incl. mixed grow / shrink) - the call claim is per shape pair, the transposition itself is C16',
        'finite-difference and resizing operators on spaces that are not uniformly weighted (nodes on the boundary): see known findings',
    ],
}

EXPR = ['OperatorSum', 'OperatorComp', 'OperatorLeftScalarMult', 'OperatorRightScalarMult',
        'FunctionalLeftVectorMult', 'OperatorLeftVectorMult', 'OperatorRightVectorMult']


def setup(st):
    tlib.install(st)
    st.cuts.update(oplib.calculus_cuts())


def get(I, fr, o, name):
    return I._getattr(o, name, fr)


def build(I, st, fr, clsname, field, la, lb, ranF):
    X = makers.tspace(I, st, 'X', field)
    Y = makers.tspace(I, st, 'Y', field)
    Z = makers.tspace(I, st, 'Z', field)
    F = FieldSpec(I, field)
    cls = I.get_class(OP + clsname)
    if clsname == 'OperatorSum':
        R = F if ranF else Y
        args, domb, ranb = [AbsOp(I, 'A', X, R, la).op, AbsOp(I, 'B', X, R, lb).op], X, R
    elif clsname == 'OperatorComp':
        R = F if ranF else Z
        args, domb, ranb = [AbsOp(I, 'A', Y, R, la).op, AbsOp(I, 'B', X, Y, lb).op], X, R
    elif clsname in ('OperatorLeftScalarMult', 'OperatorRightScalarMult'):
        R = F if ranF else Y
        args, domb, ranb = [AbsOp(I, 'A', X, R, la).op, om.sym_scalar('s', field)], X, R
    elif clsname == 'FunctionalLeftVectorMult':
        args, domb, ranb = [AbsOp(I, 'f', X, F, la).op, Y.element('vec')], X, Y
    elif clsname == 'OperatorLeftVectorMult':
        args, domb, ranb = [AbsOp(I, 'A', X, Y, la).op, Y.element('vec')], X, Y
    else:
        R = F if ranF else Y
        args, domb, ranb = [AbsOp(I, 'A', X, R, la).op, X.element('vec')], X, R
    inst = I.call(cls, args, {}, fr)
    return inst, domb, ranb


def test_value(b, name, field):
    if isinstance(b, FieldSpec):
        return om.sym_scalar(name, field)
    return VVar(name, field)


def unit_expr(clsname, field):
    def run(ctx):
        I = ctx.I
        two = clsname in ('OperatorSum', 'OperatorComp')
        for la, lb, ranF in itertools.product((1, 0), (1, 0) if two else (1,), (0, 1)):
            if ranF and clsname in ('FunctionalLeftVectorMult', 'OperatorLeftVectorMult'):
                continue

            def path(st, la=la, lb=lb, ranF=ranF):
                setup(st)
                fr = ip.Frame(st)
                inst, domb, ranb = build(I, st, fr, clsname, field, la, lb, ranF)
                try:
                    adj = get(I, fr, inst, 'adjoint')
                except ip.PyRaise as e:
                    return ('raise', (e.exc, inst, fr))
                return ('ok', (inst, adj, domb, ranb, fr))
            linear = bool(la and (lb if two else 1))
            info = {'class': clsname, 'field': field, 'la': la, 'lb': lb, 'ranF': ranF}
            for st, (status, r) in ctx.explore(path):
                if status == 'raise':
                    exc, inst, fr = r
                    if linear:
                        ctx.fail(st, 'no_raise', 'adjoint raises %s%r' % (lib.exc_name(exc), exc.fields.get('args')), info)
                    else:
                        ctx.prove(st, 'non-linear: OpNotImplementedError', lib.exc_name(exc) == 'OpNotImplementedError', info)
                    continue
                inst, adj, domb, ranb, fr = r
                if not linear:
                    ctx.fail(st, 'non-linear operator must not return an adjoint', 'returned %r' % (adj,), info)
                    continue
                check_adjoint(ctx, st, I, fr, inst, adj, domb, ranb, field, info)
    return Unit('expr/%s/%s' % (clsname, field), run, funcs=[OP + clsname + '.adjoint'], config={'class': clsname, 'field': field})


def unit_mixed(clsname):
    """vector multiplication of an operator from a REAL space into a COMPLEX space (left: multiplier in the complex range; right: real
    multiplier in the domain): the adjoint identity in the sense of mixed real / complex spaces, Re <A x, y> == <x, A* y>.  The multiplier
    stays inside the inner products (conjugate-multiplication law), no complex scalar is moved across the adjoint law."""
    def run(ctx):
        I = ctx.I

        def path(st):
            setup(st)
            fr = ip.Frame(st)
            X = makers.tspace(I, st, 'X', 'real')
            Y = makers.tspace(I, st, 'Y', 'complex')
            A = AbsOp(I, 'A', X, Y, True)
            A.op.opsym.dom_field, A.op.opsym.ran_field = 'real', 'complex'
            vec = Y.element('vec') if clsname == 'OperatorLeftVectorMult' else X.element('vec')
            inst = I.call(I.get_class(OP + clsname), [A.op, vec], {}, fr)
            try:
                adj = get(I, fr, inst, 'adjoint')
            except ip.PyRaise as e:
                return ('raise', e.exc)
            return ('ok', (inst, adj, X, Y, fr))
        info = {'class': clsname, 'field': 'real->complex'}
        for st, (status, r) in ctx.explore(path):
            if status == 'raise':
                ctx.fail(st, 'no_raise', 'adjoint raises %s' % lib.exc_desc(r), info)
                continue
            inst, adj, X, Y, fr = r
            same = lambda a, b: I.truth(I.py_eq(a, b, fr), fr)
            ctx.prove(st, 'adjoint.domain == range, adjoint.range == domain', same(get(I, fr, adj, 'domain'), Y.space) and same(get(I, fr, adj, 'range'), X.space), info)
            x, y = VVar('x', 'real'), VVar('y', 'complex')
            lhs = inner(I, fr, Y.space, sem(I, fr, inst, x), y)
            rhs = inner(I, fr, X.space, x, sem(I, fr, adj, y))
            ctx.prove(st, 'Re <A x, y> == Re <x, A* y> for all x, y', core.sc_eq(core._sc(lhs).real, core._sc(rhs).real), info)
    return Unit('expr-mixed/%s/real-to-complex' % clsname, run, funcs=[OP + clsname + '.adjoint'], config={'class': clsname, 'field': 'real->complex'})


def check_adjoint(ctx, st, I, fr, inst, adj, domb, ranb, field, info, realpart=False):
    low = st.lower
    same = lambda a, b: I.truth(I.py_eq(a, b, fr), fr)
    ctx.prove(st, 'adjoint.domain == range', same(get(I, fr, adj, 'domain'), ranb.space), info)
    ctx.prove(st, 'adjoint.range == domain', same(get(I, fr, adj, 'range'), domb.space), info)
    ctx.prove(st, 'adjoint is linear', bool(get(I, fr, adj, 'is_linear')), info)
    x = test_value(domb, 'x', field)
    y = test_value(ranb, 'y', field)
    lhs = inner(I, fr, ranb.space, sem(I, fr, inst, x), y)
    rhs = inner(I, fr, domb.space, x, sem(I, fr, adj, y))
    if realpart:
        lhs, rhs = core._sc(lhs).real, core._sc(rhs).real
    ctx.prove(st, '<A x, y> == <x, A* y> for all x, y', core.sc_eq(lhs, rhs), info)
    try:
        adjadj = get(I, fr, adj, 'adjoint')
    except ip.PyRaise as e:
        ctx.fail(st, 'adjoint.adjoint exists', 'raises %s' % lib.exc_name(e.exc), info)
        return
    ctx.prove(st, 'adjoint.adjoint acts like the operator', lib.eq_goal(low, sem(I, fr, adjadj, x), sem(I, fr, inst, x)), info)


# --------------------------------------------------------------------------
# default operators (pointwise on tensor-like spaces): summand-wise identity

DOP_ADJ = [('ScalingOperator', None), ('IdentityOperator', None), ('MultiplyOperator', 'vec'), ('MultiplyOperator', 'scalar'),
           ('MultiplyOperator', 'field_dom'), ('InnerProductOperator', None), ('ZeroOperator', 'same'), ('ZeroOperator', 'other'),
           ('RealPart', None), ('ImagPart', None), ('ComplexEmbedding', None)]


def pointwise_inner_summand(b, u, v, field):
    """summand w * u * conj(v) of the documented weighted sum of the tensor-like space b"""
    return core.vmul(b.weight, core.vmul(u, oplib.conj_v(v, field)))


def unit_dop(clsname, variant, field):
    def run(ctx):
        I = ctx.I
        mk = makers.dop_maker(clsname, field, variant)

        def path(st):
            setup(st)
            fr = ip.Frame(st)
            m = mk(I, st, fr)
            try:
                adj = get(I, fr, m['inst'], 'adjoint')
            except ip.PyRaise as e:
                return ('raise', (e.exc, m, fr))
            return ('ok', (m, adj, fr))
        info = {'class': clsname, 'variant': str(variant), 'field': field}
        for st, (status, r) in ctx.explore(path):
            if status == 'raise':
                exc, m, fr = r
                ctx.fail(st, 'no_raise', 'adjoint raises %s%r' % (lib.exc_name(exc), exc.fields.get('args')), info)
                continue
            m, adj, fr = r
            inst, domb, ranb = m['inst'], m['domb'], m['ranb']
            low = st.lower
            same = lambda a, b: I.truth(I.py_eq(a, b, fr), fr)
            ctx.prove(st, 'adjoint.domain == range', same(get(I, fr, adj, 'domain'), ranb.space), info)
            ctx.prove(st, 'adjoint.range == domain', same(get(I, fr, adj, 'range'), domb.space), info)
            dfield = domb.field if not isinstance(domb, FieldSpec) else domb.kind
            rfield = ranb.field if not isinstance(ranb, FieldSpec) else ranb.kind
            x = test_value(domb, 'x', dfield)
            y = test_value(ranb, 'y', rfield)
            Ax = sem(I, fr, inst, x)
            Asy = sem(I, fr, adj, y)
            mixed = dfield != rfield
            if isinstance(domb, FieldSpec) or isinstance(ranb, FieldSpec):
                lhs = inner(I, fr, ranb.space, Ax, y)
                rhs = inner(I, fr, domb.space, x, Asy)
                ctx.prove(st, '<A x, y> == <x, A* y> for all x, y', core.sc_eq(lhs, rhs), info)
            else:
                # both spaces share the pointwise weight (same underlying partition): summand-wise identity
                l = low(pointwise_inner_summand(ranb, Ax, y, rfield))
                r_ = low(pointwise_inner_summand(domb, x, Asy, dfield))
                if mixed:
                    l, r_ = core._sc(l).real, core._sc(r_).real
                ctx.prove(st, 'summand of <A x, y> == summand of <x, A* y> at every index' + (' (real part)' if mixed else ''),
                          core.sc_eq(l, r_), info)
            try:
                adjadj = get(I, fr, adj, 'adjoint')
                ctx.prove(st, 'adjoint.adjoint acts like the operator', lib.eq_goal(low, sem(I, fr, adjadj, x), Ax), info)
            except ip.PyRaise as e:
                ctx.fail(st, 'adjoint.adjoint exists', 'raises %s' % lib.exc_name(e.exc), info)
    return Unit('dop/%s/%s/%s' % (clsname, variant, field), run, funcs=[DOPS + clsname + '.adjoint'],
                config={'class': clsname, 'variant': str(variant), 'field': field})


TOPS = 'odl.operator.tensor_ops:'


def unit_pointwise_inner(field, op_weighted, k=2):
    """PointwiseInner / PointwiseInnerAdjoint on a k-fold power of an arbitrary weighted base space whose product-space weights v_j may differ from the
    operator's own weights w_j (w_j == 1 for op_weighted False: the `is_weighted` shortcut): the real `_call`s give  A F = sum_j w_j F_j conj(G_j)  and
    (A* h)_j = (w_j / v_j) G_j h, and the integrands of  <A F, h>  and  sum_j v_j <F_j, (A* h)_j>  agree at every grid point (the adjoint identity of the
    weighted product space); PointwiseInner.adjoint hands domain, vector field and weights to PointwiseInnerAdjoint.  The weights PointwiseInnerAdjoint.__init__
    derives from the product-space weighting are taken as the fields (assume-guarantee: v_j is what `vfspace.weighting` holds)."""
    def run(ctx):
        I = ctx.I

        def path(st):
            setup(st)
            fr = ip.Frame(st)
            X = makers.tspace(I, st, 'X', field)
            ws = [makers.pos_scalar(st, 'w%d' % j) if op_weighted else 1.0 for j in range(k)]
            vs = [makers.pos_scalar(st, 'v%d' % j) for j in range(k)]

            class PVec(object):
                def __init__(self, comps):
                    self.comps = list(comps)

                def pv_iter(self, I_, fr_):
                    return iter(list(self.comps))

                def pv_getitem(self, I_, fr_, idx):
                    return self.comps[idx] if isinstance(idx, slice) else self.comps[int(idx)]

                def pv_len(self, I_, fr_):
                    return len(self.comps)

                def pv_getattr(self, I_, fr_, name):
                    raise Unsupported('vector field .%s' % name)

            class PDom(object):
                def pv_getattr(self, I_, fr_, name):
                    if name == 'field':
                        return om.field_obj(I_, field)
                    raise Unsupported('domain.%s' % name)

                def pv_len(self, I_, fr_):
                    return k
            dom = PDom()
            G = PVec([X.element('G%d' % j) for j in range(k)])
            F = PVec([X.element('F%d' % j) for j in range(k)])
            h = X.element('h')
            G0, F0, h0 = [content(c) for c in G.comps], [content(c) for c in F.comps], content(h)
            A = ip.Obj(I.get_class(TOPS + 'PointwiseInner'))
            A.fields.update({'_Operator__domain': dom, '_Operator__range': X.space, '_Operator__is_linear': True, '_vecfield': G,
                             '_PointwiseInnerBase__weights': list(ws), '_PointwiseInnerBase__is_weighted': bool(op_weighted),
                             '_PointwiseTensorFieldOperator__base_space': X.space})
            At = ip.Obj(I.get_class(TOPS + 'PointwiseInnerAdjoint'))
            At.fields.update({'_Operator__domain': X.space, '_Operator__range': dom, '_Operator__is_linear': True, '_vecfield': G,
                              '_PointwiseInnerBase__weights': list(ws), '_PointwiseInnerBase__is_weighted': bool(op_weighted),
                              '_PointwiseInnerAdjoint__ran_weights': list(vs), '_PointwiseTensorFieldOperator__base_space': X.space})
            made = []

            def ctor(I_, fr_, self, *a, **kw):
                self.fields['ctor'] = (a, dict(kw))
                made.append(self)
            st.cuts[TOPS + 'PointwiseInnerAdjoint.__init__'] = ctor
            st.cuts.update(oplib.operator_cuts())
            out = X.element('out_old')
            outs = PVec([X.element('outs_old%d' % j) for j in range(k)])
            fA = I.class_entry_value(A.cls, '_call', A.cls.lookup('_call')[1])
            fAt = I.class_entry_value(At.cls, '_call', At.cls.lookup('_call')[1])
            try:
                I.call(fA, [A, F, out], {}, fr)
                I.call(fAt, [At, h, outs], {}, fr)
                adj = get(I, fr, A, 'adjoint')
            except ip.PyRaise as e:
                return ('raise', e.exc)
            return ('ok', dict(out=out, outs=outs, adj=adj, A=A, G=G, F=F, h=h, G0=G0, F0=F0, h0=h0, ws=ws, vs=vs, dom=dom, X=X))
        info = {'field': field, 'operator_weights': 'symbolic' if op_weighted else 'all 1 (is_weighted False)', 'components': k}
        for st, (status, r) in ctx.explore(path):
            if status == 'raise':
                ctx.fail(st, 'no_raise', 'raises %s' % lib.exc_desc(r), info)
                continue
            low = st.lower
            cj = (lambda v: v.conjugate()) if field == 'complex' else (lambda v: v)
            F0, G0, h0 = [low(v) for v in r['F0']], [low(v) for v in r['G0']], low(r['h0'])
            ws, vs = r['ws'], r['vs']
            AF = None
            for j in range(k):
                t = F0[j] * cj(G0[j]) * ws[j]
                AF = t if AF is None else AF + t
            ctx.prove(st, 'A F == sum_j w_j F_j conj(G_j)  (whatever out held before)', core.sc_eq(low(content(r['out'])), AF), info)
            lhs = low(content(r['out'])) * cj(h0)
            rhs = None
            for j in range(k):
                Ath_j = low(content(r['outs'].comps[j]))
                ctx.prove(st, '(A* h)_%d * v_j == w_j G_j h' % j, core.sc_eq(Ath_j * vs[j], G0[j] * h0 * ws[j]), info)
                t = F0[j] * cj(Ath_j) * vs[j]
                rhs = t if rhs is None else rhs + t
            ctx.prove(st, 'adjoint identity, integrand by integrand:  (A F) conj(h) == sum_j v_j F_j conj((A* h)_j)', core.sc_eq(lhs, rhs), info)
            for j in range(k):
                ctx.prove(st, 'F_%d, G_%d untouched' % (j, j), core.s_and(core.sbool(core.sc_eq(low(content(r['F'].comps[j])), F0[j])), core.sbool(core.sc_eq(low(content(r['G'].comps[j])), G0[j]))), info)
            adj = r['adj']
            ok = isinstance(adj, ip.Obj) and 'ctor' in adj.fields
            ctx.prove(st, 'PointwiseInner.adjoint is a PointwiseInnerAdjoint', ok and adj.cls.name == 'PointwiseInnerAdjoint', info)
            if ok:
                a, kw = adj.fields['ctor']
                args = dict(zip(('sspace', 'vecfield', 'vfspace', 'weighting'), a))
                args.update(kw)
                ctx.prove(st, 'adjoint: same base space, vector field, product space and WEIGHTS of the operator',
                          args.get('sspace') is r['X'].space and args.get('vecfield') is r['G'] and args.get('vfspace') is r['dom'] and args.get('weighting') is r['A'].fields['_PointwiseInnerBase__weights'], info)
    return Unit('pointwise-inner/%s/%s' % (field, 'weighted' if op_weighted else 'unit-weights'), run,
                funcs=[TOPS + 'PointwiseInner._call', TOPS + 'PointwiseInnerAdjoint._call', TOPS + 'PointwiseInner.adjoint'],
                config={'field': field, 'op_weighted': op_weighted, 'components': k})


def unit_operator_pool_bounded():
    """BOUNDED stand-in (never counted as proved) for the adjoints outside the deductive units (tensor_ops, pspace_ops, diff_ops, discr_ops, transforms): for one small instance
    per operator class / option (contracts/oppool.py) and 3 random pairs, <A x, y> == <x, A.adjoint y> in the spaces' own (weighted) inner products and A.adjoint.adjoint acts like A.
    Operators documented as approximate adjoints (Resampling) are exempt."""
    def run(ctx):
        from contracts import oppool
        for name in oppool.pool():
            try:
                bad, note = oppool.check_adjoint(name)
            except Exception as e:
                bad, note = 'raised %s: %s' % (type(e).__name__, str(e)[:160]), None
            if note:
                continue
            ctx.bounded('library operator: adjoint identity in the weighted inner products, adjoint of the adjoint', not bad, {'operator': name}, detail=bad)
    return Unit('operator-pool/adjoint', run, funcs=['odl.operator.tensor_ops:*.adjoint', 'odl.operator.pspace_ops:*.adjoint', 'odl.discr.diff_ops:*.adjoint', 'odl.discr.discr_ops:*.adjoint',
                'odl.trafos.fourier:*.adjoint', 'odl.trafos.wavelet:*.adjoint'], kind='B', bounded_in='one small instance per operator class / option in contracts/oppool.py, 3 random pairs each')


def unit_canary():
    """must-fail: adjoint of s*A without conjugating s (complex field)"""
    def run(ctx):
        I = ctx.I

        def path(st):
            setup(st)
            fr = ip.Frame(st)
            X = makers.tspace(I, st, 'X', 'complex')
            Y = makers.tspace(I, st, 'Y', 'complex')
            A = AbsOp(I, 'A', X, Y, True)
            s = om.sym_scalar('s', 'complex')
            inst = I.call(I.get_class(OP + 'OperatorLeftScalarMult'), [A.op, s], {}, fr)
            wrong = I.call(I.get_class(OP + 'OperatorLeftScalarMult'), [get(I, fr, A.op, 'adjoint'), s], {}, fr)
            return ('ok', (inst, wrong, X, Y, fr))
        for st, (status, (inst, wrong, X, Y, fr)) in ctx.explore(path):
            x, y = VVar('x', 'complex'), VVar('y', 'complex')
            lhs = inner(I, fr, Y.space, sem(I, fr, inst, x), y)
            rhs = inner(I, fr, X.space, x, sem(I, fr, wrong, y))
            ctx.prove(st, 'canary', core.sc_eq(lhs, rhs), {})
    return Unit('canary/unconjugated-scalar', run, kind='canary', expect='refuted')


def units(tier, seed):
    us = []
    for field in ('real', 'complex'):
        for c in EXPR:
            us.append(unit_expr(c, field))
        for c, v in DOP_ADJ:
            us.append(unit_dop(c, v, field))
    for c in ('OperatorLeftVectorMult', 'OperatorRightVectorMult'):
        us.append(unit_mixed(c))
    for field in ('real', 'complex'):
        for wtd in (True, False):
            us.append(unit_pointwise_inner(field, wtd))
    us.append(unit_pointwise_inner('real', True, k=3))
    us.append(unit_operator_pool_bounded())
    from contracts import blocklib
    us.extend(blocklib.units('adjoint'))
    us.extend(blocklib.resizing_units())
    us.append(unit_canary())
    return us


def replay_pointwise_inner(ob):
    import os
    import sys
    root = os.environ.get('PYVC_REPO', '/repo')
    if root not in sys.path:
        sys.path.insert(0, root)
    import numpy as np
    import odl
    cfg = ob.get('config') or {}
    field, wtd, k = cfg.get('field', 'real'), cfg.get('op_weighted', True), int(cfg.get('components', 2))
    rng = np.random.default_rng(6)
    base = odl.uniform_discr(0, 2, 4, dtype='complex128' if field == 'complex' else 'float64')
    for space_w in (np.arange(2, 2 + k) * 1.0, 0.5, None):
        vf = odl.ProductSpace(base, k) if space_w is None else odl.ProductSpace(base, k, weighting=space_w)

        def rnd(sp):
            return sp.element(rng.standard_normal(sp.shape) + (1j * rng.standard_normal(sp.shape) if field == 'complex' else 0))
        G = rnd(vf)
        for op_w in ((np.arange(1, k + 1) * 1.5, 3.0) if wtd else (1.0, np.ones(k))):
            A = odl.PointwiseInner(vf, G, weighting=op_w)
            F, h = rnd(vf), rnd(base)
            lhs, rhs = A(F).inner(h), F.inner(A.adjoint(h))
            if abs(lhs - rhs) > 1e-9 * max(1.0, abs(lhs)):
                return {'reproduced': True, 'detail': 'PointwiseInner(%r, G, weighting=%r): <A F, h> = %r but <F, A.adjoint h> = %r' % (vf, op_w, lhs, rhs),
                        'input': {'space_weighting': repr(space_w), 'operator_weighting': repr(op_w)}}
            At = A.adjoint
            l2, r2 = At(h).inner(F), h.inner(At.adjoint(F))
            if abs(l2 - r2) > 1e-9 * max(1.0, abs(l2)):
                return {'reproduced': True, 'detail': 'PointwiseInnerAdjoint on %r, weighting=%r: <A* h, F> = %r but <h, A** F> = %r' % (vf, op_w, l2, r2)}
    return {'reproduced': False, 'detail': 'adjoint identity holds natively for array / constant / default product-space weights'}


def replay(ob):
    if ob.get('unit', '').startswith('resizing/'):
        from contracts import blocklib
        try:
            return blocklib.resizing_native_replay(ob)
        except Exception as e:
            return {'reproduced': False, 'detail': 'replay harness error: %r' % (e,)}
    if ob.get('unit', '').startswith('block/'):
        from contracts import blocklib
        try:
            return blocklib.native_replay(ob)
        except Exception as e:
            return {'reproduced': False, 'detail': 'replay harness error: %r' % (e,)}
    if ob.get('unit', '').startswith('operator-pool/'):
        from contracts import oppool
        try:
            bad = oppool.check_adjoint((ob.get('model') or {}).get('operator'))[0]
        except Exception as e:
            bad = 'raised %s: %s' % (type(e).__name__, e)
        return {'reproduced': bool(bad), 'detail': bad or 'holds natively', 'input': ob.get('model')}
    if ob.get('unit', '').startswith('pointwise-inner/'):
        try:
            return replay_pointwise_inner(ob)
        except Exception as e:
            return {'reproduced': False, 'detail': 'replay harness error: %r' % (e,)}
    from contracts import replay_adj
    return replay_adj.replay(ob)
