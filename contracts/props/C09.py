"""C09 - functional values, gradients and Lipschitz bounds agree with each other.

derived/*   every derived functional class (left/right scalar multiple, right vector multiple, sum,
            scalar sum, translation, composition with an operator, quadratic perturbation, product,
            quotient, Bregman distance) built through its real constructor / overload from abstract
            functionals f, g (known through fval, grad f, a Lipschitz constant L_f):
              value     h(x) == documented table
              gradient  grad h (x) == sum / chain / product / quotient rule applied to grad f, grad g at the
                        correct inner points
              derivative(x)(d) == <grad h(x), d>
              grad_lipschitz   finite  ==>  >= the bound that the Lipschitz algebra derives from L_f, L_g
overload/*  Functional.__mul__/__rmul__/__add__/__sub__ return functionals with the table semantics
            (C04 for functionals), including the is_linear shortcuts.
builtin/*   pointwise built-in functionals: gradient == symbolic derivative of the integrand of _call.
"""
import itertools

import z3

from pyvc import core, interp as ip, odlmodel as om
from pyvc.core import S, C, V, VVar, VConst, VFresh, VLin, VPw, VApp, Unsupported
from pyvc.harness import Unit
from contracts import lib, oplib, tlib, makers, flib
from contracts.lib import content, set_content
from contracts.oplib import OP, AbsOp, FieldSpec, sem, value_of, v_add, v_mul, inner
from contracts.flib import FN, DF, AbsFunc

META = {
    'level': 'proof',
    'trusted_base': [
        'pyvc symbolic interpreter (A7); contracts of element / space arithmetic (C01), Operator.__call__ (C03), operator arithmetic (C04), '
        'adjoint / derivative of abstract operands (C05, C06)',
        'the sum / chain / product / quotient rules and the Lipschitz algebra (|s| L, s^2 L for f(s.), L_f + L_g, L + 2|a| for f + a||.||^2 + <.,u>) are the specification',
        'A1 reals; real spaces (gradients on complex spaces are not claimed)',
    ],
    'assumptions': ['A1', 'A2', 'A5', 'A7', 'L_f is a valid Lipschitz constant of grad f (assumed for the parts)'],
    'not_decided': ['finite-difference agreement of gradients of non-pointwise built-ins (GroupL1Norm, NuclearNorm, QuadraticForm with operator)',
                    'only in the bounded functional-pool stand-in (SeparableSum and Huber on power spaces are under contract)'],
}


def get(I, fr, o, name):
    return I._getattr(o, name, fr)


def build(I, st, fr, kind):
    """returns dict(h=functional object, value(x)=spec, grad(x)=spec, lip=spec bound or None, X)"""
    X = makers.tspace(I, st, 'X', 'real')
    f = AbsFunc(I, st, 'f', X, linear=kind.endswith('_linbase'))
    g = AbsFunc(I, st, 'g', X)
    fv = lambda u: sem(I, fr, f.op, u)
    gv = lambda u: sem(I, fr, g.op, u)
    gf = lambda u: sem(I, fr, f.gradient_op().op, u)
    gg = lambda u: sem(I, fr, g.gradient_op().op, u)
    cls = lambda n: I.get_class(FN + n)
    ip_ = lambda a, b: inner(I, fr, X.space, a, b)
    if kind == 'left_scalar':
        s = om.sym_scalar('s', 'real')
        h = I.call(cls('FunctionalLeftScalarMult'), [f.op, s], {}, fr)
        return dict(h=h, X=X, value=lambda x: s * fv(x), grad=lambda x: v_mul(s, gf(x)), lip=abs(s) * f.L)
    if kind == 'right_scalar':
        s = om.sym_scalar('s', 'real')
        h = I.call(cls('FunctionalRightScalarMult'), [f.op, s], {}, fr)
        return dict(h=h, X=X, value=lambda x: fv(v_mul(s, x)), grad=lambda x: v_mul(s, gf(v_mul(s, x))), lip=s * s * f.L)
    if kind == 'right_scalar_nested':
        a, b_ = om.sym_scalar('a', 'real'), om.sym_scalar('b', 'real')
        h0 = I.call(cls('FunctionalRightScalarMult'), [f.op, a], {}, fr)
        h = I.call(cls('FunctionalRightScalarMult'), [h0, b_], {}, fr)
        s = a * b_
        return dict(h=h, X=X, value=lambda x: fv(v_mul(s, x)), grad=lambda x: v_mul(s, gf(v_mul(s, x))), lip=s * s * f.L)
    if kind == 'left_scalar_nested':
        a, b_ = om.sym_scalar('a', 'real'), om.sym_scalar('b', 'real')
        h0 = I.call(cls('FunctionalLeftScalarMult'), [f.op, a], {}, fr)
        h = I.call(cls('FunctionalLeftScalarMult'), [h0, b_], {}, fr)
        s = a * b_
        return dict(h=h, X=X, value=lambda x: s * fv(x), grad=lambda x: v_mul(s, gf(x)), lip=abs(s) * f.L)
    if kind == 'right_vector':
        v = X.element('v')
        h = I.call(cls('FunctionalRightVectorMult'), [f.op, v], {}, fr)
        return dict(h=h, X=X, value=lambda x: fv(v_mul(content(v), x)), grad=lambda x: v_mul(content(v), gf(v_mul(content(v), x))), lip=None)
    if kind == 'sum':
        h = I.call(cls('FunctionalSum'), [f.op, g.op], {}, fr)
        return dict(h=h, X=X, value=lambda x: fv(x) + gv(x), grad=lambda x: v_add(gf(x), gg(x)), lip=f.L + g.L)
    if kind == 'scalar_sum':
        c = om.sym_scalar('c', 'real')
        h = I.call(cls('FunctionalScalarSum'), [f.op, c], {}, fr)
        return dict(h=h, X=X, value=lambda x: fv(x) + c, grad=lambda x: gf(x), lip=f.L)
    if kind == 'translation':
        t = X.element('t')
        h = I.call(cls('FunctionalTranslation'), [f.op, t], {}, fr)
        sh = lambda x: VLin([(1, x), (-1, content(t))])
        return dict(h=h, X=X, value=lambda x: fv(sh(x)), grad=lambda x: gf(sh(x)), lip=f.L)
    if kind == 'translation_nested':
        t, t2 = X.element('t'), X.element('t2')
        h0 = I.call(cls('FunctionalTranslation'), [f.op, t], {}, fr)
        h = I.call(cls('FunctionalTranslation'), [h0, t2], {}, fr)
        sh = lambda x: VLin([(1, x), (-1, content(t)), (-1, content(t2))])
        return dict(h=h, X=X, value=lambda x: fv(sh(x)), grad=lambda x: gf(sh(x)), lip=f.L)
    if kind in ('comp_lin', 'comp_nonlin'):
        Y = makers.tspace(I, st, 'Y', 'real')
        fY = AbsFunc(I, st, 'f', Y)
        A = AbsOp(I, 'A', X, Y, kind == 'comp_lin')
        h = I.call(cls('FunctionalComp'), [fY.op, A.op], {}, fr)

        def grad(x):
            Ax = sem(I, fr, A.op, x)
            holder = X.element(cont=x)
            Dx = oplib.derivative_contract(I, fr, A.op, holder)
            adj = oplib.adjoint_contract(I, fr, Dx)
            return sem(I, fr, adj, sem(I, fr, fY.gradient_op().op, Ax))
        return dict(h=h, X=X, value=lambda x: sem(I, fr, fY.op, sem(I, fr, A.op, x)), grad=grad, lip=None)
    if kind in ('quadpert', 'quadpert_nolin', 'quadpert_linbase', 'quadpert_affine_linbase'):
        # *_linbase: the perturbed functional is LINEAR; 'affine': no quadratic term, so f + <., u> + c is affine (not linear for c != 0) whatever flag the class reports
        a = om.sym_scalar('a', 'real') if kind != 'quadpert_affine_linbase' else 0
        c = om.sym_scalar('c', 'real')
        u = X.element('u') if kind != 'quadpert_nolin' else None
        h = I.call(cls('FunctionalQuadraticPerturb'), [f.op], {'quadratic_coeff': a, 'linear_term': u, 'constant': c}, fr)
        uc = content(u) if u is not None else VConst(0.0)
        return dict(h=h, X=X, value=lambda x: fv(x) + a * ip_(x, x) + ip_(x, uc) + c,
                    grad=lambda x: VLin([(1, gf(x)), (2 * a, x), (1, uc)]), lip=f.L + 2 * abs(a))
    if kind == 'product':
        h = I.call(cls('FunctionalProduct'), [f.op, g.op], {}, fr)
        return dict(h=h, X=X, value=lambda x: fv(x) * gv(x), grad=lambda x: v_add(v_mul(gv(x), gf(x)), v_mul(fv(x), gg(x))), lip=None)
    if kind == 'quotient':
        h = I.call(cls('FunctionalQuotient'), [f.op, g.op], {}, fr)
        return dict(h=h, X=X, value=lambda x: fv(x) / gv(x), nonzero=gv,
                    grad=lambda x: v_add(v_mul(1 / gv(x), gf(x)), v_mul(-fv(x) / (gv(x) * gv(x)), gg(x))), lip=None)
    if kind == 'bregman':
        p, sg = X.element('p'), X.element('sg')
        h = I.call(cls('BregmanDistance'), [f.op, p, sg], {}, fr)
        return dict(h=h, X=X, value=lambda x: fv(x) - fv(content(p)) - ip_(VLin([(1, x), (-1, content(p))]), content(sg)),
                    grad=lambda x: VLin([(1, gf(x)), (-1, content(sg))]), lip=f.L)
    raise KeyError(kind)


KINDS = ['left_scalar', 'right_scalar', 'right_scalar_nested', 'left_scalar_nested', 'right_vector', 'sum', 'scalar_sum', 'translation', 'translation_nested', 'comp_lin',
         'comp_nonlin', 'quadpert', 'quadpert_nolin', 'quadpert_linbase', 'quadpert_affine_linbase', 'product', 'quotient', 'bregman']


def unit_derived(kind):
    def run(ctx):
        I = ctx.I

        def path(st):
            flib.install(st, 'gram')
            fr = ip.Frame(st)
            try:
                b = build(I, st, fr, kind)
            except ip.PyRaise as e:
                return ('raise', e.exc)
            x = VVar('x', 'real')
            if 'nonzero' in b:
                st.assume(core.s_not(core.sc_eq(b['nonzero'](x), 0)))
            out = {'b': b, 'fr': fr, 'x': x}
            h = b['h']
            try:
                out['val'] = sem(I, fr, h, x) if not hasattr(h, 'opsym') else None
                out['val_exec'] = oplib.sem_by_execution(I, fr, h, x)
                gop = get(I, fr, h, 'gradient')
                out['grad'] = sem(I, fr, gop, x)
                xe = b['X'].element(cont=x)
                dop = I.call(get(I, fr, h, 'derivative'), [xe], {}, fr)
                out['der'] = sem(I, fr, dop, VVar('d', 'real'))
                out['lip'] = get(I, fr, h, 'grad_lipschitz')
            except ip.PyRaise as e:
                return ('raise', e.exc)
            return ('ok', out)
        info = {'kind': kind}
        for st, (status, r) in ctx.explore(path):
            if status == 'raise':
                ctx.fail(st, 'no_raise', 'raises %s%r' % (lib.exc_name(r), r.fields.get('args')), info)
                continue
            b, fr, x = r['b'], r['fr'], r['x']
            low = st.lower
            ctx.prove(st, 'value: real _call == documented table', core.sc_eq(r['val_exec'], b['value'](x)), info)
            g_spec = b['grad'](x)
            ctx.prove(st, 'gradient(x) == rule at the correct inner point', lib.eq_goal(low, r['grad'], g_spec), info)
            ctx.prove(st, 'derivative(x)(d) == <grad h(x), d>', core.sc_eq(r['der'], inner(I, fr, b['X'].space, VVar('d', 'real'), g_spec)), info)
            lip = r['lip']
            if b['lip'] is not None:
                if isinstance(lip, float) and (lip != lip or lip == float('inf')):
                    ctx.prove(st, 'grad_lipschitz: not finite (no claim)', True, info)
                else:
                    ctx.prove(st, 'grad_lipschitz finite ==> valid upper bound from the Lipschitz algebra', core.S.lift(lip) >= b['lip'], info)
    return Unit('derived/%s' % kind, run, funcs=[FN + 'Functional*'], config={'kind': kind})


# --------------------------------------------------------------------------
# Functional overloads (C04 for functionals)

def unit_overload(dunder):
    def run(ctx):
        I = ctx.I
        others = ['op', 'scalar', 'zero', 'vec', 'functional', 'foreign']
        for lin, ok in itertools.product((0, 1), others):
            def path(st, lin=lin, ok=ok):
                flib.install(st, 'gram')
                fr = ip.Frame(st)
                X = makers.tspace(I, st, 'X', 'real')
                Y = makers.tspace(I, st, 'Y', 'real')
                W = makers.tspace(I, st, 'W', 'real')
                f = AbsFunc(I, st, 'f', X, linear=lin)
                if ok == 'op':
                    other = AbsOp(I, 'B', W, X, False).op
                elif ok == 'scalar':
                    other = om.sym_scalar('s', 'real')
                    st.assume(core.s_not(core.sc_eq(other, 0)))
                elif ok == 'zero':
                    other = 0.0
                elif ok == 'vec':
                    other = X.element('v')
                elif ok == 'functional':
                    other = AbsFunc(I, st, 'g', X).op
                else:
                    other = Y.element('alien')
                try:
                    ret = I.call(get(I, fr, f.op, dunder), [other], {}, fr)
                except ip.PyRaise as e:
                    return ('raise', (e.exc, fr))
                return ('ok', dict(ret=ret, f=f, other=other, fr=fr, X=X, W=W))
            info = {'dunder': dunder, 'linear': lin, 'other': ok}
            supported = {'__mul__': ('op', 'scalar', 'zero', 'vec'), '__rmul__': ('scalar', 'zero'),
                         '__add__': ('scalar', 'zero', 'functional'), '__sub__': ('scalar', 'zero', 'functional')}[dunder]
            if dunder == '__rmul__' and ok == 'op':
                continue
            for st, (status, r) in ctx.explore(path):
                if status == 'raise':
                    exc, fr = r
                    if ok in supported:
                        ctx.fail(st, 'no_raise', 'raises %s%r' % (lib.exc_name(exc), exc.fields.get('args')), info)
                    else:
                        ctx.prove(st, 'unsupported operand is rejected with TypeError', I.exc_isinstance(exc, 'TypeError'), info)
                    continue
                fr, ret, f, other = r['fr'], r['ret'], r['f'], r['other']
                if ok not in supported:
                    # (f * y) for y in another space etc.: falls back to Operator arithmetic (C04): NotImplemented
                    if ok in ('vec', 'foreign') and dunder == '__rmul__':
                        continue     # v * f for a vector over the functional's field is FunctionalLeftVectorMult (C04)
                    ctx.prove(st, 'unsupported operand gives NotImplemented', ret is ip.NOTIMPL, info)
                    continue
                fv = lambda u: sem(I, fr, f.op, u)
                v = VVar('v_arg', 'real')
                if dunder == '__mul__':
                    exp = {'op': lambda: fv(sem(I, fr, other, v)), 'scalar': lambda: fv(v_mul(other, v)),
                           'zero': lambda: fv(VConst(0.0)), 'vec': lambda: fv(v_mul(content(other), v))}[ok]()
                elif dunder == '__rmul__':
                    exp = {'scalar': lambda: other * fv(v), 'zero': lambda: core.S.lift(0.0)}[ok]()
                elif dunder == '__add__':
                    exp = {'scalar': lambda: fv(v) + other, 'zero': lambda: fv(v), 'functional': lambda: fv(v) + sem(I, fr, other, v)}[ok]()
                else:
                    exp = {'scalar': lambda: fv(v) - other, 'zero': lambda: fv(v), 'functional': lambda: fv(v) - sem(I, fr, other, v)}[ok]()
                if not isinstance(ret, ip.Obj):
                    ctx.fail(st, 'returns a functional', 'returned %r' % (ret,), info)
                    continue
                ctx.prove(st, 'returns a Functional', I.isinstance(ret, I.get_class(FN + 'Functional')), info)
                ctx.prove(st, 'value == table for all v', core.sc_eq(sem(I, fr, ret, v), exp), info)
                exp_lin = {'__mul__': {'op': False, 'scalar': bool(lin), 'zero': None, 'vec': None},
                           '__rmul__': {'scalar': bool(lin), 'zero': None},
                           '__add__': {'scalar': None, 'zero': None, 'functional': False},
                           '__sub__': {'scalar': None, 'zero': None, 'functional': False}}[dunder][ok]
                if exp_lin is not None:
                    ctx.prove(st, 'is_linear as implied', bool(get(I, fr, ret, 'is_linear')) == exp_lin, info)
    return Unit('overload/%s' % dunder, run, funcs=[FN + 'Functional.' + dunder], config={'dunder': dunder})


def unit_canary():
    """must-fail: grad of f(s.) claimed to be grad f(s.) without the outer factor s"""
    def run(ctx):
        I = ctx.I

        def path(st):
            flib.install(st, 'gram')
            fr = ip.Frame(st)
            b = build(I, st, fr, 'right_scalar')
            x = VVar('x', 'real')
            gop = get(I, fr, b['h'], 'gradient')
            s = get(I, fr, b['h'], 'scalar')
            fobj = get(I, fr, b['h'], 'functional')
            wrong = sem(I, fr, fobj.absfunc.gradient_op().op, v_mul(s, x))
            return ('ok', (sem(I, fr, gop, x), wrong))
        for st, (status, (got, wrong)) in ctx.explore(path):
            ctx.prove(st, 'canary', lib.eq_goal(st.lower, got, wrong), {})
    return Unit('canary/chain-rule-without-outer-factor', run, kind='canary', expect='refuted')


def unit_quadratic_form(kind):
    """QuadraticForm built through its real constructor: value == <x, A x> + <b, x> + c, and the is_linear flag (which switches the
    `f * s` shortcut of Functional.__mul__ from f(s x) to s f(x)) is set only when the functional really is linear (no operator, c == 0)"""
    def run(ctx):
        I = ctx.I

        def path(st):
            flib.install(st, 'gram')
            fr = ip.Frame(st)
            X = makers.tspace(I, st, 'X', 'real')
            c = om.sym_scalar('c', 'real') if kind != 'vector_only_zero_const' else 0.0
            A = AbsOp(I, 'A', X, X, True) if kind == 'operator' else None
            b = X.element('b')
            try:
                q = I.call(I.get_class(DF + 'QuadraticForm'), [], {'operator': A.op if A else None, 'vector': b, 'constant': c}, fr)
                lin = get(I, fr, q, 'is_linear')
                x = VVar('x', 'real')
                val = oplib.sem_by_execution(I, fr, q, x)
                s_ = om.sym_scalar('s', 'real')
                st.assume(core.s_not(core.sc_eq(s_, 0)))
                scaled = I.call(get(I, fr, q, '__mul__'), [s_], {}, fr)
                sval = oplib.sem_by_execution(I, fr, scaled, x) if isinstance(scaled, ip.Obj) else None
            except ip.PyRaise as e:
                return ('raise', e.exc)
            return ('ok', dict(lin=lin, val=val, c=c, A=A, b=b, X=X, fr=fr, x=x, s=s_, sval=sval))
        info = {'kind': kind}
        for st, (status, r) in ctx.explore(path):
            if status == 'raise':
                ctx.fail(st, 'no_raise', 'raises %s' % lib.exc_desc(r), info)
                continue
            fr, X, x = r['fr'], r['X'], r['x']
            ip_ = lambda a, b_: inner(I, fr, X.space, a, b_)

            def spec(v):
                t = ip_(v, content(r['b'])) + r['c']
                if r['A'] is not None:
                    t = t + ip_(v, sem(I, fr, r['A'].op, v))
                return t
            ctx.prove(st, 'value == <x, A x> + <b, x> + c', core.sc_eq(r['val'], spec(x)), info)
            really_linear = core.sbool(core.sc_eq(r['c'], 0)) if r['A'] is None else core.sbool(False)
            ctx.prove(st, 'is_linear only if the functional is linear (no operator and c == 0)', core.s_or(core.s_not(core.sbool(bool(r['lin']))), really_linear), info)
            if r['sval'] is not None:
                ctx.prove(st, '(f * s)(x) == f(s x)  (documented right scalar multiplication, also through the linear shortcut)', core.sc_eq(r['sval'], spec(v_mul(r['s'], x))), info)
    return Unit('builtin/quadratic_form/%s' % kind, run, funcs=[DF + 'QuadraticForm.__init__', DF + 'QuadraticForm._call', FN + 'Functional.__mul__'], config={'kind': kind})



def unit_functional_pool_bounded():
    """BOUNDED stand-in (never counted as proved) for the built-in functionals outside the deductive units (sort / SVD / group-norm based closed forms,
    weighted power spaces, domains with several axes): one small instance per functional x space in contracts/funcpool.py, fixed random inputs: inner(gradient(x), d) == derivative(x)(d) == central differences of the values in the inner product of the space"""
    def run(ctx):
        from contracts import funcpool
        for name in sorted(funcpool.pool()):
            try:
                bad, n = funcpool.check_grad(name)
            except Exception as e:
                bad, n = 'check raised %s: %s' % (type(e).__name__, str(e)[:200]), 1
            if n == 0 and not bad:
                continue
            ctx.evals += max(n - 1, 0)
            ctx.bounded('built-in functional: gradient == derivative of the values', not bad, {'functional': name}, detail=bad)
    return Unit('functional-pool/gradient', run, funcs=['odl.solvers.functional.default_functionals:*', 'odl.solvers.nonsmooth.proximal_operators:*'], kind='B',
                bounded_in='one small instance per built-in functional x space in contracts/funcpool.py (130 entries), 2 step sizes x 3 random points x ~60 probes')


def units(tier, seed):
    us = [unit_derived(k) for k in KINDS]
    us += [unit_quadratic_form(k) for k in ('vector_only', 'vector_only_zero_const', 'operator')]
    us += [unit_overload(d) for d in ('__mul__', '__rmul__', '__add__', '__sub__')]
    from contracts import grouplib
    us.append(grouplib.unit_huber_gradient())
    from contracts import grouplib as _gl
    us.append(_gl.unit_separable_sum(2 if 'C09' != 'C08' else 3))
    us.append(unit_functional_pool_bounded())
    us.append(unit_canary())
    return us


def replay(ob):
    if ob.get('unit', '').startswith('group/huber'):
        from contracts import funcpool
        for nm in sorted(funcpool.pool()):
            if nm.startswith('Huber/pow'):
                try:
                    bad = funcpool.check_grad(nm)[0]
                except Exception as e:
                    bad = 'raised %s: %s' % (type(e).__name__, e)
                if bad:
                    return {'reproduced': True, 'detail': bad, 'input': {'functional': nm}}
        return {'reproduced': False, 'detail': 'gradient agrees with central differences for the Huber/pow* pool instances'}
    if ob.get('unit', '').startswith('functional-pool/'):
        from contracts import funcpool
        try:
            bad = funcpool.check_grad((ob.get('model') or {}).get('functional'))[0]
        except Exception as e:
            bad = 'raised %s: %s' % (type(e).__name__, e)
        return {'reproduced': bool(bad), 'detail': bad or 'holds natively', 'input': ob.get('model')}
    from contracts import replay_c09
    return replay_c09.replay(ob)
