"""C01 - vector arithmetic is element-wise exact under every aliasing pattern.

Deductive units (all sizes, all element values, all scalar values; dtype, alias pattern and
operand classes enumerated exhaustively):

  lincomb_impl/*      npy_tensors:_lincomb_impl (with _blas_is_applicable and the nested
                      fallback_* closures interpreted in place) against
                      out = a*x1 + b*x2, frame, no exception, BLAS/ravel kernel preconditions
  tensor/*            NumpyTensorSpace._lincomb/_multiply/_divide/zero/one, NumpyTensor.copy
                      refine the abstract kernel contract of a LinearSpace
  space/*             LinearSpace.lincomb/multiply/divide/zero against the public contract
                      (type errors before any write, `b is None` form, identity of the result)
  elem/*              the LinearSpaceElement arithmetic dunders, assign/copy/set_zero/lincomb,
                      __ipow__/__pow__ (exponent enumerated) against the arithmetic table, using
                      only the public contract of the space
  pspace/*            ProductSpace._lincomb/_multiply/_divide/zero/one for an arbitrary component
                      (generic part index) using only the abstract kernel contract of the parts
"""
import itertools

import z3

from pyvc import core, interp as ip, npmodel as npm, odlmodel as om
from pyvc.core import S, C, V, VVar, VConst, VFresh, VLin, VPw, Lower, Unsupported
from pyvc.harness import Unit
from contracts import lib
from contracts.lib import content, set_content, SPACE

NPT = 'odl.space.npy_tensors:'

META = {
    'level': 'proof',
    'trusted_base': [
        'pyvc symbolic interpreter (Python subset semantics A7) and its NumPy/BLAS kernel contracts K1-K5 (pointwise ufuncs, '
        'same_kind casting of in-place ufuncs, ravel is a view iff contiguous in that order, BLAS axpy/scal/copy)',
        'z3 5.1 / sympy polynomial normal form / cvc5 1.0 as decision procedures',
        'A1: floats are mathematical reals / complex numbers (no rounding, overflow, NaN)',
        'A2: elements are well formed: distinct element objects have disjoint buffers; parts of a product-space element are pairwise distinct objects',
        'integer spaces: scalars are integers (non-integer scalars in an integer space truncate or raise depending on the size regime; outside the contract)',
    ],
    'assumptions': ['A1 reals for floats', 'A2 no memory overlap between distinct element objects', 'A5 single-threaded', 'A7 encoded Python semantics'],
    'not_decided': [
        'floating-point rounding of the three-step fallback axpy ((x2/a + x1)*a) - exact over the reals only',
        'memory overlap between distinct objects (views of one buffer wrapped twice, product-space elements sharing a part)',
        'a broadcast operand that is itself a part of the left operand (x += x[0] on a power space: memory overlap between distinct operands, outside the identity patterns the property names)',
        'product spaces with more than 3 factors / complex 3-factor configurations (enumerated: 2 and 3 factors, power and mixed; deeper nesting by induction over the component contract)',
    ],
    'bounded_rule': '',
}

DTYPES = ['float64', 'float32', 'complex128', 'complex64', 'float16', 'int64', 'int32']


def skind(dt):
    d = npm.DT(dt)
    return {'float': 'real', 'complex': 'complex', 'int': 'int'}[d.kind]


# --------------------------------------------------------------------------
# _lincomb_impl

def unit_lincomb_impl(dt, pat, canary=None):
    def run(ctx):
        I = ctx.I
        f = I.get_func(NPT + '_lincomb_impl')

        def path(st):
            sb = om.TensorSpaceBuilder(I, dt)
            for c in sb.constraints:
                st.assume(c)
            a, b = om.sym_scalar('a', skind(dt)), om.sym_scalar('b', skind(dt))
            els = {l: sb.element(l) for l in sorted(set(pat))}
            x1, x2, out = (els[l] for l in pat)
            old = {l: els[l].buf.content for l in els}
            fr = ip.Frame(st)
            try:
                I.call(f, [a, x1, b, x2, out], {}, fr)
            except ip.PyRaise as e:
                return ('raise', e.exc)
            return ('ok', (a, b, els, old, out))

        for st, (status, r) in ctx.explore(path):
            info = {'dtype': dt, 'alias': list(pat)}
            rp = {'kind': 'lincomb_impl', 'dtype': dt, 'alias': list(pat)}
            if status == 'raise':
                ctx.fail(st, 'no_raise', 'raises %s%r' % (lib.exc_name(r), r.fields.get('args')), info, replay=rp)
                continue
            a, b, els, old, out = r
            low = st.lower
            spec = VLin([(a, old[pat[0]]), (b, old[pat[1]])])
            if canary == 'sign':
                spec = VLin([(a, old[pat[0]]), (-b, old[pat[1]])])
            ctx.prove(st, 'post:out==a*x1+b*x2', lib.eq_goal(low, out.buf.content, spec), info, replay=rp)
            for l in sorted(els):
                if els[l] is not out:
                    ctx.prove(st, 'frame:%s unchanged' % l, lib.eq_goal(low, els[l].buf.content, old[l]), info, replay=rp)
            for e in lib.bad_events(st):
                ctx.fail(st, 'kernel-precondition', repr(e), info, replay=rp)
    name = 'lincomb_impl/%s/%s' % (dt, ''.join(pat))
    if canary:
        return Unit('canary/' + name, run, kind='canary', expect='refuted')
    u = Unit(name, run, funcs=[NPT + '_lincomb_impl', NPT + '_blas_is_applicable'], config={'dtype': dt, 'alias': pat})
    u.weight = 10 if 'complex' in dt else 3
    return u


# --------------------------------------------------------------------------
# NumpyTensorSpace kernels refine the abstract kernel contract

def unit_tensor_binary(meth, dt, pat):
    """_multiply / _divide / _lincomb of NumpyTensorSpace"""
    def run(ctx):
        I = ctx.I
        f = I.get_func(NPT + 'NumpyTensorSpace.' + meth)

        def path(st):
            sb = om.TensorSpaceBuilder(I, dt)
            for c in sb.constraints:
                st.assume(c)
            els = {l: sb.element(l) for l in sorted(set(pat))}
            x1, x2, out = (els[l] for l in pat)
            old = {l: els[l].buf.content for l in els}
            fr = ip.Frame(st)
            a = b = None
            try:
                if meth == '_lincomb':
                    a, b = om.sym_scalar('a', skind(dt)), om.sym_scalar('b', skind(dt))
                    ret = I.call(f, [sb.space, a, x1, b, x2, out], {}, fr)
                else:
                    ret = I.call(f, [sb.space, x1, x2, out], {}, fr)
            except ip.PyRaise as e:
                return ('raise', e.exc)
            return ('ok', (els, old, out, a, b, ret))
        for st, (status, r) in ctx.explore(path):
            info = {'dtype': dt, 'alias': list(pat), 'method': meth}
            rp = {'kind': 'tensor_binary', 'method': meth, 'dtype': dt, 'alias': list(pat)}
            if status == 'raise':
                if meth == '_divide' and npm.DT(dt).kind == 'int' and 'UFuncTypeError' == lib.exc_name(r):
                    # true division is not closed in an integer space: numpy refuses to cast the float
                    # result into the integer output; documented behaviour of integer spaces, not claimed
                    ctx.notes.append('integer _divide raises UFuncTypeError (true division not closed in integer spaces): outside the contract')
                    continue
                ctx.fail(st, 'no_raise', 'raises %s%r' % (lib.exc_name(r), r.fields.get('args')), info, replay=rp)
                continue
            els, old, out, a, b, ret = r
            low = st.lower
            if meth == '_lincomb':
                spec = VLin([(a, old[pat[0]]), (b, old[pat[1]])])
            elif meth == '_multiply':
                spec = core.vmul(old[pat[0]], old[pat[1]])
            else:
                spec = core.vdiv(old[pat[0]], old[pat[1]])
            ctx.prove(st, 'post:value', lib.eq_goal(low, out.buf.content, spec), info, replay=rp)
            for l in sorted(els):
                if els[l] is not out:
                    ctx.prove(st, 'frame:%s unchanged' % l, lib.eq_goal(low, els[l].buf.content, old[l]), info, replay=rp)
            for e in lib.bad_events(st):
                ctx.fail(st, 'kernel-precondition', repr(e), info, replay=rp)
    u = Unit('tensor/%s/%s/%s' % (meth, dt, ''.join(pat)), run, funcs=[NPT + 'NumpyTensorSpace.' + meth],
             config={'dtype': dt, 'alias': pat, 'method': meth})
    u.weight = 2
    return u


def tensor_space_cuts(sb):
    """NumpyTensorSpace.element contract for the calls made by zero/one/copy: wraps an array of the
    space's dtype and shape without copying (the no-copy branch is proved in C17/C20)."""
    def element(I, fr, self, inp=None, data_ptr=None, order=None):
        if inp is None:
            x = sb.element(fr.st.fresh('elem'), layout='C')
            x.buf.content = VFresh(fr.st.fresh('empty'), x.buf.content.field)
            return x
        if isinstance(inp, npm.PArr):
            x = sb.element(fr.st.fresh('elem'), layout='C')
            if inp.buf.dtype == sb.dtype:
                x.fields['_NumpyTensor__data'] = inp
                x.buf = inp.buf
            else:
                x.buf.content = inp.buf.content
            return x
        if isinstance(inp, ip.Obj) and lib.in_space(I, fr, inp, self):
            return inp
        raise Unsupported('NumpyTensorSpace.element(%r)' % (inp,))
    return {NPT + 'NumpyTensorSpace.element': element}


def unit_tensor_nullary(meth, dt):
    """zero / one / NumpyTensor.copy"""
    def run(ctx):
        I = ctx.I
        owner = 'NumpyTensor.' if meth == 'copy' else 'NumpyTensorSpace.'
        f = I.get_func(NPT + owner + meth)

        def path(st):
            sb = om.TensorSpaceBuilder(I, dt)
            sb.space.fields['$default_order'] = 'C'
            for c in sb.constraints:
                st.assume(c)
            st.cuts.update(tensor_space_cuts(sb))
            st.cuts[NPT + 'NumpyTensorSpace.default_order'] = lambda I, fr, self: 'C'
            x = sb.element('x')
            old = x.buf.content
            fr = ip.Frame(st)
            try:
                ret = I.call(f, [x if meth == 'copy' else sb.space], {}, fr)
            except ip.PyRaise as e:
                return ('raise', e.exc)
            return ('ok', (sb, x, old, ret))
        for st, (status, r) in ctx.explore(path):
            info = {'dtype': dt, 'method': meth}
            if status == 'raise':
                ctx.fail(st, 'no_raise', 'raises %s%r' % (lib.exc_name(r), r.fields.get('args')), info)
                continue
            sb, x, old, ret = r
            low = st.lower
            ok_obj = isinstance(ret, ip.Obj) and hasattr(ret, 'buf') and ret.fields.get('_LinearSpaceElement__space') is sb.space
            ctx.prove(st, 'post:returns an element of the space', ok_obj, info)
            if not ok_obj:
                continue
            spec = {'zero': VConst(0.0), 'one': VConst(1.0), 'copy': old}[meth]
            ctx.prove(st, 'post:value', lib.eq_goal(low, ret.buf.content, spec), info)
            ctx.prove(st, 'post:result is fresh (own buffer)', ret is not x and ret.buf is not x.buf, info)
            ctx.prove(st, 'frame:x unchanged', lib.eq_goal(low, x.buf.content, old), info)
    return Unit('tensor/%s/%s' % (meth, dt), run, funcs=[NPT + ('NumpyTensor.' if meth == 'copy' else 'NumpyTensorSpace.') + meth],
                config={'dtype': dt, 'method': meth})


# --------------------------------------------------------------------------
# LinearSpace public interface against the abstract kernel contract

ROLES = ['x', 'y', 'o', 'alien']


def unit_space_method(meth, field):
    """LinearSpace.lincomb / multiply / divide for every assignment of operands to
    {three distinct elements of the space, an element of another space}, out given or None,
    b given or None, scalars in / not in the field."""
    def run(ctx):
        I = ctx.I
        f = I.get_func(SPACE + 'LinearSpace.' + meth)
        scal_kinds = ['real', 'complex'] if field == 'real' else ['complex']
        cases = []
        for r1, r2 in itertools.product(ROLES, ROLES):
            for ro in ROLES + [None]:
                if meth == 'lincomb':
                    for ka in scal_kinds:
                        for bmode in (scal_kinds + ['none', 'none+x2']):
                            cases.append((r1, r2, ro, ka, bmode))
                else:
                    cases.append((r1, r2, ro, None, None))
        for case in cases:
            r1, r2, ro, ka, bmode = case

            def path(st, case=case):
                asp = lib.AbstractSpace(I, 'X', field)
                other = lib.AbstractSpace(I, 'Y', field)
                st.cuts.update(lib.abstract_space_cuts(asp))
                els = {'x': asp.element('x'), 'y': asp.element('y'), 'o': asp.element('o'), 'alien': other.element('alien')}
                old = {k: content(v) for k, v in els.items()}
                fr = ip.Frame(st)
                x1, x2 = els[r1], els[r2]
                out = els[ro] if ro else None
                a = b = None
                try:
                    if meth == 'lincomb':
                        a = om.sym_scalar('a', ka)
                        if bmode == 'none':
                            ret = I.call(f, [asp.space, a, x1], {'out': out}, fr)
                        elif bmode == 'none+x2':
                            ret = I.call(f, [asp.space, a, x1, None, x2], {'out': out}, fr)
                        else:
                            b = om.sym_scalar('b', bmode)
                            ret = I.call(f, [asp.space, a, x1, b, x2, out], {}, fr)
                    else:
                        ret = I.call(f, [asp.space, x1, x2, out], {}, fr)
                except ip.PyRaise as e:
                    return ('raise', (e.exc, els, old, asp))
                return ('ok', (els, old, out, a, b, ret, asp))
            # rejection order taken from the code: out, a, x1 first; then the `x2 without b` misuse; then b, x2
            bad_first = ro == 'alien' or r1 == 'alien' or (meth == 'lincomb' and field == 'real' and ka == 'complex')
            misuse = bmode == 'none+x2' and not bad_first
            bad_scalar = bad_first or (not misuse and meth == 'lincomb' and field == 'real' and bmode == 'complex')
            bad_operand = bad_first or (not misuse and r2 == 'alien' and bmode != 'none')
            info = {'case': list(map(str, case)), 'field': field}
            for st, (status, r) in ctx.explore(path):
                low = st.lower
                if status == 'raise':
                    exc, els, old, asp = r
                    name = lib.exc_name(exc)
                    if bad_scalar or bad_operand:
                        ctx.prove(st, 'error:LinearSpaceTypeError on foreign operand/scalar', name == 'LinearSpaceTypeError', info)
                    elif misuse:
                        ctx.prove(st, 'error:ValueError for x2 without b', name == 'ValueError', info)
                    else:
                        ctx.fail(st, 'no_raise', 'raises %s%r on valid operands' % (name, exc.fields.get('args')), info)
                    # rejected before any result is produced: nothing modified
                    for k in sorted(els):
                        ctx.prove(st, 'error-frame:%s unchanged' % k, lib.eq_goal(low, content(els[k]), old[k]), info)
                    continue
                els, old, out, a, b, ret, asp = r
                if bad_scalar or bad_operand or misuse:
                    ctx.fail(st, 'must_raise', 'accepted a foreign operand / scalar / x2 without b', info)
                    continue
                if out is not None:
                    ctx.prove(st, 'post:returns the object `out`', ret is out, info)
                else:
                    fresh = isinstance(ret, ip.Obj) and all(ret is not e for e in els.values()) and \
                        ret.fields.get('_LinearSpaceElement__space') is asp.space
                    ctx.prove(st, 'post:returns a fresh element of the space', fresh, info)
                if not isinstance(ret, ip.Obj):
                    continue
                if meth == 'lincomb':
                    spec = VLin([(a, old[r1])]) if b is None else VLin([(a, old[r1]), (b, old[r2])])
                elif meth == 'multiply':
                    spec = core.vmul(old[r1], old[r2])
                else:
                    spec = core.vdiv(old[r1], old[r2])
                ctx.prove(st, 'post:value', lib.eq_goal(low, content(ret), spec), info)
                for k in sorted(els):
                    if els[k] is not ret:
                        ctx.prove(st, 'frame:%s unchanged' % k, lib.eq_goal(low, content(els[k]), old[k]), info)
    u = Unit('space/%s/%s' % (meth, field), run, funcs=[SPACE + 'LinearSpace.' + meth], config={'method': meth, 'field': field})
    u.weight = 6
    return u


def unit_space_zero(field):
    def run(ctx):
        I = ctx.I
        f = I.get_func(SPACE + 'LinearSpace.zero')

        def path(st):
            asp = lib.AbstractSpace(I, 'X', field)
            st.cuts.update(lib.abstract_space_cuts(asp))
            fr = ip.Frame(st)
            ret = I.call(f, [asp.space], {}, fr)
            return ('ok', (asp, ret))
        for st, (status, (asp, ret)) in ctx.explore(path):
            low = st.lower
            ctx.prove(st, 'post:value is zero whatever element() returned', lib.eq_goal(low, content(ret), VConst(0.0)), {})
    return Unit('space/zero/%s' % field, run, funcs=[SPACE + 'LinearSpace.zero'], config={'field': field})


# --------------------------------------------------------------------------
# element dunders against the public contract of the space

def make_abstract_elem(asp):
    def mk(fr, space, cont):
        return asp.element(cont=cont)
    return mk


BIN_TABLE = lib.BIN_TABLE


def unit_elem_binary(dunder, field):
    inplace, espec, sspec = BIN_TABLE[dunder]

    def run(ctx):
        I = ctx.I
        f = I.get_func(SPACE + 'LinearSpaceElement.' + dunder)
        others = ['self', 'elem', 'scalar', 'alien', 'badscalar', 'str', 'arraylike']
        for ok in others:
            def path(st, ok=ok):
                asp = lib.AbstractSpace(I, 'X', field)
                oth = lib.AbstractSpace(I, 'Y', field)
                st.cuts.update(lib.space_api_cuts(make_abstract_elem(asp)))
                x, y, al = asp.element('x'), asp.element('y'), oth.element('alien')
                els = {'x': x, 'y': y, 'alien': al}
                old = {k: content(v) for k, v in els.items()}
                s = None
                if ok == 'self':
                    o = x
                elif ok == 'elem':
                    o = y
                elif ok == 'alien':
                    o = al
                elif ok == 'scalar':
                    o = s = om.sym_scalar('s', field)
                    if dunder in ('__truediv__', '__itruediv__'):
                        st.assume(core.s_not(core.sc_eq(s, 0)))
                elif ok == 'badscalar':
                    o = s = om.sym_scalar('s', 'complex')      # complex scalar: not in a real field
                elif ok == 'arraylike':
                    # the caller's ndarray of matching shape / dtype: space.element wraps it without copy, so a write to the wrapper is a write to the array
                    els['arr'] = asp.element('arr')
                    old['arr'] = content(els['arr'])
                    o = lib.ArrayLike(els['arr'])
                else:
                    o = 'text'
                fr = ip.Frame(st)
                try:
                    ret = I.call(f, [x, o], {}, fr)
                except ip.PyRaise as e:
                    return ('raise', (e.exc, els, old))
                return ('ok', (els, old, o, s, ret, asp))
            info = {'dunder': dunder, 'other': ok, 'field': field}
            valid = ok in ('self', 'elem', 'scalar', 'arraylike') or (ok == 'badscalar' and field == 'complex')
            for st, (status, r) in ctx.explore(path):
                low = st.lower
                if status == 'raise':
                    exc, els, old = r
                    if valid:
                        ctx.fail(st, 'no_raise', 'raises %s%r' % (lib.exc_name(exc), exc.fields.get('args')), info)
                    else:
                        ctx.prove(st, 'error:TypeError for unsupported operand (in-place form)', inplace and lib.exc_name(exc) == 'TypeError', info)
                    for k in sorted(els):
                        ctx.prove(st, 'error-frame:%s unchanged' % k, lib.eq_goal(low, content(els[k]), old[k]), info)
                    continue
                els, old, o, s, ret, asp = r
                if not valid:
                    ctx.prove(st, 'post:NotImplemented for unsupported operand', ret is ip.NOTIMPL and not inplace, info)
                    for k in sorted(els):
                        ctx.prove(st, 'frame:%s unchanged' % k, lib.eq_goal(low, content(els[k]), old[k]), info)
                    continue
                x = els['x']
                if not isinstance(ret, ip.Obj):
                    ctx.fail(st, 'post:returns an element', 'returned %r' % (ret,), info)
                    continue
                if inplace:
                    ctx.prove(st, 'post:in-place form returns self', ret is x, info)
                else:
                    ctx.prove(st, 'post:result is a fresh element', all(ret is not e for e in els.values()), info)
                if ok in ('scalar', 'badscalar'):
                    spec = sspec(old['x'], s)
                else:
                    spec = espec(old['x'], old['x'] if ok == 'self' else (old['arr'] if ok == 'arraylike' else old['y']))
                ctx.prove(st, 'post:value', lib.eq_goal(low, content(ret), spec), info)
                for k in sorted(els):
                    if els[k] is not ret:
                        ctx.prove(st, 'frame:%s unchanged' % k, lib.eq_goal(low, content(els[k]), old[k]), info)
    return Unit('elem/%s/%s' % (dunder, field), run, funcs=[SPACE + 'LinearSpaceElement.' + dunder],
                config={'dunder': dunder, 'field': field})


def unit_elem_unary(meth, field):
    """assign, copy, set_zero, lincomb (method), __neg__, __pos__"""
    def run(ctx):
        I = ctx.I
        f = I.get_func(SPACE + 'LinearSpaceElement.' + meth)
        variants = {'assign': ['self', 'elem', 'alien'], 'lincomb': ['xx', 'xy', 'yx', 'yz', 'x-none']}.get(meth, ['-'])
        for var in variants:
            def path(st, var=var):
                asp = lib.AbstractSpace(I, 'X', field)
                oth = lib.AbstractSpace(I, 'Y', field)
                st.cuts.update(lib.space_api_cuts(make_abstract_elem(asp)))
                # LinearSpaceElement.__mul__/__rmul__ are used by __neg__: their own contract (proved in elem/__mul__)
                x, y, z, al = asp.element('x'), asp.element('y'), asp.element('z'), oth.element('alien')
                els = {'x': x, 'y': y, 'z': z, 'alien': al}
                old = {k: content(v) for k, v in els.items()}
                fr = ip.Frame(st)
                a = b = None
                try:
                    if meth == 'assign':
                        ret = I.call(f, [x, {'self': x, 'elem': y, 'alien': al}[var]], {}, fr)
                    elif meth == 'lincomb':
                        a, b = om.sym_scalar('a', field), om.sym_scalar('b', field)
                        if var == 'x-none':
                            ret = I.call(f, [x, a, y], {}, fr)
                        else:
                            m = {'x': x, 'y': y, 'z': z}
                            ret = I.call(f, [x, a, m[var[0]], b, m[var[1]]], {}, fr)
                    else:
                        ret = I.call(f, [x], {}, fr)
                except ip.PyRaise as e:
                    return ('raise', (e.exc, els, old))
                return ('ok', (els, old, ret, a, b))
            info = {'method': meth, 'variant': var, 'field': field}
            for st, (status, r) in ctx.explore(path):
                low = st.lower
                if status == 'raise':
                    exc, els, old = r
                    if var == 'alien':
                        ctx.prove(st, 'error:LinearSpaceTypeError', lib.exc_name(exc) == 'LinearSpaceTypeError', info)
                        for k in sorted(els):
                            ctx.prove(st, 'error-frame:%s unchanged' % k, lib.eq_goal(low, content(els[k]), old[k]), info)
                    else:
                        ctx.fail(st, 'no_raise', 'raises %s%r' % (lib.exc_name(exc), exc.fields.get('args')), info)
                    continue
                els, old, ret, a, b = r
                if var == 'alien':
                    ctx.fail(st, 'must_raise', 'assign from a foreign element accepted', info)
                    continue
                x = els['x']
                if meth in ('assign', 'set_zero', 'lincomb'):
                    ctx.prove(st, 'post:returns self', ret is x, info)
                else:
                    ctx.prove(st, 'post:result is a fresh element', isinstance(ret, ip.Obj) and all(ret is not e for e in els.values()), info)
                if not isinstance(ret, ip.Obj):
                    continue
                if meth == 'assign':
                    spec = old['x'] if var == 'self' else old['y']
                elif meth in ('copy', '__pos__'):
                    spec = old['x']
                elif meth == 'set_zero':
                    spec = VConst(0.0)
                elif meth == '__neg__':
                    spec = VLin([(-1, old['x'])])
                elif var == 'x-none':
                    spec = VLin([(a, old['y'])])
                else:
                    spec = VLin([(a, old[var[0]]), (b, old[var[1]])])
                ctx.prove(st, 'post:value', lib.eq_goal(low, content(ret), spec), info)
                for k in sorted(els):
                    if els[k] is not ret:
                        ctx.prove(st, 'frame:%s unchanged' % k, lib.eq_goal(low, content(els[k]), old[k]), info)
    return Unit('elem/%s/%s' % (meth, field), run, funcs=[SPACE + 'LinearSpaceElement.' + meth], config={'method': meth, 'field': field})


POW_RANGE = list(range(-4, 9))


def vpow(x, p):
    if p == 0:
        return VConst(1.0)
    if p < 0:
        return core.vdiv(VConst(1.0), vpow(x, -p))
    r = x
    for _ in range(p - 1):
        r = core.vmul(r, x)
    return r


def unit_elem_pow(meth, field):
    """__ipow__ / __pow__ for every integer exponent in POW_RANGE (bounded-in: exponent); the
    recursion on even exponents and the loop on odd exponents are unrolled by the interpreter."""
    def run(ctx):
        I = ctx.I
        f = I.get_func(SPACE + 'LinearSpaceElement.' + meth)
        for p in POW_RANGE:
            def path(st, p=p):
                asp = lib.AbstractSpace(I, 'X', field)
                st.cuts.update(lib.space_api_cuts(make_abstract_elem(asp)))
                x, y = asp.element('x'), asp.element('y')
                old = {'x': content(x), 'y': content(y)}
                if p < 0:
                    lib.assume_nonzero(st, 'x', field)    # requires: no division by zero
                fr = ip.Frame(st)
                try:
                    ret = I.call(f, [x, p], {}, fr)
                except ip.PyRaise as e:
                    return ('raise', e.exc)
                return ('ok', (x, y, old, ret))
            info = {'method': meth, 'p': p, 'field': field}
            for st, (status, r) in ctx.explore(path):
                if status == 'raise':
                    ctx.fail(st, 'no_raise', 'raises %s%r' % (lib.exc_name(r), r.fields.get('args')), info)
                    continue
                x, y, old, ret = r
                low = st.lower
                if meth == '__ipow__':
                    ctx.prove(st, 'post:returns self', ret is x, info)
                else:
                    ctx.prove(st, 'post:result is fresh', isinstance(ret, ip.Obj) and ret is not x, info)
                    ctx.prove(st, 'frame:x unchanged', lib.eq_goal(low, content(x), old['x']), info)
                if isinstance(ret, ip.Obj):
                    ctx.prove(st, 'post:value == x**p', lib.eq_goal(low, content(ret), vpow(old['x'], p)), info)
                ctx.prove(st, 'frame:y unchanged', lib.eq_goal(low, content(y), old['y']), info)
    return Unit('elem/%s/%s' % (meth, field), run, funcs=[SPACE + 'LinearSpaceElement.' + meth], config={'method': meth, 'field': field},
                bounded_in='integer exponent p in [%d, %d]' % (POW_RANGE[0], POW_RANGE[-1]))



# --------------------------------------------------------------------------
# ProductSpace: component-wise delegation and power-space broadcasting.
#
# The product space, its elements and everything between the public entry point and the component
# kernels is the REAL code (ProductSpace._lincomb/_multiply/_divide/zero/one/element/__getitem__/__len__/__eq__,
# ProductSpaceElement.__init__/parts/__getitem__/__len__, the closure returned by `_broadcast_arithmetic`,
# LinearSpaceElement.<dunder>, LinearSpace.lincomb/multiply/divide/__contains__).  The COMPONENT spaces are arbitrary
# LinearSpaces known only through the contracts proved above (abstract kernel contract, public space contract,
# element-dunder table) - which are exactly the statements proved here for the product space, so arbitrarily nested
# product spaces follow by structural induction over the nesting depth.

PSP = 'odl.space.pspace:'


def _is_leaf(o, base):
    return isinstance(o, ip.Obj) and o.cls is base


def pspace_world(I, st, k, power, field):
    """a product of k arbitrary component spaces (all equal for a power space), leaf contracts installed as
    cuts that step aside for product-space objects (those run the real code)"""
    if power:
        a0 = lib.AbstractSpace(I, 'X', field)
        asps = [a0] * k
    else:
        asps = [lib.AbstractSpace(I, 'X%d' % i, field) for i in range(k)]
    by_space = {id(a.space): a for a in asps}
    alien = lib.AbstractSpace(I, 'Y', field)
    by_space[id(alien.space)] = alien

    def make_elem(fr, space, cont):
        return by_space[id(space)].element(cont=cont)
    lcls = I.get_class(SPACE + 'LinearSpace')
    ecls = I.get_class(SPACE + 'LinearSpaceElement')
    cuts = {}
    leafcuts = {}
    leafcuts.update(lib.abstract_space_cuts(asps[0]))       # _lincomb / _multiply / _divide (space-independent)
    leafcuts.update(lib.space_api_cuts(make_elem))
    leafcuts.update(lib.elem_api_cuts(make_elem))
    for q, cut in leafcuts.items():
        if q.startswith(SPACE + 'LinearSpace.') or q.startswith(SPACE + 'LinearSpaceElement.'):
            base = ecls if 'LinearSpaceElement.' in q else lcls
            try:
                real = I.get_func(q)
            except Exception:
                real = None

            def guarded(I_, fr, self, *a, _cut=cut, _real=real, _base=base, _q=q, **kw):
                if _is_leaf(self, _base) or _real is None:
                    return _cut(I_, fr, self, *a, **kw)
                return I_.call_func(_real, [self] + list(a), kw, fr)
            cuts[q] = guarded
        else:
            cuts[q] = cut
    st.cuts.update(cuts)
    ps = ip.Obj(I.get_class(PSP + 'ProductSpace'))
    ps.fields['_ProductSpace__spaces'] = tuple(a.space for a in asps)
    ps.fields['_ProductSpace__is_power_space'] = bool(power)
    ps.fields['_LinearSpace__field'] = om.field_obj(I, field)
    ps.partial = True

    class W(object):
        pass
    w = W()
    w.asps, w.alien, w.space, w.k = asps, alien, ps, k
    pecls = I.get_class(PSP + 'ProductSpaceElement')

    def pelem(name):
        x = ip.Obj(pecls)
        x.fields['_LinearSpaceElement__space'] = ps
        x.fields['_ProductSpaceElement__parts'] = tuple(asps[i].element('%s%d' % (name, i)) for i in range(k))
        x.ename = name
        return x
    w.pelem = pelem
    return w


def pparts(x):
    return x.fields['_ProductSpaceElement__parts']


def unit_pspace_kernel(meth, k, power, field):
    """ProductSpace._lincomb / _multiply / _divide: part i of `out` becomes a*x1_i + b*x2_i (x1_i * x2_i, x1_i / x2_i) for EVERY i, for the 5 identity
    patterns of (x1, x2, out); parts of operands that are not the output are unchanged; parts keep their identity."""
    def run(ctx):
        I = ctx.I
        f = I.get_func(PSP + 'ProductSpace.' + meth)
        for pat in lib.ALIAS3:
            def path(st, pat=pat):
                w = pspace_world(I, st, k, power, field)
                els = {l: w.pelem(l) for l in sorted(set(pat))}
                x1, x2, out = (els[l] for l in pat)
                old = {l: [content(p) for p in pparts(els[l])] for l in els}
                objs = {l: list(pparts(els[l])) for l in els}
                fr = ip.Frame(st)
                a = om.sym_scalar('a', field)
                b = om.sym_scalar('b', field)
                try:
                    if meth == '_lincomb':
                        I.call(f, [w.space, a, x1, b, x2, out], {}, fr)
                    else:
                        I.call(f, [w.space, x1, x2, out], {}, fr)
                except ip.PyRaise as e:
                    return ('raise', e.exc)
                return ('ok', (a, b, els, old, objs))
            info = {'method': meth, 'alias': list(pat), 'components': k, 'power_space': power, 'field': field}
            rp = {'kind': 'pspace_kernel', 'method': meth, 'alias': list(pat), 'components': k, 'power': power, 'field': field}
            for st, (status, r) in ctx.explore(path):
                if status == 'raise':
                    ctx.fail(st, 'no_raise', 'raises %s' % lib.exc_desc(r), info, replay=rp)
                    continue
                a, b, els, old, objs = r
                low = st.lower
                for i in range(k):
                    o1, o2 = old[pat[0]][i], old[pat[1]][i]
                    spec = VLin([(a, o1), (b, o2)]) if meth == '_lincomb' else (core.vmul(o1, o2) if meth == '_multiply' else core.vdiv(o1, o2))
                    ctx.prove(st, 'post:part %d of out == entry-wise result of parts %d' % (i, i), lib.eq_goal(low, content(pparts(els[pat[2]])[i]), spec), info, replay=rp)
                for l in sorted(els):
                    ctx.prove(st, 'frame:%s keeps its part objects' % l, len(pparts(els[l])) == k and all(p is q for p, q in zip(pparts(els[l]), objs[l])), info, replay=rp)
                    if l != pat[2]:
                        for i in range(k):
                            ctx.prove(st, 'frame:part %d of %s unchanged' % (i, l), lib.eq_goal(low, content(pparts(els[l])[i]), old[l][i]), info, replay=rp)
    return Unit('pspace/%s/k=%d/%s/%s' % (meth, k, 'power' if power else 'mixed', field), run, funcs=[PSP + 'ProductSpace.' + meth],
                config={'method': meth, 'components': k, 'power_space': power, 'field': field})


def unit_pspace_nullary(meth, k, power, field):
    """ProductSpace.zero / one: an element of the very space with k parts, part i a fresh element of factor i holding 0 / 1"""
    def run(ctx):
        I = ctx.I
        f = I.get_func(PSP + 'ProductSpace.' + meth)

        def path(st):
            w = pspace_world(I, st, k, power, field)
            fr = ip.Frame(st)
            try:
                ret = I.call(f, [w.space], {}, fr)
            except ip.PyRaise as e:
                return ('raise', e.exc)
            return ('ok', (w, ret))
        info = {'method': meth, 'components': k, 'power_space': power, 'field': field}
        rp = {'kind': 'pspace_nullary', 'method': meth, 'components': k, 'power': power, 'field': field}
        for st, (status, r) in ctx.explore(path):
            if status == 'raise':
                ctx.fail(st, 'no_raise', 'raises %s' % lib.exc_desc(r), info, replay=rp)
                continue
            w, ret = r
            low = st.lower
            ok = isinstance(ret, ip.Obj) and ret.fields.get('_LinearSpaceElement__space') is w.space and len(ret.fields.get('_ProductSpaceElement__parts', ())) == k
            ctx.prove(st, 'post:an element of the very space with one part per factor', ok, info, replay=rp)
            if not ok:
                continue
            for i, p in enumerate(pparts(ret)):
                ctx.prove(st, 'post:part %d belongs to factor %d' % (i, i), isinstance(p, ip.Obj) and p.fields.get('_LinearSpaceElement__space') is w.asps[i].space, info, replay=rp)
                ctx.prove(st, 'post:part %d == %s' % (i, meth), lib.eq_goal(low, content(p), VConst(0.0 if meth == 'zero' else 1.0)), info, replay=rp)
            ctx.prove(st, 'post:parts are pairwise distinct objects', len({id(p) for p in pparts(ret)}) == k, info, replay=rp)
    return Unit('pspace/%s/k=%d/%s/%s' % (meth, k, 'power' if power else 'mixed', field), run,
                funcs=[PSP + 'ProductSpace.' + meth, PSP + 'ProductSpace.element', PSP + 'ProductSpaceElement.__init__'],
                config={'method': meth, 'components': k, 'power_space': power, 'field': field})


def broadcast_bindings(I):
    """the module-level loop of odl.space.pspace that installs the broadcasting dunders on ProductSpaceElement, executed from source:
    {dunder name: op string handed to _broadcast_arithmetic}"""
    import ast
    mod = I.repo.module('odl.space.pspace')
    loops = [n for n in mod.tree.body if isinstance(n, ast.For) and 'setattr' in ast.dump(n) and '_broadcast_arithmetic' in ast.dump(n)]
    if len(loops) != 1:
        raise Unsupported('expected exactly one module-level loop installing _broadcast_arithmetic, found %d' % len(loops))
    bound = {}
    st = ip.State()
    fr = ip.Frame(st, None, None, mod)
    env = ip.Env(I.modenv('odl.space.pspace'))
    pecls = I.get_class(PSP + 'ProductSpaceElement')

    def rec_setattr(I_, fr_, a, kw):
        tgt, name, val = a
        if tgt is not pecls:
            raise Unsupported('setattr on %r' % (tgt,))
        bound[name] = val
        return None
    env.vars['setattr'] = ip.Builtin('setattr', rec_setattr)
    env.vars['_broadcast_arithmetic'] = ip.Builtin('_broadcast_arithmetic', lambda I_, fr_, a, kw: ('op', a[0]))
    I.exec_stmt(loops[0], env, fr)
    return {n: v[1] for n, v in bound.items()}, None


PS_OTHERS = ['self', 'pelem', 'leaf', 'leaf-part', 'scalar', 'alien', 'badscalar', 'str']


def unit_pspace_dunder(dunder, k, power, field):
    """the arithmetic dunders of ProductSpaceElement as installed by the module-level loop (closure of `_broadcast_arithmetic`), executed down to the
    component contracts: other = element of the product space (also self), element of the single factor of a power space (broadcast: part_i op other for
    every i), scalar of the field (scalar broadcasting), foreign element / scalar / object (NotImplemented resp. TypeError, nothing written)."""
    inplace, espec, sspec = BIN_TABLE[dunder]

    def run(ctx):
        I = ctx.I
        bind, _ = broadcast_bindings(I)
        st0 = ip.State()
        if dunder not in bind:
            ctx.fail(st0, 'binding:ProductSpaceElement.%s is installed by the module-level loop' % dunder, 'installed: %s' % sorted(bind), {'dunder': dunder})
            return
        ctx.prove(st0, 'binding:ProductSpaceElement.%s is built from the operator of the same name' % dunder, bind[dunder] == dunder, {'dunder': dunder, 'op': bind[dunder]})
        factory = I.get_func(PSP + '_broadcast_arithmetic')
        for ok in PS_OTHERS:
            if ok in ('leaf-part',) and not power:
                continue

            def path(st, ok=ok):
                w = pspace_world(I, st, k, power, field)
                fr = ip.Frame(st)
                f = I.call(factory, [bind[dunder]], {}, fr)
                x, y = w.pelem('x'), w.pelem('y')
                lf = w.asps[0].element('u')
                al = w.alien.element('alien')
                els = {'u': lf, 'alien': al}
                for nm, e in (('x', x), ('y', y)):
                    for i, p in enumerate(pparts(e)):
                        els['%s%d' % (nm, i)] = p
                old = {n: content(e) for n, e in els.items()}
                objs = list(pparts(x))
                s = None
                if ok == 'self':
                    o = x
                elif ok == 'pelem':
                    o = y
                elif ok == 'leaf':
                    o = lf
                elif ok == 'alien':
                    o = al
                elif ok == 'scalar':
                    o = s = om.sym_scalar('s', field)
                    if dunder in ('__truediv__', '__itruediv__'):
                        st.assume(core.s_not(core.sc_eq(s, 0)))
                elif ok == 'badscalar':
                    o = s = om.sym_scalar('s', 'complex')
                else:
                    o = 'text'
                try:
                    ret = I.call(f, [x, o], {}, fr)
                except ip.PyRaise as e:
                    return ('raise', (e.exc, els, old))
                return ('ok', (w, x, objs, els, old, s, ret))
            info = {'dunder': dunder, 'other': ok, 'components': k, 'power_space': power, 'field': field}
            rp = dict(info, kind='pspace_dunder')
            bcast = ok == 'leaf' and power
            valid = ok in ('self', 'pelem', 'scalar') or bcast or (ok == 'badscalar' and field == 'complex')
            for st, (status, r) in ctx.explore(path):
                low = st.lower
                if status == 'raise':
                    exc, els, old = r
                    if valid:
                        ctx.fail(st, 'no_raise', 'raises %s' % lib.exc_desc(exc), info, replay=rp)
                    else:
                        ctx.prove(st, 'error:TypeError for unsupported operand (in-place form)', inplace and lib.exc_name(exc) == 'TypeError', info, replay=rp)
                    for n in sorted(els):
                        ctx.prove(st, 'error-frame:%s unchanged' % n, lib.eq_goal(low, content(els[n]), old[n]), info, replay=rp)
                    continue
                w, x, objs, els, old, s, ret = r
                if not valid:
                    ctx.prove(st, 'post:NotImplemented for unsupported operand', ret is ip.NOTIMPL and not inplace, dict(info, got=repr(ret)), replay=rp)
                    for n in sorted(els):
                        ctx.prove(st, 'frame:%s unchanged' % n, lib.eq_goal(low, content(els[n]), old[n]), info, replay=rp)
                    continue
                ok_obj = isinstance(ret, ip.Obj) and ret.fields.get('_LinearSpaceElement__space') is w.space and len(ret.fields.get('_ProductSpaceElement__parts', ())) == k
                ctx.prove(st, 'post:returns an element of the product space with one part per factor', ok_obj, dict(info, got=repr(ret)), replay=rp)
                if not ok_obj:
                    continue
                rparts = pparts(ret)
                if inplace:
                    ctx.prove(st, 'post:in-place form works on the very parts of self', all(p is q for p, q in zip(rparts, objs)) and all(p is q for p, q in zip(pparts(x), objs)), info, replay=rp)
                else:
                    ctx.prove(st, 'post:result parts are fresh elements', all(all(p is not e for e in els.values()) for p in rparts), info, replay=rp)
                written = set()
                for i in range(k):
                    xi = old['x%d' % i]
                    if ok in ('scalar', 'badscalar'):
                        spec = sspec(xi, s)
                    elif ok == 'self':
                        spec = espec(xi, xi)
                    elif ok == 'pelem':
                        spec = espec(xi, old['y%d' % i])
                    else:
                        spec = espec(xi, old['u'])
                    ctx.prove(st, 'post:part %d == entry-wise result' % i, lib.eq_goal(low, content(rparts[i]), spec), info, replay=rp)
                    ctx.prove(st, 'post:part %d belongs to factor %d' % (i, i), rparts[i].fields.get('_LinearSpaceElement__space') is w.asps[i].space, info, replay=rp)
                    written.add(id(rparts[i]))
                for n in sorted(els):
                    if id(els[n]) not in written:
                        ctx.prove(st, 'frame:%s unchanged' % n, lib.eq_goal(low, content(els[n]), old[n]), info, replay=rp)
    u = Unit('pspace/%s/k=%d/%s/%s' % (dunder, k, 'power' if power else 'mixed', field), run,
             funcs=[PSP + '_broadcast_arithmetic', PSP + 'ProductSpace._lincomb', PSP + 'ProductSpace._multiply', PSP + 'ProductSpace._divide', PSP + 'ProductSpace.one',
                    PSP + 'ProductSpace.element', PSP + 'ProductSpace.__getitem__', PSP + 'ProductSpace.__eq__', PSP + 'ProductSpaceElement.__getitem__',
                    SPACE + 'LinearSpaceElement.' + dunder, SPACE + 'LinearSpace.lincomb', SPACE + 'LinearSpace.multiply', SPACE + 'LinearSpace.divide'],
             config={'dunder': dunder, 'components': k, 'power_space': power, 'field': field})
    u.weight = 4
    return u


DSP = 'odl.discr.discr_space:'


def unit_discr_kernel(meth, field):
    """DiscretizedSpace._lincomb / _multiply / _divide / zero / one: delegation to the coefficient tensor space - the tensor of `out` receives the entry-wise result of the
    TENSORS of x1, x2 under the 5 identity patterns, nothing else is written; zero() / one() wrap the zero / one of the tensor space in an element of the very space.
    The tensor space is an arbitrary space under the abstract kernel contract (NumpyTensorSpace refines it: tensor/*)."""
    def run(ctx):
        I = ctx.I
        f = I.get_func(DSP + 'DiscretizedSpace.' + meth)
        pats = lib.ALIAS3 if meth.startswith('_') else [None]
        for pat in pats:
            def path(st, pat=pat):
                asp = lib.AbstractSpace(I, 'T', field)
                st.cuts.update(lib.abstract_space_cuts(asp))
                st.cuts.update({k: v for k, v in lib.space_api_cuts(make_abstract_elem(asp)).items() if k.endswith('.zero') or k.endswith('.one')})
                ds = ip.Obj(I.get_class(DSP + 'DiscretizedSpace'))
                ds.fields['_DiscretizedSpace__tspace'] = asp.space
                ds.fields['_LinearSpace__field'] = om.field_obj(I, field)
                ds.partial = True
                ecls = I.get_class(DSP + 'DiscretizedSpaceElement')

                def delem(name):
                    e = ip.Obj(ecls)
                    e.fields['_LinearSpaceElement__space'] = ds
                    e.fields['_DiscretizedSpaceElement__tensor'] = asp.element(name)
                    return e
                fr = ip.Frame(st)
                if pat is None:
                    try:
                        ret = I.call(f, [ds], {}, fr)
                    except ip.PyRaise as e:
                        return ('raise', e.exc)
                    return ('ok', (ds, asp, ret))
                els = {l: delem(l) for l in sorted(set(pat))}
                x1, x2, out = (els[l] for l in pat)
                tens = {l: els[l].fields['_DiscretizedSpaceElement__tensor'] for l in els}
                old = {l: content(tens[l]) for l in els}
                a, b = om.sym_scalar('a', field), om.sym_scalar('b', field)
                try:
                    if meth == '_lincomb':
                        I.call(f, [ds, a, x1, b, x2, out], {}, fr)
                    else:
                        I.call(f, [ds, x1, x2, out], {}, fr)
                except ip.PyRaise as e:
                    return ('raise', e.exc)
                return ('ok', (a, b, els, tens, old))
            info = {'method': meth, 'alias': list(pat) if pat else None, 'field': field}
            for st, (status, r) in ctx.explore(path):
                if status == 'raise':
                    ctx.fail(st, 'no_raise', 'raises %s' % lib.exc_desc(r), info)
                    continue
                low = st.lower
                if pat is None:
                    ds, asp, ret = r
                    ok = isinstance(ret, ip.Obj) and ret.cls.name == 'DiscretizedSpaceElement' and ret.fields.get('_LinearSpaceElement__space') is ds
                    ctx.prove(st, 'post:an element of the very space', ok, dict(info, got=repr(ret)))
                    if ok:
                        t = ret.fields.get('_DiscretizedSpaceElement__tensor')
                        ctx.prove(st, 'post:its tensor is an element of the tensor space holding %s' % meth, isinstance(t, ip.Obj) and t.fields.get('_LinearSpaceElement__space') is asp.space and
                                  bool(st.entails(lib.eq_goal(low, content(t), VConst(0.0 if meth == 'zero' else 1.0)))) if isinstance(t, ip.Obj) else False, info)
                    continue
                a, b, els, tens, old = r
                o1, o2 = old[pat[0]], old[pat[1]]
                spec = VLin([(a, o1), (b, o2)]) if meth == '_lincomb' else (core.vmul(o1, o2) if meth == '_multiply' else core.vdiv(o1, o2))
                ctx.prove(st, 'post:tensor of out == entry-wise result of the tensors', lib.eq_goal(low, content(tens[pat[2]]), spec), info)
                for l in sorted(els):
                    ctx.prove(st, 'frame:%s keeps its tensor object' % l, els[l].fields['_DiscretizedSpaceElement__tensor'] is tens[l], info)
                    if l != pat[2]:
                        ctx.prove(st, 'frame:tensor of %s unchanged' % l, lib.eq_goal(low, content(tens[l]), old[l]), info)
    return Unit('discr/%s/%s' % (meth, field), run, funcs=[DSP + 'DiscretizedSpace.' + meth], config={'method': meth, 'field': field})


def unit_stale_nan_bounded():
    """BOUNDED (never counted as proved; the deductive units are over the reals, A1, where 0 * v == 0): with IEEE NaN in the previous contents of the output - an uninitialised
    element - set_zero(), lincomb / multiply into an output that is not an operand, assign and in-place operator calls give the same result in every size regime."""
    def run(ctx):
        from contracts import replay_c01
        for case, bad in replay_c01.stale_nan_cases():
            ctx.bounded('the previous contents of the output (NaN) do not influence the result', not bad, case, detail=bad)
    return Unit('nan-native/stale-out', run, funcs=[NPT + '_lincomb_impl', SPACE + 'LinearSpaceElement.set_zero'], kind='B', bounded_in='sizes 3, 50, 99, 100, 150 x 3 dtypes x 7 operations; 3 operators x 2 sizes')

# --------------------------------------------------------------------------

def units(tier, seed):
    us = []
    for dt in DTYPES:
        for pat in lib.ALIAS3:
            us.append(unit_lincomb_impl(dt, pat))
    us.append(unit_lincomb_impl('float64', ('x', 'y', 'o'), canary='sign'))
    for dt in ['float64', 'complex128', 'int64']:
        for pat in lib.ALIAS3:
            for meth in ('_multiply', '_divide', '_lincomb'):
                us.append(unit_tensor_binary(meth, dt, pat))
        for meth in ('zero', 'one', 'copy'):
            us.append(unit_tensor_nullary(meth, dt))
    for field in ('real', 'complex'):
        for meth in ('lincomb', 'multiply', 'divide'):
            us.append(unit_space_method(meth, field))
        us.append(unit_space_zero(field))
        for d in sorted(BIN_TABLE):
            us.append(unit_elem_binary(d, field))
        for m in ('assign', 'copy', 'set_zero', 'lincomb', '__neg__', '__pos__'):
            us.append(unit_elem_unary(m, field))
        for m in ('__ipow__', '__pow__'):
            us.append(unit_elem_pow(m, field))
    for field in ('real', 'complex'):
        for k, power in ((2, True), (2, False), (3, True)):
            if field == 'complex' and k == 3:
                continue
            for meth in ('_lincomb', '_multiply', '_divide'):
                us.append(unit_pspace_kernel(meth, k, power, field))
            for meth in ('zero', 'one'):
                us.append(unit_pspace_nullary(meth, k, power, field))
    for field in ('real', 'complex'):
        for meth in ('_lincomb', '_multiply', '_divide', 'zero', 'one'):
            us.append(unit_discr_kernel(meth, field))
    for d in sorted(BIN_TABLE):
        for k, power, field in ((2, True, 'real'), (2, False, 'real'), (2, True, 'complex')):
            us.append(unit_pspace_dunder(d, k, power, field))
    us.append(unit_stale_nan_bounded())
    return us


def replay(ob):
    from contracts import replay_c01
    return replay_c01.replay(ob)
