"""C11 - optimised solvers match their reference implementations and resume exactly.

Relational loop contracts on the *real* solver loops (contracts/looplib.py): the loop `for _ in range(niter)`
is never unrolled; niter is a symbolic integer.

equiv/<pair>/init    the pre-loop code of the optimised solver and of its `_simple` reference reach coupled
                     loop-head states (same exposed algorithm state; the private invariant of the optimised
                     version's reusable buffers holds)
equiv/<pair>/step    from ANY coupled loop-head pair (generic x_k, z_k, u_k ...; buffers without invariant
                     hold junk) one execution of each real loop body gives coupled states again, the
                     private invariant is re-established, and each version calls the callback exactly once
                     with the iterate object holding the new iterate
                     ==> by induction on the iteration number: identical iterate sequences for every niter
resume/<solver>/*    the pre-loop and post-loop code leave the exposed state alone, and one body execution maps
                     the exposed state to F(state) with F the textbook update - a function of the exposed state
                     only (not of k, niter or of any buffer content)   ==>   n then m iterations == n+m iterations
                     (iterate lemma  F^[n+m] = F^[m] o F^[n])
Operators, functionals and proximals are abstract (C03-C10 contracts): the statement holds for every problem
instance.  Exact arithmetic (A1): `up to rounding' in the property is the part not decided here."""
import itertools

import z3

from pyvc import core, interp as ip, odlmodel as om
from pyvc.core import S, C, V, VVar, VConst, VFresh, VLin, VPw, VApp, Unsupported
from pyvc.harness import Unit
from contracts import lib, oplib, tlib, makers, flib, looplib, utilcuts
from contracts.lib import content, set_content
from contracts.oplib import OP, AbsOp, FieldSpec, sem, value_of, v_add, v_mul, inner
from contracts.flib import FN, DF, AbsFunc
from contracts.looplib import Ghost, run_with_loop

META = {
    'level': 'proof',
    'trusted_base': [
        'pyvc symbolic interpreter (A7); contracts of element / space arithmetic (C01), Operator.__call__ (C03), operator arithmetic (C04), '
        'adjoint / derivative of abstract operands (C05, C06), Functional.proximal / gradient / convex_conj of abstract functionals (C07-C10)',
        'meta-lemma (induction over the iteration number): init + step ==> equal iterate sequences; iterate lemma F^[n+m] = F^[m] o F^[n] for resumption',
        'A1 exact real arithmetic',
    ],
    'assumptions': ['A1', 'A2', 'A5', 'A7', 'proximal / gradient / adjoint of the problem data are deterministic functions (abstract operator symbols)',
                    'random=True: both versions draw the same permutation per sweep (ghost permutation oracle indexed by the sweep number)',
                    'lists of operators / functionals: proved for every niter with m in {1, 2} operators (m is a configuration, not a quantified variable)'],
    'bounded_rule': 'monitor/* (thorough tier only): the real solvers run natively on 60 random small problems per configuration (matrix operators of size 2..4, '
                    '12 library functionals, 3 splittings / 3-4 iteration counts); compared with rtol 1e-9.  Bounded evidence, never counted as discharged.',
    'not_decided': ['rounding differences between the optimised and the reference arithmetic ("up to rounding")',
                    'pdhg with gamma_primal / gamma_dual acceleration (tau, sigma, theta are loop-carried and not exposed: resumption is not claimed by the API)',
                    'proximal_gradient with a callable, iteration-dependent relaxation lam(k)',
                    'landweber with omega=None (power-method estimate of the operator norm)',
                    'accelerated_proximal_gradient, adam, douglas_rachford_pd, forward_backward_pd: loop-carried private state, no resumption API',
                    'adupdates with list-valued inner step sizes (element-valued ones are under contract through the np.asarray view model tlib.NdVal)'],
}

ADMM = 'odl.solvers.nonsmooth.admm:'
ADUP = 'odl.solvers.nonsmooth.alternating_dual_updates:'
DC = 'odl.solvers.nonsmooth.difference_convex:'
PDHG = 'odl.solvers.nonsmooth.primal_dual_hybrid_gradient:'
PG = 'odl.solvers.nonsmooth.proximal_gradient_solvers:'
IT = 'odl.solvers.iterative.iterative:'
ST = 'odl.solvers.iterative.statistical:'
GR = 'odl.solvers.smooth.gradient:'


def niter_sym(st):
    n = S(z3.Int('niter'))
    st.assume(n >= 0)
    return n


def eqv(low, a, b):
    return lib.eq_goal(low, a, b)


def var(n):
    return VVar(n, 'real')


def apply_op(I, fr, op, v, space):
    """content of op(e) for a fresh element e of `space` holding v, through the real Operator.__call__"""
    e = space.element(cont=v)
    r = I.call(op, [e], {}, fr)
    return content(r)


class Proj(object):
    """ghost in-place projection callable: x <- P(x) for an abstract map P"""

    def __init__(self, I, X):
        self.P = AbsOp(I, 'P', X, X, False)
        self.I = I

    def pv_call(self, I, fr, args, kwargs):
        x = args[0]
        set_content(x, sem(I, fr, self.P.op, content(x)))
        return None

    def of(self, I, fr, v):
        return sem(I, fr, self.P.op, v)


def install(st):
    flib.install(st, 'gram')
    st.cuts.update(utilcuts.cuts())


def callback_obligations(ctx, st, tag, ghost, run, xobj, info, low, expect=1):
    n = run.calls_after - run.calls_before
    ctx.prove(st, '%s: callback called exactly %d time(s) per iteration' % (tag, expect), n == expect, info)
    for j in range(run.calls_before, run.calls_after):
        obj, cont, nargs, kw = ghost.calls[j]
        ctx.prove(st, '%s: callback receives the iterate object x itself' % tag, obj is xobj and nargs == 1 and not kw, info)
    if n >= 1:
        obj, cont, nargs, kw = ghost.calls[run.calls_after - 1]
        if looplib.is_elem(obj):
            ctx.prove(st, '%s: callback observes the new iterate (content at the last call == x after the body)' % tag,
                      eqv(low, cont, run.post_content[id(xobj)]), info)
    ctx.prove(st, '%s: no callback outside the loop body' % tag, len(ghost.calls) == run.calls_after and run.calls_before == 0, info)


# ---------------------------------------------------------------------------------------------------------
# generic relational unit

class Pair(object):
    """sidecar loop contract of an (optimised, reference) solver pair.
    world(I, st, fr) -> w;  objs(w) -> {label: element passed by the caller};
    call(w, o, ver, cb) -> (args, kwargs);  state(loc, o, ver) -> {label: element} exposed algorithm state;
    private: {local name: inv or None} for the optimised version, inv(gen, I, fr, w) -> content;
    keep: scalars assigned in the loop that the contract claims constant"""
    name = ''
    funcs = ()
    private = {}
    keep = ()
    cb_expect = 1

    def declared(self, loc, o, ver):
        d = list(self.state(loc, o, ver).values())
        if ver == 'opt':
            d += [loc[n] for n in self.private if n in loc]
        return d


def unit_pair(P, mode, with_cb, cfg=None):
    cfg = cfg or {}

    def run(ctx):
        I = ctx.I

        def path(st):
            install(st)
            fr = ip.Frame(st)
            w = P.world(I, st, fr, cfg)
            out = {'w': w, 'fr': fr}
            gen = {}
            for ver in ('opt', 'ref'):
                o = P.objs(w)
                init = {l: content(e) for l, e in o.items()}
                gh = Ghost()

                def havoc(loc, fr_, run, ver=ver, o=o):
                    stt = P.state(loc, o, ver)
                    for l, e in stt.items():
                        gen.setdefault(l, var(l + '_k'))
                        set_content(e, gen[l])
                    if ver == 'opt':
                        for n, inv in P.private.items():
                            tgt = looplib.reachable_elems([loc[n]])
                            for t_i, e in enumerate(tgt):
                                set_content(e, inv(gen, I, fr_, w) if inv is not None else VFresh('junk_%s%d' % (n, t_i), 'real'))
                havoc.keep_scalars = P.keep
                args, kw = P.call(w, o, ver, gh if with_cb else None)
                fn = I.get_func(P.funcs[0 if ver == 'opt' else 1])
                try:
                    r = run_with_loop(I, st, fr, fn, args, kw, mode, havoc=havoc, ghost=gh,
                                      declared=lambda loc, o=o, ver=ver: P.declared(loc, o, ver), extra_roots=list(o.values()),
                                      readonly=[e for _, e, _ in P.extra_frame(w)] if hasattr(P, 'extra_frame') else ())
                except ip.PyRaise as e:
                    return ('raise', (ver, e.exc))
                out[ver] = dict(run=r, o=o, init=init, ghost=gh, final={l: content(e) for l, e in o.items()})
            out['gen'] = gen
            return ('ok', out)
        info = dict(cfg, pair=P.name, mode=mode, callback=with_cb)
        for st, (status, r) in ctx.explore(path):
            if status == 'raise':
                ctx.fail(st, 'no_raise', '%s raises %s' % (r[0], lib.exc_desc(r[1])), info)
                continue
            low = st.lower
            fr, w = r['fr'], r['w']
            a, b = r['opt'], r['ref']
            ra, rb = a['run'], b['run']
            if hasattr(P, 'extra_frame'):
                for nm, e, orig in P.extra_frame(w):
                    ctx.prove(st, '%s: caller\'s %s is not written to' % (mode, nm), eqv(low, content(e), orig), info)
            if mode == 'init':
                sa, sb = P.state(ra.head, a['o'], 'opt'), P.state(rb.head, b['o'], 'ref')
                ctx.prove(st, 'init: same exposed state variables', list(sa) == list(sb), info)
                for l in sa:
                    ctx.prove(st, 'init: %s equal at the loop head' % l, eqv(low, ra.head_content[id(sa[l])], rb.head_content[id(sb[l])]), info)
                for l in a['o']:
                    for tag, d, rr in (('opt', a, ra), ('ref', b, rb)):
                        ctx.prove(st, 'init: caller\'s %s untouched by the pre-loop code (%s)' % (l, tag), eqv(low, rr.head_content[id(d['o'][l])], d['init'][l]), info)
                        ctx.prove(st, 'init: zero iterations leave %s alone (%s)' % (l, tag), eqv(low, d['final'][l], d['init'][l]), info)
                headstate = {l: ra.head_content[id(e)] for l, e in sa.items()}
                for n, inv in P.private.items():
                    if inv is not None:
                        for e in looplib.reachable_elems([ra.head[n]]):
                            ctx.prove(st, 'init: private invariant of %s' % n, eqv(low, ra.head_content[id(e)], inv(headstate, I, fr, w)), info)
                if with_cb:
                    ctx.prove(st, 'init: no callback before the first iteration', len(a['ghost'].calls) == 0 and len(b['ghost'].calls) == 0, info)
            else:
                sa, sb = P.state(ra.post, a['o'], 'opt'), P.state(rb.post, b['o'], 'ref')
                ctx.prove(st, 'step: same exposed state variables', list(sa) == list(sb), info)
                for l in sa:
                    ctx.prove(st, 'step: %s equal after one body execution of each version' % l,
                              eqv(low, ra.post_content[id(sa[l])], rb.post_content[id(sb[l])]), info)
                for l in a['o']:
                    for tag, d, rr, ss in (('opt', a, ra, sa), ('ref', b, rb, sb)):
                        if l in ss:
                            ctx.prove(st, 'step: %s is still the caller\'s object (%s)' % (l, tag), ss[l] is d['o'][l], info)
                        ctx.prove(st, 'step: post-loop code leaves %s alone (%s)' % (l, tag), eqv(low, d['final'][l], rr.post_content[id(d['o'][l])]), info)
                poststate = {l: ra.post_content[id(e)] for l, e in sa.items()}
                for n, inv in P.private.items():
                    if inv is not None:
                        for e in looplib.reachable_elems([ra.post[n]]):
                            ctx.prove(st, 'step: private invariant of %s re-established' % n, eqv(low, ra.post_content[id(e)], inv(poststate, I, fr, w)), info)
                for nm in P.keep:
                    for tag, rr in (('opt', ra), ('ref', rb)):
                        if nm in rr.head and nm in rr.post:
                            ctx.prove(st, 'step: %s constant over the iteration (%s)' % (nm, tag), core.sc_eq(rr.post[nm], rr.head[nm]), info)
                ctx.prove(st, 'step: body completes normally', ra.body_exit is None and rb.body_exit is None, info)
                if with_cb:
                    exp = P.cb_expect(cfg) if callable(P.cb_expect) else P.cb_expect
                    callback_obligations(ctx, st, 'opt', a['ghost'], ra, a['o']['x'], info, low, exp)
                    if P.ref_has_callback:
                        callback_obligations(ctx, st, 'ref', b['ghost'], rb, b['o']['x'], info, low, exp)
    tag = '/'.join('%s=%s' % kv for kv in sorted(cfg.items()))
    return Unit('equiv/%s/%s/%s%s' % (P.name, mode, 'cb' if with_cb else 'nocb', ('/' + tag) if tag else ''), run,
                funcs=list(P.funcs), config=dict(cfg, mode=mode, callback=with_cb), bounded_in=P.bounded_in)


# ---- linearized ADMM

class AdmmPair(Pair):
    name = 'admm_linearized'
    funcs = (ADMM + 'admm_linearized', ADMM + 'admm_linearized_simple')
    ref_has_callback = True
    bounded_in = None
    # private invariant of the optimised version: tmp_ran == L(x); tmp_dom is scratch
    private = {'tmp_ran': lambda gen, I, fr, w: sem(I, fr, w['L'].op, gen['x']), 'tmp_dom': None}

    def world(self, I, st, fr, cfg):
        X = makers.tspace(I, st, 'X', 'real')
        Y = makers.tspace(I, st, 'Y', 'real')
        return dict(X=X, Y=Y, L=AbsOp(I, 'L', X, Y, True), f=AbsFunc(I, st, 'f', X), g=AbsFunc(I, st, 'g', Y),
                    tau=makers.pos_scalar(st, 'tau'), sigma=makers.pos_scalar(st, 'sigma'), niter=niter_sym(st))

    def objs(self, w):
        return {'x': w['X'].element(cont=var('x0'))}

    def call(self, w, o, ver, cb):
        return [o['x'], w['f'].op, w['g'].op, w['L'].op, w['tau'], w['sigma'], w['niter']], ({'callback': cb} if cb is not None else {})

    def state(self, loc, o, ver):
        return {'x': loc['x'], 'z': loc['z'], 'u': loc['u']}


# ---- double-proximal DC

class DcPair(Pair):
    name = 'doubleprox_dc'
    funcs = (DC + 'doubleprox_dc', DC + 'doubleprox_dc_simple')
    ref_has_callback = False
    bounded_in = None

    def world(self, I, st, fr, cfg):
        X = makers.tspace(I, st, 'X', 'real')
        Y = makers.tspace(I, st, 'Y', 'real')
        return dict(X=X, Y=Y, K=AbsOp(I, 'K', X, Y, True), f=AbsFunc(I, st, 'f', X), phi=AbsFunc(I, st, 'phi', X), g=AbsFunc(I, st, 'g', Y),
                    gamma=makers.pos_scalar(st, 'gamma'), mu=makers.pos_scalar(st, 'mu'), niter=niter_sym(st))

    def objs(self, w):
        return {'x': w['X'].element(cont=var('x0')), 'y': w['Y'].element(cont=var('y0'))}

    def call(self, w, o, ver, cb):
        args = [o['x'], o['y'], w['f'].op, w['phi'].op, w['g'].op, w['K'].op, w['niter'], w['gamma'], w['mu']]
        return args, ({'callback': cb} if (cb is not None and ver == 'opt') else {})

    def state(self, loc, o, ver):
        return {'x': loc['x'], 'y': loc['y']}


# ---- alternating dual updates

class PermOracle(object):
    """ghost: the permutation drawn in sweep number t is a fixed (arbitrary) function of t; both versions
    consult it once per sweep"""

    def __init__(self, st, m):
        self.st, self.m = st, m
        self.calls = 0
        self.choice = None

    def __call__(self, I, fr, arg, *a, **k):
        items = list(I.iterate(arg, fr))
        self.calls += 1
        if len(items) != self.m:
            raise Unsupported('permutation of an unexpected length')
        if self.m == 1:
            return list(items)
        if self.m == 2:
            if self.choice is None:
                self.choice = bool(I.truth(S(z3.Bool('perm_swap')), fr))
            return [items[1], items[0]] if self.choice else list(items)
        raise Unsupported('permutation oracle for m > 2')


class AdupPair(Pair):
    name = 'adupdates'
    funcs = (ADUP + 'adupdates', ADUP + 'adupdates_simple')
    ref_has_callback = False
    bounded_in = 'number of operators m in {1, 2}; every niter'
    private = {'tmp_rans': None}

    def cb_expect(self, cfg):
        return cfg['m'] if cfg.get('callback_loop') == 'inner' else 1

    def world(self, I, st, fr, cfg):
        m = cfg['m']
        X = makers.tspace(I, st, 'X', 'real')
        if cfg.get('shared_range'):
            Y0 = makers.tspace(I, st, 'Y', 'real')
            Ys = [Y0] * m
        else:
            Ys = [makers.tspace(I, st, 'Y%d' % i, 'real') for i in range(m)]
        w = dict(X=X, Ys=Ys, L=[AbsOp(I, 'L%d' % i, X, Ys[i], True) for i in range(m)], g=[AbsFunc(I, st, 'g%d' % i, Ys[i]) for i in range(m)],
                 stepsize=makers.pos_scalar(st, 'stepsize'),
                 inner=[(makers.pos_elem(st, Ys[i], 'inner%d' % i) if cfg.get('inner') == 'elem' else makers.pos_scalar(st, 'inner%d' % i)) for i in range(m)], niter=niter_sym(st),
                 random=bool(cfg.get('random')), cfg=cfg)
        st.ext_cuts = {'numpy.random.permutation': PermOracle(st, m)}
        return w

    def objs(self, w):
        return {'x': w['X'].element(cont=var('x0'))}

    def extra_frame(self, w):
        """caller-owned data that no version may write to: element-valued inner step sizes"""
        return [(('inner_stepsizes[%d]' % i), e, var('inner%d' % i)) for i, e in enumerate(w['inner']) if isinstance(e, ip.Obj)]

    def call(self, w, o, ver, cb):
        st_oracle = None
        args = [o['x'], [g.op for g in w['g']], [L.op for L in w['L']], w['stepsize'], list(w['inner']), w['niter']]
        kw = {'random': w['random']}
        if ver == 'opt' and cb is not None:
            kw['callback'] = cb
            kw['callback_loop'] = w['cfg'].get('callback_loop', 'outer')
        return args, kw

    def state(self, loc, o, ver):
        d = {'x': loc['x']}
        for i, e in enumerate(loc['duals']):
            d['dual%d' % i] = e
        return d


# ---------------------------------------------------------------------------------------------------------
# resumption: the loop body is a function F of the exposed state only

class Resume(object):
    """sidecar loop contract of a resumable solver.
    exposed state = caller-owned elements `objs(w)`; update(gen, I, fr, w, cfg) -> {label: content} textbook F;
    temps: local names of the reusable buffers (junk at the loop head); keep: loop-assigned scalars claimed constant;
    stop(gen, ...) optional: condition under which the body returns early leaving the state alone"""
    name = ''
    func = ''
    temps = ()
    keep = ()
    bounded_in = None
    cb_expect = 1

    def func_for(self, cfg):
        return self.func

    def state(self, loc, o, cfg):
        """exposed algorithm state: caller-owned elements (default); a solver may add locals that the caller chose not to pass"""
        return dict(o)

    def defaults(self, w, o, cfg):
        """documented start values of the state variables the caller did not pass: {label: content}"""
        return {}

    def declared(self, loc, o, cfg=None):
        d = list(self.state(loc, o, cfg or {}).values())
        for n in self.temps:
            if n in loc:
                d.append(loc[n])
        return d


def unit_resume(R, mode, with_cb, cfg=None):
    cfg = cfg or {}

    def run(ctx):
        I = ctx.I

        def path(st):
            install(st)
            fr = ip.Frame(st)
            w = R.world(I, st, fr, cfg)
            o = R.objs(w)
            init = {l: content(e) for l, e in o.items()}
            gen = {}
            gh = Ghost()
            cur = {}

            def havoc(loc, fr_, run):
                cur['state'] = R.state(loc, o, cfg)
                for l, e in cur['state'].items():
                    gen[l] = var(l + '_k')
                    set_content(e, gen[l])
                for n in R.temps:
                    if n in loc:
                        for t_i, e in enumerate(looplib.reachable_elems([loc[n]])):
                            set_content(e, VFresh('junk_%s%d' % (n, t_i), 'real'))
            havoc.keep_scalars = R.keep
            args, kw = R.call(w, o, gh if with_cb else None, cfg)
            # caller-owned Python lists handed to the solver (operators, data, step sizes, sensitivities ...): the solver may read them, the caller reuses them for the resumed run
            owned = []
            for label, v in [('argument %d' % i, a) for i, a in enumerate(args)] + [('keyword %s' % k, a) for k, a in sorted(kw.items())]:
                if isinstance(v, list):
                    owned.append((label, v, list(v), [content(e) if isinstance(e, ip.Obj) and (hasattr(e, 'content') or hasattr(e, 'buf')) else None for e in v]))
            try:
                r = run_with_loop(I, st, fr, I.get_func(R.func_for(cfg)), args, kw, mode, havoc=havoc, ghost=gh,
                                  declared=lambda loc: R.declared(loc, o, cfg), extra_roots=list(o.values()))
            except ip.PyRaise as e:
                return ('raise', e.exc)
            return ('ok', dict(w=w, fr=fr, run=r, o=o, init=init, gen=gen, ghost=gh, final={l: content(e) for l, e in o.items()}, state=cur.get('state'), owned=owned))
        info = dict(cfg, solver=R.name, mode=mode, callback=with_cb)
        for st, (status, r) in ctx.explore(path):
            if status == 'raise':
                ctx.fail(st, 'no_raise', 'raises %s' % lib.exc_desc(r), info)
                continue
            low = st.lower
            fr, w, rr, o, gen = r['fr'], r['w'], r['run'], r['o'], r['gen']
            for label, lst, items0, conts0 in r.get('owned', []):
                same = len(lst) == len(items0) and all(a is b for a, b in zip(lst, items0))
                ctx.prove(st, '%s: the caller\'s list (%s) still holds the very objects it was given' % (mode, label), same, dict(info, got=repr(lst)[:200]))
                if mode == 'init':
                    for j, (e, c0) in enumerate(zip(items0, conts0)):
                        if c0 is not None and not any(e is oe for oe in o.values()):
                            ctx.prove(st, 'init: entry %d of the caller\'s list (%s) is not modified by the pre-loop code' % (j, label), eqv(low, rr.head_content.get(id(e), content(e)), c0), info)
            if mode == 'init':
                for l in o:
                    ctx.prove(st, 'init: caller\'s %s untouched by the pre-loop code' % l, eqv(low, rr.head_content[id(o[l])], r['init'][l]), info)
                    ctx.prove(st, 'init: zero iterations leave %s alone' % l, eqv(low, r['final'][l], r['init'][l]), info)
                hs = R.state(rr.head, o, cfg)
                for l, dflt in R.defaults(w, o, cfg).items():
                    ctx.prove(st, 'init: %s not passed: starts at its documented default' % l, eqv(low, rr.head_content[id(hs[l])], dflt), info)
                    ctx.prove(st, 'init: %s not passed: a buffer of its own (no alias of a caller object)' % l, all(hs[l] is not e for e in o.values()), info)
                if with_cb:
                    ctx.prove(st, 'init: no callback before the first iteration', len(r['ghost'].calls) == 0, info)
                continue
            ps = R.state(rr.post, o, cfg)
            post = {l: content_at(rr, o[l] if l in o else ps[l]) for l in ps}
            ctx.prove(st, 'step: same state variables before and after', sorted(ps) == sorted(gen), info)
            if rr.body_exit == 'return':
                # early termination: must leave the exposed state alone (so that the resumed run stops at once too)
                for l in o:
                    ctx.prove(st, 'step: early return leaves %s alone' % l, eqv(low, post[l], gen[l]), info)
                ctx.prove(st, 'step: early return happens exactly under the documented stopping rule', R.stop(gen, I, fr, w, cfg, st) if hasattr(R, 'stop') else False, info)
                continue
            F = R.update(gen, I, fr, w, cfg)
            for l in ps:
                ctx.prove(st, 'step: %s after the body == textbook update F(exposed state)  [independent of k, niter, buffers]' % l, eqv(low, post[l], F[l]), info)
                if l in o:
                    ctx.prove(st, 'step: post-loop code leaves %s alone' % l, eqv(low, r['final'][l], post[l]), info)
            for nm in R.keep:
                if nm in rr.head and nm in rr.post:
                    ctx.prove(st, 'step: %s constant over the iteration' % nm, core.sc_eq(rr.post[nm], rr.head[nm]), info)
            ctx.prove(st, 'step: body completes normally', rr.body_exit is None, info)
            if with_cb:
                exp = R.cb_expect(cfg) if callable(R.cb_expect) else R.cb_expect
                callback_obligations(ctx, st, R.name, r['ghost'], rr, o['x'], info, low, exp)
    tag = '/'.join('%s=%s' % kv for kv in sorted(cfg.items()))
    return Unit('resume/%s/%s/%s%s' % (R.name, mode, 'cb' if with_cb else 'nocb', ('/' + tag) if tag else ''), run,
                funcs=[R.func_for(cfg)], config=dict(cfg, mode=mode, callback=with_cb), bounded_in=R.bounded_in)


def content_at(rr, e):
    return rr.post_content[id(e)]


def deriv_adj(I, fr, A, X, at, v, Y):
    """A'(at)^*(v) through the real derivative / adjoint / call of the abstract operator A"""
    holder = X.element(cont=at)
    D = I.call(I._getattr(A.op, 'derivative', fr), [holder], {}, fr)
    adj = I._getattr(D, 'adjoint', fr)
    return apply_op(I, fr, adj, v, Y)


class Landweber(Resume):
    name = 'landweber'
    func = IT + 'landweber'
    temps = ('tmp_ran', 'tmp_dom')

    def world(self, I, st, fr, cfg):
        X = makers.tspace(I, st, 'X', 'real')
        Y = makers.tspace(I, st, 'Y', 'real')
        return dict(X=X, Y=Y, A=AbsOp(I, 'A', X, Y, bool(cfg.get('linear', True))), rhs=Y.element('rhs'), omega=makers.pos_scalar(st, 'omega'),
                    niter=niter_sym(st), proj=Proj(I, X) if cfg.get('projection') else None)

    def objs(self, w):
        return {'x': w['X'].element(cont=var('x0'))}

    def call(self, w, o, cb, cfg):
        return [w['A'].op, o['x'], w['rhs'], w['niter']], {'omega': w['omega'], 'projection': w['proj'], 'callback': cb}

    def update(self, gen, I, fr, w, cfg):
        x = gen['x']
        res = VLin([(1, sem(I, fr, w['A'].op, x)), (-1, content(w['rhs']))])
        new = VLin([(1, x), (-w['omega'], deriv_adj(I, fr, w['A'], w['X'], x, res, w['Y']))])
        if w['proj'] is not None:
            new = w['proj'].of(I, fr, new)
        return {'x': new}


class Kaczmarz(Resume):
    name = 'kaczmarz'
    func = IT + 'kaczmarz'
    temps = ('tmp_rans', 'tmp_dom')
    bounded_in = 'number of operators m in {1, 2}; every niter'

    def cb_expect(self, cfg):
        return cfg['m'] if cfg.get('callback_loop') == 'inner' else 1

    def world(self, I, st, fr, cfg):
        m = cfg['m']
        X = makers.tspace(I, st, 'X', 'real')
        if cfg.get('shared_range'):
            Y0 = makers.tspace(I, st, 'Y', 'real')
            Ys = [Y0] * m
        else:
            Ys = [makers.tspace(I, st, 'Y%d' % i, 'real') for i in range(m)]
        om_ = [makers.pos_scalar(st, 'omega%d' % i) for i in range(m)] if cfg.get('omega') == 'list' else makers.pos_scalar(st, 'omega')
        return dict(X=X, Ys=Ys, A=[AbsOp(I, 'A%d' % i, X, Ys[i], bool(cfg.get('linear', True))) for i in range(m)],
                    rhs=[Ys[i].element('rhs%d' % i) for i in range(m)], omega=om_, niter=niter_sym(st),
                    proj=Proj(I, X) if cfg.get('projection') else None)

    def objs(self, w):
        return {'x': w['X'].element(cont=var('x0'))}

    def call(self, w, o, cb, cfg):
        return [[a.op for a in w['A']], o['x'], list(w['rhs']), w['niter']], {'omega': w['omega'], 'projection': w['proj'], 'random': False,
                                                                             'callback': cb, 'callback_loop': cfg.get('callback_loop', 'outer')}

    def update(self, gen, I, fr, w, cfg):
        x = gen['x']
        for i, A in enumerate(w['A']):
            om_i = w['omega'][i] if isinstance(w['omega'], list) else w['omega']
            res = VLin([(1, sem(I, fr, A.op, x)), (-1, content(w['rhs'][i]))])
            x = VLin([(1, x), (-om_i, deriv_adj(I, fr, A, w['X'], x, res, w['Ys'][i]))])
            if w['proj'] is not None:
                x = w['proj'].of(I, fr, x)
        return {'x': x}


class ProxGrad(Resume):
    name = 'proximal_gradient'
    func = PG + 'proximal_gradient'
    temps = ('tmp',)

    def world(self, I, st, fr, cfg):
        X = makers.tspace(I, st, 'X', 'real')
        w = dict(X=X, f=AbsFunc(I, st, 'f', X), g=AbsFunc(I, st, 'g', X), gamma=makers.pos_scalar(st, 'gamma'), niter=niter_sym(st))
        if cfg.get('lam') == 'scalar':
            w['lam'] = makers.pos_scalar(st, 'lam')
        return w

    def objs(self, w):
        return {'x': w['X'].element(cont=var('x0'))}

    def call(self, w, o, cb, cfg):
        kw = {'gamma': w['gamma'], 'niter': w['niter'], 'callback': cb}
        if 'lam' in w:
            kw['lam'] = w['lam']
        return [o['x'], w['f'].op, w['g'].op], kw

    def update(self, gen, I, fr, w, cfg):
        x = gen['x']
        lam = w.get('lam', 1.0)
        fwd = VLin([(1, x), (-w['gamma'], sem(I, fr, w['g'].gradient_op().op, x))])
        P = flib.ProxFactory(w['f']).pv_call(I, fr, [w['gamma']], {})
        return {'x': VLin([(1 - lam, x), (lam, sem(I, fr, P, fwd))])}


class SteepestDescent(Resume):
    name = 'steepest_descent'
    func = GR + 'steepest_descent'
    temps = ('grad_x',)

    def world(self, I, st, fr, cfg):
        X = makers.tspace(I, st, 'X', 'real')
        tol = S(z3.Real('tol'))
        st.assume(tol >= 0)
        return dict(X=X, f=AbsFunc(I, st, 'f', X), step=makers.pos_scalar(st, 'step'), maxiter=niter_sym(st), tol=tol,
                    proj=Proj(I, X) if cfg.get('projection') else None)

    def objs(self, w):
        return {'x': w['X'].element(cont=var('x0'))}

    def call(self, w, o, cb, cfg):
        return [w['f'].op, o['x']], {'line_search': w['step'], 'maxiter': w['maxiter'], 'tol': w['tol'], 'projection': w['proj'], 'callback': cb}

    def grad(self, gen, I, fr, w):
        return sem(I, fr, w['f'].gradient_op().op, gen['x'])

    def update(self, gen, I, fr, w, cfg):
        new = VLin([(1, gen['x']), (-w['step'], self.grad(gen, I, fr, w))])
        if w['proj'] is not None:
            new = w['proj'].of(I, fr, new)
        return {'x': new}

    def stop(self, gen, I, fr, w, cfg, st):
        g = self.grad(gen, I, fr, w)
        n2 = inner(I, fr, w['X'].space, g, g)
        return n2 < w['tol']


class Pdhg(Resume):
    name = 'pdhg'
    func = PDHG + 'pdhg'
    temps = ('x_old', 'dual_tmp', 'primal_tmp')
    keep = ('tau', 'sigma', 'theta')

    def world(self, I, st, fr, cfg):
        X = makers.tspace(I, st, 'X', 'real')
        Y = makers.tspace(I, st, 'Y', 'real')
        theta = S(z3.Real('theta'))
        st.assume(theta >= 0)
        st.assume(theta <= 1)
        return dict(X=X, Y=Y, L=AbsOp(I, 'L', X, Y, bool(cfg.get('linear', True))), f=AbsFunc(I, st, 'f', X), g=AbsFunc(I, st, 'g', Y),
                    tau=makers.pos_scalar(st, 'tau'), sigma=makers.pos_scalar(st, 'sigma'), theta=theta, niter=niter_sym(st), cfg=cfg)

    def objs(self, w):
        o = {'x': w['X'].element(cont=var('x0'))}
        if w['cfg'].get('passed', 'both') in ('both', 'x_relax'):
            o['x_relax'] = w['X'].element(cont=var('xr0'))
        if w['cfg'].get('passed', 'both') in ('both', 'y'):
            o['y'] = w['Y'].element(cont=var('y0'))
        return o

    def state(self, loc, o, cfg):
        d = dict(o)
        for l in ('x_relax', 'y'):
            d.setdefault(l, loc[l])
        return d

    def defaults(self, w, o, cfg):
        d = {}
        if 'x_relax' not in o:
            d['x_relax'] = var('x0')
        if 'y' not in o:
            d['y'] = VConst(0.0)
        return d

    def call(self, w, o, cb, cfg):
        kw = {'tau': w['tau'], 'sigma': w['sigma'], 'callback': cb}
        for l in ('x_relax', 'y'):
            if l in o:
                kw[l] = o[l]
        if cfg.get('theta') == 'sym':
            kw['theta'] = w['theta']
        return [o['x'], w['f'].op, w['g'].op, w['L'].op, w['niter']], kw

    def update(self, gen, I, fr, w, cfg):
        x, xr, y = gen['x'], gen['x_relax'], gen['y']
        theta = w['theta'] if cfg.get('theta') == 'sym' else 1.0
        gconj = I._getattr(w['g'].op, 'convex_conj', fr)
        pd = I.call(I._getattr(gconj, 'proximal', fr), [w['sigma']], {}, fr)
        y1 = apply_op(I, fr, pd, VLin([(1, y), (w['sigma'], sem(I, fr, w['L'].op, xr))]), w['Y'])
        pp = flib.ProxFactory(w['f']).pv_call(I, fr, [w['tau']], {})
        x1 = sem(I, fr, pp, VLin([(1, x), (-w['tau'], deriv_adj(I, fr, w['L'], w['X'], x, y1, w['Y']))]))
        return {'x': x1, 'y': y1, 'x_relax': VLin([(1 + theta, x1), (-theta, x)])}


class Mlem(Resume):
    name = 'mlem'
    bounded_in = 'osmlem: number of subsets m in {1, 2}; every niter'
    func = ST + 'mlem'
    temps = ('tmp_dom', 'tmp_ran')
    EPS = 1e-08

    def cb_expect(self, cfg):
        return cfg.get('m', 1)

    def func_for(self, cfg):
        return ST + cfg.get('entry', 'mlem')

    def world(self, I, st, fr, cfg):
        X = makers.tspace(I, st, 'X', 'real')
        m = cfg.get('m', 1)
        Ys = [makers.tspace(I, st, 'Y%d' % i, 'real') for i in range(m)]
        w = dict(X=X, Ys=Ys, A=[AbsOp(I, 'A%d' % i, X, Ys[i], True) for i in range(m)], data=[Ys[i].element('data%d' % i) for i in range(m)],
                 niter=niter_sym(st), m=m)
        st.assume(st.lower(var('x0')) >= 0)        # precondition of (os)mlem: non-negative start value
        if cfg.get('sens') == 'given':
            w['sens'] = [makers.pos_elem(st, X, 'sens%d' % i) for i in range(m)]
        return w

    def objs(self, w):
        return {'x': w['X'].element(cont=var('x0'))}

    def call(self, w, o, cb, cfg):
        kw = {'niter': w['niter'], 'callback': cb}
        if 'sens' in w:
            kw['sensitivities'] = list(w['sens'])
        if cfg.get('entry') == 'osmlem':
            return [[a.op for a in w['A']], o['x'], list(w['data'])], kw
        return [w['A'][0].op, o['x'], w['data'][0]], kw

    def update(self, gen, I, fr, w, cfg):
        x = gen['x']
        for i, A in enumerate(w['A']):
            t = tlib._pw('maximum', [sem(I, fr, A.op, x), VConst(self.EPS)])
            q = core.vdiv(content(w['data'][i]), t)
            adj = oplib.adjoint_contract(I, fr, A.op)
            d = sem(I, fr, adj, q)
            if 'sens' in w:
                sens = content(w['sens'][i])
            else:
                sens = tlib._pw('maximum', [sem(I, fr, adj, VConst(1.0)), VConst(self.EPS)])
            x = core.vmul(x, core.vdiv(d, sens))
        return {'x': x}


RESUMES = [(Landweber(), [dict(linear=l, projection=p) for l in (True, False) for p in (False, True)]),
           (Kaczmarz(), [dict(m=m, shared_range=sh, omega=om_, projection=p, callback_loop=cl, linear=l)
                         for m in (1, 2) for sh in ((False, True) if m == 2 else (False,)) for om_ in ('scalar', 'list')
                         for p in (False, True) for cl in ('outer', 'inner') for l in (True, False)]),
           (ProxGrad(), [dict(lam=l) for l in ('default', 'scalar')]),
           (SteepestDescent(), [dict(projection=p) for p in (False, True)]),
           (Pdhg(), [dict(linear=l, theta=t, passed=pa) for l in (True, False) for t in ('default', 'sym') for pa in ('both', 'none', 'x_relax', 'y')]),
           (Mlem(), [dict(sens=s_, entry='mlem') for s_ in ('given', 'default')]
            + [dict(sens=s_, entry='osmlem', m=m) for s_ in ('given', 'default') for m in (1, 2)])]

PAIRS = [AdmmPair(), DcPair(), AdupPair()]


# ---------------------------------------------------------------------------------------------------------
# must-fail canaries and the bounded native monitor

class _WrongAdmm(AdmmPair):
    """must fail: claims the private invariant tmp_ran == L(x) + u"""
    name = 'admm_linearized'
    private = {'tmp_ran': lambda gen, I, fr, w: VLin([(1, sem(I, fr, w['L'].op, gen['x'])), (1, gen['u'])]), 'tmp_dom': None}


class _WrongLandweber(Landweber):
    """must fail: textbook update with the wrong sign of the step"""

    def update(self, gen, I, fr, w, cfg):
        x = gen['x']
        res = VLin([(1, sem(I, fr, w['A'].op, x)), (-1, content(w['rhs']))])
        return {'x': VLin([(1, x), (w['omega'], deriv_adj(I, fr, w['A'], w['X'], x, res, w['Y']))])}


def canaries():
    a = unit_pair(_WrongAdmm(), 'step', False)
    a.name, a.kind, a.expect = 'canary/admm-wrong-private-invariant', 'canary', 'refuted'
    b = unit_resume(_WrongLandweber(), 'step', False, dict(linear=True, projection=False))
    b.name, b.kind, b.expect = 'canary/landweber-wrong-step-sign', 'canary', 'refuted'
    return [a, b]


def unit_monitor(kind, cfg, n_inst, seed):
    from contracts import replay_c11

    def run(ctx):
        for desc, check in replay_c11.instances(kind, cfg, n_inst, seed):
            try:
                bad = check()
            except Exception as e:
                ctx.notes.append('instance skipped (%s: %s)' % (type(e).__name__, e))
                continue
            ctx.bounded('native: %s' % ('optimised == reference, iterate by iterate' if kind in ('admm_linearized', 'doubleprox_dc', 'adupdates') else 'n then m == n+m iterations'),
                        not bad, {'kind': kind, 'cfg': cfg, 'seed': seed, 'input': desc}, bad)
    tag = '/'.join('%s=%s' % kv for kv in sorted(cfg.items()))
    return Unit('monitor/%s%s' % (kind, ('/' + tag) if tag else ''), run, funcs=[], kind='B', config=dict(cfg, kind=kind, seed=seed))


MONITORS = [('admm_linearized', {}), ('doubleprox_dc', {}),
            ('adupdates', dict(m=2, shared_range=False, random=False)), ('adupdates', dict(m=2, shared_range=True, random=True)),
            ('adupdates', dict(m=3, shared_range=False, random=True, callback_loop='inner')), ('adupdates', dict(m=2, shared_range=False, random=False, inner='elem')),
            ('landweber', dict(projection=False)), ('landweber', dict(projection=True)),
            ('kaczmarz', dict(m=3, omega='list', shared_range=False, projection=False)), ('kaczmarz', dict(m=2, omega='scalar', shared_range=True, projection=True, callback_loop='inner')),
            ('proximal_gradient', dict(lam='default')), ('proximal_gradient', dict(lam='scalar')),
            ('steepest_descent', dict(projection=False)), ('mlem', dict(entry='mlem', sens='default')), ('mlem', dict(entry='osmlem', m=3, sens='given')),
            ('pdhg', dict(theta='default')), ('pdhg', dict(theta='sym'))]


def units(tier, seed):
    us = []
    for mode in ('init', 'step'):
        for cb in (False, True):
            us.append(unit_pair(PAIRS[0], mode, cb))
            us.append(unit_pair(PAIRS[1], mode, cb))
            for m in (1, 2):
                for shared in ((False, True) if m == 2 else (False,)):
                    for rnd in (False, True):
                        loops = ('outer', 'inner') if cb else ('outer',)
                        for cl in loops:
                            us.append(unit_pair(PAIRS[2], mode, cb, dict(m=m, shared_range=shared, random=rnd, callback_loop=cl)))
                            if not cb and not rnd:
                                us.append(unit_pair(PAIRS[2], mode, cb, dict(m=m, shared_range=shared, random=rnd, callback_loop=cl, inner='elem')))
            for R, cfgs in RESUMES:
                for cfg in cfgs:
                    if not cb and cfg.get('callback_loop') == 'inner':
                        continue
                    us.append(unit_resume(R, mode, cb, cfg))
    us += canaries()
    if tier == 'thorough':
        for kind, cfg in MONITORS:
            us.append(unit_monitor(kind, cfg, 60, 100 + seed))
    return us


def replay(ob):
    from contracts import replay_c11
    return replay_c11.replay(ob)
