"""C18 - Fourier transforms: grid algebra and back-end dispatch (the part of the property a contract can reach).

The FFT kernels themselves (numpy.fft, pyfftw) and PyWavelets are external; under contract is ODL's code around them:

grid/*      reciprocal_grid / realspace_grid (object-array mode: grids of 1 and 2 axes with SYMBOLIC shape n, stride s > 0, minimum x0,
            for every shift / halfcomplex / axes-subset / parity configuration): reciprocal stride 2 pi / (n s) on transformed axes,
            untouched on the others; shifted axes start at -pi/s, unshifted ones are symmetric; half-complex last axis has n//2 + 1 points
            with the same stride; realspace_grid(reciprocal_grid(g), x0 = g.min_pt, parity of n) has the shape, stride and minimum of g;
            the normalised frequency range used by dft_postprocess_data (fmin, fmax) is the reciprocal grid range times s / (2 pi)
dft/*       DiscreteFourierTransform / ...Inverse._call_numpy and _call_pyfftw over an abstract DFT algebra (F = unnormalised forward DFT over
            the axes, ifftn(v) = conj(F(conj v)) / N, DFT inversion F(conj(F v)) = N conj v, rfftn / irfftn an inverse pair on real input,
            pyfftw_call by its documented contract): inverse(forward(x)) == x for both signs and half-complex; NumPy and FFTW back-ends
            return the same term; sign '+' forward == N * ifftn (conjugate-linear identity, not only for real data)
ft-definition/*  BOUNDED (labelled so, never counted as proved): FourierTransform / FourierTransformInverse of both back-ends against the defining quadrature
            sum on every basis vector of small grids (all axes subsets x per-axis shifts x sign x real / complex / half-complex): decides the pre- /
            post-processing phase factors, inverse(forward(x)) == x, in-place == out-of-place, numpy == pyfftw on those shapes
wavelet-roundtrip/*  BOUNDED: W.inverse(W(e)) == e on every basis vector of small grids for wavelet families x levels x all padding modes x axes subsets,
            adjoint identity on white noise for orthogonal wavelets with periodic extension
wavelet-adjoint/*  WaveletTransform.adjoint / WaveletTransformInverse.adjoint for an orthogonal wavelet: scale * partner with scale = 1 / w resp. w,
            w = cell volume over ALL axes (also for axes subsets), partner built on the very space with the same wavelet / levels / padding / axes
"""
import itertools

import numpy as np
import z3

from pyvc import core, interp as ip, odlmodel as om, npmodel as npm, objnp
from pyvc.core import S, Unsupported
from pyvc.harness import Unit
from pyvc.objnp import ONd
from contracts import lib, utilcuts

META = {
    'level': 'proof',
    'trusted_base': [
        'pyvc symbolic interpreter (A7) in object-array mode for the grid algebra (NumPy shape semantics reused), exact reals',
        'abstract DFT algebra: fftn = F (linear), ifftn(v) = conj(F(conj v)) / N, inversion theorem F(conj(F v)) = N conj v, irfftn(rfftn(v)) = v for real v of the stated parity, '
        'documented contract of pyfftw_call (forward = F, backward = N * ifftn unless normalise_idft)',
        'uniform_grid(min, max, shape) taken by its arguments (cut)',
        'wavelet adjoint: PyWavelets with periodic extension is an orthogonal matrix for an orthogonal wavelet (external), the coefficient space is unweighted and the L2 space '
        'carries its default weighting (constant = cell volume); Operator.__rmul__ by its C05 contract (scalar * operator)',
    ],
    'assumptions': ['A1', 'A7'],
    'not_decided': ['the FFT kernels (numpy.fft / pyfftw) and PyWavelets themselves; wavelet coefficient flattening / cropping for ARBITRARY shapes (bounded wavelet-roundtrip units only)', 'continuous FourierTransform: convergence to the analytic transform of a Gaussian',
                    'pre- / post-processing phase factors (complex exponentials) for ARBITRARY shapes: decided only by the bounded ft-definition units on the listed small shapes',
                    'plan / temporary reuse in pyfftw_bindings beyond one call', 'rounding'],
}

FT = 'odl.trafos.util.ft_utils:'
FO = 'odl.trafos.fourier:'
GRID = 'odl.discr.grid:'


def sym(n):
    return S(z3.Real(n))


def symi(st, n, lo=1):
    v = S(z3.Int(n))
    st.assume(v >= lo)
    return v


def arr(x):
    return x.a if isinstance(x, ONd) else np.asarray(x, dtype=object)


class GridStub(object):
    """a uniform RectGrid known by (min_pt, stride, shape) per axis"""

    def __init__(self, mins, strides, shape):
        self.mins, self.strides, self.shp = list(mins), list(strides), list(shape)
        self.ndim = len(self.shp)

    def pv_getattr(self, I, fr, name):
        if name == 'ndim':
            return self.ndim
        if name == 'shape':
            return tuple(self.shp)
        if name == 'stride':
            return ONd(np.array(self.strides, dtype=object))
        if name == 'min_pt':
            return ONd(np.array(self.mins, dtype=object))
        if name == 'max_pt':
            return ONd(np.array([m + (n - 1) * s for m, s, n in zip(self.mins, self.strides, self.shp)], dtype=object))
        raise Unsupported('grid.%s' % name)


def install(st, made):
    st.object_arrays = True
    st.cuts.update(utilcuts.cuts())

    def ugrid(I, fr, min_pt, max_pt, shape, nodes_on_bdry=True):
        mn, mx, sh = arr(min_pt).reshape(-1), arr(max_pt).reshape(-1), [x for x in (arr(shape).reshape(-1) if not isinstance(shape, (list, tuple)) else shape)]
        strides = []
        for a, b, n in zip(mn, mx, sh):
            strides.append((core.S.lift(b) - core.S.lift(a)) / (core.S.lift(n) - 1))
        g = GridStub(list(mn), strides, sh)
        g.max_given = list(mx)
        made.append(g)
        return g
    st.cuts[GRID + 'uniform_grid'] = ugrid


TWO_PI = 2 * np.pi


def unit_recip(ndim, axes, shifts, halfcomplex, parity):
    """parity: parity of the length of the last transformed axis ('even' / 'odd')"""
    def run(ctx):
        I = ctx.I

        def path(st):
            made = []
            install(st, made)
            fr = ip.Frame(st)
            ns, ss, xs = [], [], []
            for k in range(ndim):
                n = symi(st, 'n%d' % k, 2)
                ns.append(n)
                s_ = sym('s%d' % k)
                st.assume(s_ > 0)
                ss.append(s_)
                xs.append(sym('x%d' % k))
            last = axes[-1]
            h = symi(st, 'half', 1)
            st.assume(core.sc_eq(ns[last], 2 * h if parity == 'even' else 2 * h + 1))
            g = GridStub(xs, ss, ns)
            try:
                rg = I.call(I.get_func(FT + 'reciprocal_grid'), [g], {'shift': list(shifts), 'axes': list(axes), 'halfcomplex': halfcomplex}, fr)
                back = I.call(I.get_func(FT + 'realspace_grid'), [rg, ONd(np.array(xs, dtype=object))], {'axes': list(axes), 'halfcomplex': halfcomplex, 'halfcx_parity': parity}, fr)
            except ip.PyRaise as e:
                return ('raise', e.exc)
            return ('ok', dict(g=g, rg=rg, back=back, ns=ns, ss=ss, xs=xs, h=h))
        info = {'ndim': ndim, 'axes': list(axes), 'shift': list(shifts), 'halfcomplex': halfcomplex, 'parity': parity}
        for st, (status, r) in ctx.explore(path):
            if status == 'raise':
                ctx.fail(st, 'evaluates without raising', 'raises %s' % lib.exc_desc(r), info)
                continue
            g, rg, back, ns, ss, xs = r['g'], r['rg'], r['back'], r['ns'], r['ss'], r['xs']
            last = axes[-1]
            for k in range(ndim):
                rn, rmin, rmax = core.S.lift(rg.shp[k]), core.S.lift(rg.mins[k]), core.S.lift(rg.max_given[k])
                if k not in axes:
                    ctx.prove(st, 'axis %d (not transformed): grid unchanged' % k, core.s_and(core.sbool(core.sc_eq(rn, ns[k])), core.sbool(core.sc_eq(rmin, xs[k])),
                                                                                                  core.sbool(core.sc_eq(rmax, xs[k] + (ns[k] - 1) * ss[k]))), info)
                    continue
                sh = shifts[axes.index(k)]
                rstride = TWO_PI / (ns[k] * ss[k])
                exp_n = (r['h'] + 1) if (halfcomplex and k == last) else ns[k]          # n // 2 + 1 with n = 2 h (+ 1)
                ctx.prove(st, 'axis %d: number of reciprocal points' % k, core.sc_eq(rn, exp_n), info)
                ctx.prove(st, 'axis %d: reciprocal stride == 2 pi / (n s)   ((rmax - rmin) == (points - 1) * 2 pi / (n s))' % k, core.sc_eq(rmax - rmin, (core.S.lift(exp_n) - 1) * rstride), info)
                if sh:
                    ctx.prove(st, 'axis %d (shifted): starts at -pi / s' % k, core.sc_eq(rmin, -np.pi / ss[k]), info)
                else:
                    ctx.prove(st, 'axis %d (not shifted): starts at -(1 - 1/n) pi / s  (symmetric around 0 for a full axis)' % k, core.sc_eq(rmin, -(1 - 1 / core.S.lift(ns[k])) * np.pi / ss[k]), info)
                    if not (halfcomplex and k == last):
                        ctx.prove(st, 'axis %d (not shifted, full): symmetric  rmax == -rmin' % k, core.sc_eq(rmax, -rmin), info)
                # normalised frequencies of dft_postprocess_data: fmin / fmax == rmin / rmax * s / (2 pi)
                n_ = core.S.lift(ns[k])
                odd = parity == 'odd' if k == last else None
                fmin = -0.5 if sh else -0.5 + 1.0 / (2 * n_)
                if halfcomplex and k == last:
                    fmax = (-1.0 / (2 * n_)) if (sh and odd) else ((1.0 / (2 * n_)) if (not sh and not odd) else 0.0)
                elif sh:
                    fmax = 0.5 - 1.0 / n_
                else:
                    fmax = 0.5 - 1.0 / (2 * n_)
                ctx.prove(st, 'axis %d: frequency range of dft_postprocess_data == reciprocal grid range * s / (2 pi)' % k,
                          core.s_and(core.sbool(core.sc_eq(rmin * ss[k] / TWO_PI, fmin)), core.sbool(core.sc_eq(rmax * ss[k] / TWO_PI, fmax))), info)
                # round trip
                ctx.prove(st, 'axis %d: realspace_grid(reciprocal_grid(g)) has the shape, stride and minimum of g' % k,
                          core.s_and(core.sbool(core.sc_eq(core.S.lift(back.shp[k]), ns[k])), core.sbool(core.sc_eq(core.S.lift(back.mins[k]), xs[k])),
                                     core.sbool(core.sc_eq(core.S.lift(back.max_given[k]) - core.S.lift(back.mins[k]), (ns[k] - 1) * ss[k]))), info)
    return Unit('grid/recip/ndim=%d/axes=%s/shift=%s/halfcomplex=%s/%s' % (ndim, ''.join(map(str, axes)), ''.join('1' if x else '0' for x in shifts), halfcomplex, parity), run,
                funcs=[FT + 'reciprocal_grid', FT + 'realspace_grid'], config={'ndim': ndim, 'axes': list(axes), 'shift': list(shifts), 'halfcomplex': halfcomplex, 'parity': parity})


# ---------------------------------------------------------------------------------------------------------
# abstract DFT algebra

class T(object):
    """term of the DFT algebra in normal form: scale * op(...)"""

    def __init__(self, kind, arg=None, scale=1.0):
        self.kind, self.arg, self.scale = kind, arg, core.S.lift(scale)

    def scaled(self, c):
        return T(self.kind, self.arg, self.scale * core.S.lift(c))

    def key(self):
        return (self.kind, self.arg.key() if isinstance(self.arg, T) else self.arg)

    def __repr__(self):
        return '%s*%s(%r)' % (self.scale, self.kind, self.arg)

    # interpreter protocol
    def pv_isinstance(self, I, cls):
        return getattr(cls, 'name', None) == 'ndarray' or getattr(cls, 'attr', None) == 'ndarray'

    def pv_binop(self, I, fr, name, other):
        n = name.strip('_')
        if isinstance(other, (int, float, S)):
            if n in ('mul', 'rmul'):
                return self.scaled(other)
            if n == 'truediv':
                return self.scaled(1 / core.S.lift(other))
        return ip.NOTIMPL

    def pv_inplace(self, I, fr, iname, rhs):
        n = iname.strip('_')[1:]
        r = self.pv_binop(I, fr, n, rhs)
        if r is ip.NOTIMPL:
            return r
        self.kind, self.arg, self.scale = r.kind, r.arg, r.scale
        return self

    def pv_getattr(self, I, fr, name):
        if name == 'dtype':
            return npm.DT('complex128')
        if name in ('conj', 'conjugate'):
            return ip.Builtin('conj', lambda I_, fr_, a, k: conj(self))
        if name == 'copy':
            return ip.Builtin('copy', lambda I_, fr_, a, k: T(self.kind, self.arg, self.scale))
        raise Unsupported('array.%s in the DFT algebra' % name)


def conj(t):
    if t.kind == 'conj':
        return t.arg.scaled(t.scale)
    if t.kind == 'x' and t.arg.endswith(':real'):
        return t
    return T('conj', T(t.kind, t.arg), t.scale)          # real scale factors commute with conjugation


def F(t, N):
    """unnormalised forward DFT over the transform axes (linear); inversion theorem F(conj(F v)) = N conj v"""
    if t.kind == 'conj' and t.arg.kind == 'F':
        return conj(t.arg.arg).scaled(t.scale * t.arg.scale * N)
    return T('F', T(t.kind, t.arg), t.scale)


def ifftn(t, N):
    return conj(F(conj(t), N)).scaled(1 / core.S.lift(N))


def teq(a, b):
    if a.key() != b.key():
        return core.sbool(False)
    return core.sbool(core.sc_eq(a.scale, b.scale))


def mk_dft(I, st, fr, inverse, sign, halfcomplex, N, axes):
    cls = I.get_class(FO + ('DiscreteFourierTransformInverse' if inverse else 'DiscreteFourierTransform'))
    o = ip.Obj(cls)
    o.fields['_DiscreteFourierTransformBase__sign'] = sign
    o.fields['_DiscreteFourierTransformBase__halfcomplex'] = halfcomplex
    o.fields['_DiscreteFourierTransformBase__axes'] = axes
    o.fields['_DiscreteFourierTransformBase__impl'] = 'numpy'
    o.fields['_fftw_plan'] = None
    o.partial = True
    return o


def install_dft(st, N):
    st.object_arrays = False
    rec = {}

    def fftn(I, fr, x, axes=None, **kw):
        return F(x, N)

    def ifftn_(I, fr, x, axes=None, **kw):
        return ifftn(x, N)

    def rfftn(I, fr, x, axes=None, **kw):
        return T('rfft', T(x.kind, x.arg), x.scale)

    def irfftn(I, fr, x, axes=None, **kw):
        # inverse pair on real input (NumPy's documented behaviour for the matching parity): irfftn(rfftn(v)) == v
        if x.kind == 'rfft':
            return x.arg.scaled(x.scale)
        return T('irfft', T(x.kind, x.arg), x.scale)

    def prod(I, fr, *a, **k):
        return N

    def take(I, fr, *a, **k):
        return 'shape[axes]'

    def pyfftw_call(I, fr, x, out, direction='forward', halfcomplex=False, axes=None, normalise_idft=False, **kw):
        """documented contract of odl.trafos.backends.pyfftw_bindings.pyfftw_call: forward = (r)fftn, backward = N * i(r)fftn unless normalise_idft;
        the result is written to out, the plan returned.  A plan supplied through `fftw_plan` is EXECUTED AS IT WAS PLANNED: its direction and real / complex
        kind override the `direction` / `halfcomplex` arguments of this call (the bindings do not compare them)."""
        plan = kw.get('fftw_plan')
        if isinstance(plan, tuple) and plan and plan[0] == 'plan':
            direction, halfcomplex = plan[1], plan[2]
        made = ('plan', direction, halfcomplex)
        if direction == 'forward':
            res = rfftn(I, fr, x) if halfcomplex else F(x, N)
        else:
            res = irfftn(I, fr, x) if halfcomplex else ifftn(x, N)
            if not normalise_idft and not halfcomplex:
                res = res.scaled(N)
            elif not normalise_idft and halfcomplex:
                res = res.scaled(N)
        out.kind, out.arg, out.scale = res.kind, res.arg, res.scale
        return made
    st.ext_cuts = {'numpy.fft.fftn': fftn, 'numpy.fft.ifftn': ifftn_, 'numpy.fft.rfftn': rfftn, 'numpy.fft.irfftn': irfftn}
    st.np_overrides = {'prod': prod, 'take': take, 'conj': lambda I, fr, x, **k: conj(x), 'conjugate': lambda I, fr, x, **k: conj(x)}
    st.cuts[FO + 'pyfftw_call'] = pyfftw_call
    st.cuts['odl.trafos.backends.pyfftw_bindings:pyfftw_call'] = pyfftw_call
    st.cuts[FO + '_flag_pyfftw_to_odl'] = lambda I, fr, flag: 'measure'


def unit_dft(sign, halfcomplex):
    def run(ctx):
        I = ctx.I

        def path(st):
            N = S(z3.Int('N_axes'))
            st.assume(N >= 1)
            install_dft(st, N)
            fr = ip.Frame(st)
            x = T('x', 'x:real' if halfcomplex else 'x:complex')
            inv_sign = '+' if sign == '-' else '-'
            fwd = mk_dft(I, st, fr, False, sign, halfcomplex, N, (0, 1))
            inv = mk_dft(I, st, fr, True, inv_sign, halfcomplex, N, (0, 1))
            class _El(object):
                def __init__(self, t):
                    self.t = t

                def pv_getattr(self, I_, fr_, name):
                    if name == 'asarray':
                        return ip.Builtin('asarray', lambda I2, fr2, a, kw: self.t)
                    raise Unsupported('element.%s' % name)

            class _Dom(object):
                n = 0

                def pv_getattr(self, I_, fr_, name):
                    if name == 'shape':
                        return (S(z3.Int('n0')), S(z3.Int('n1')))
                    if name == 'element':
                        def el(I2, fr2, a, kw):
                            _Dom.n += 1
                            return _El(T('junk', 'planning_buffer%d' % _Dom.n))
                        return ip.Builtin('element', el)
                    raise Unsupported('domain.%s' % name)
            dom = _Dom()
            for o in (fwd, inv):
                o.fields['_Operator__domain'] = dom
                o.fields['_Operator__range'] = dom
            out = {}
            try:
                out['fwd_np'] = I.call(I._getattr(fwd, '_call_numpy', fr), [x], {}, fr)
                out['inv_np'] = I.call(I._getattr(inv, '_call_numpy', fr), [out['fwd_np']], {}, fr)
                buf = T('junk', 'out_buffer')
                out['fwd_fftw'] = I.call(I._getattr(fwd, '_call_pyfftw', fr), [x, buf], {}, fr)
                buf2 = T('junk', 'out_buffer2')
                out['inv_fftw'] = I.call(I._getattr(inv, '_call_pyfftw', fr), [out['fwd_fftw'], buf2], {}, fr)
                # the two-step use: prepare the plan with init_fftw_plan(), then evaluate with it (twice: the plan of the first call is reused by the second)
                fwd2 = mk_dft(I, st, fr, False, sign, halfcomplex, N, (0, 1))
                inv2 = mk_dft(I, st, fr, True, inv_sign, halfcomplex, N, (0, 1))
                for o in (fwd2, inv2):
                    o.fields['_Operator__domain'] = dom
                    o.fields['_Operator__range'] = dom
                    o.fields['_DiscreteFourierTransformBase__impl'] = 'pyfftw'
                    I.call(I._getattr(o, 'init_fftw_plan', fr), [], {}, fr)
                out['fwd_planned'] = I.call(I._getattr(fwd2, '_call_pyfftw', fr), [x, T('junk', 'out_buffer3')], {}, fr)
                out['fwd_planned2'] = I.call(I._getattr(fwd2, '_call_pyfftw', fr), [x, T('junk', 'out_buffer4')], {}, fr)
                out['inv_planned'] = I.call(I._getattr(inv2, '_call_pyfftw', fr), [out['fwd_planned'], T('junk', 'out_buffer5')], {}, fr)
            except ip.PyRaise as e:
                return ('raise', e.exc)
            out['x'], out['N'] = x, N
            return ('ok', out)
        info = {'sign': sign, 'halfcomplex': halfcomplex}
        for st, (status, r) in ctx.explore(path):
            if status == 'raise':
                ctx.fail(st, 'evaluates without raising', 'raises %s' % lib.exc_desc(r), info)
                continue
            x, N = r['x'], r['N']
            if halfcomplex:
                spec = T('rfft', T('x', x.arg))
            elif sign == '-':
                spec = F(x, N)
            else:
                spec = ifftn(x, N).scaled(N)           # documented: sum_k x_k exp(+2 pi i jk/N) == N * ifftn(x) == conj(F(conj x))
            ctx.prove(st, 'numpy back-end: forward transform == documented DFT of the given sign', teq(r['fwd_np'], spec), dict(info, got=repr(r['fwd_np'])))
            ctx.prove(st, 'numpy back-end: inverse(forward(x)) == x', teq(r['inv_np'], x), dict(info, got=repr(r['inv_np'])))
            ctx.prove(st, 'pyfftw back-end: forward transform == the numpy back-end', teq(r['fwd_fftw'], r['fwd_np']), dict(info, got=repr(r['fwd_fftw'])))
            ctx.prove(st, 'pyfftw back-end: inverse(forward(x)) == x', teq(r['inv_fftw'], x), dict(info, got=repr(r['inv_fftw'])))
            ctx.prove(st, 'pyfftw back-end with a plan prepared by init_fftw_plan(): forward transform == the numpy back-end', teq(r['fwd_planned'], r['fwd_np']), dict(info, got=repr(r['fwd_planned'])))
            ctx.prove(st, 'pyfftw back-end, second call reusing the stored plan: same result', teq(r['fwd_planned2'], r['fwd_np']), dict(info, got=repr(r['fwd_planned2'])))
            ctx.prove(st, 'pyfftw back-end with prepared plans: inverse(forward(x)) == x', teq(r['inv_planned'], x), dict(info, got=repr(r['inv_planned'])))
    return Unit('dft/sign=%s/halfcomplex=%s' % (sign, halfcomplex), run, funcs=[FO + 'DiscreteFourierTransform._call_numpy', FO + 'DiscreteFourierTransformInverse._call_numpy',
                                                                           FO + 'DiscreteFourierTransform._call_pyfftw', FO + 'DiscreteFourierTransformInverse._call_pyfftw', FO + 'DiscreteFourierTransformBase.init_fftw_plan'],
                config={'sign': sign, 'halfcomplex': halfcomplex})


WAV = 'odl.trafos.wavelet:'


def unit_wavelet_adjoint(cname, ndim, axes):
    """WaveletTransform.adjoint / WaveletTransformInverse.adjoint for an orthogonal wavelet: the returned operator is  scale * self.inverse  with
    scale * w == 1 (forward) resp. scale == w (inverse), w the constant of the L2 weighting = the cell volume over ALL axes, also when only a
    subset of the axes is transformed; the partner is built on the very space of the operator with the same wavelet / levels / padding / axes.
    Lemma (periodic extension, pywt trusted): the coefficient map is an orthogonal matrix Q, so <Q x, y>_2 = <x, Q^T y>_2 = (1/w) <x, Q^-1 y>_w."""
    def run(ctx):
        I = ctx.I

        def path(st):
            st.object_arrays = True
            fr = ip.Frame(st)
            hs = [sym('h%d' % i) for i in range(ndim)]
            for h in hs:
                st.assume(h > 0)
            vol = hs[0]
            for h in hs[1:]:
                vol = vol * h

            class Part(object):
                def pv_getattr(self, I_, fr_, name):
                    if name == 'cell_sides':
                        return ONd(np.array(hs, dtype=object))
                    if name == 'cell_volume':
                        return vol
                    if name == 'ndim':
                        return ndim
                    raise Unsupported('partition.%s' % name)

            class Space(object):
                tag = 'L2'

                def pv_getattr(self, I_, fr_, name):
                    if name == 'partition':
                        return Part()
                    if name in ('cell_sides', 'cell_volume', 'ndim'):
                        return Part().pv_getattr(I_, fr_, name)
                    raise Unsupported('space.%s' % name)
            sp, coeff = Space(), ip.Obj(I.get_class('odl.set.space:LinearSpace'))
            made = []

            def mk_ctor(cn):
                def ctor(I_, fr_, self, *a, **kw):
                    self.fields['ctor'] = (cn, a, dict(kw))
                    made.append(self)
                return ctor
            from contracts import oplib
            st.cuts.update(oplib.operator_cuts())
            for cn in ('WaveletTransform', 'WaveletTransformInverse'):
                st.cuts[WAV + cn + '.__init__'] = mk_ctor(cn)
            st.cuts['odl.operator.operator:Operator.__rmul__'] = lambda I_, fr_, self, other: ('lscal', other, self)

            class Wavelet(object):
                def pv_getattr(self, I_, fr_, name):
                    if name in ('orthogonal', 'biorthogonal'):
                        return True
                    raise Unsupported('wavelet.%s' % name)
            wv = Wavelet()
            op = ip.Obj(I.get_class(WAV + cname))
            fwd = cname == 'WaveletTransform'
            pc = sym('pad_const')
            op.fields.update({'_Operator__domain': sp if fwd else coeff, '_Operator__range': coeff if fwd else sp, '_Operator__is_linear': True, 'axes': tuple(axes),
                              'pywt_wavelet': wv, '_WaveletTransformBase__nlevels': 2, '_WaveletTransformBase__impl': 'pywt', '_WaveletTransformBase__wavelet': 'db2',
                              '_WaveletTransformBase__pad_mode': 'pywt_periodic', '_WaveletTransformBase__pad_const': pc,
                              '_WaveletTransformBase__variant': 'forward' if fwd else 'inverse'})
            try:
                adj = I._getattr(op, 'adjoint', fr)
            except ip.PyRaise as e:
                return ('raise', e.exc)
            return ('ok', dict(adj=adj, sp=sp, vol=vol, wv=wv, pc=pc, op=op))
        info = {'class': cname, 'ndim': ndim, 'axes': list(axes)}
        for st, (status, r) in ctx.explore(path):
            if status == 'raise':
                ctx.fail(st, 'adjoint of an orthogonal wavelet transform does not raise', 'raises %s' % lib.exc_desc(r), info)
                continue
            adj = r['adj']
            ok = isinstance(adj, tuple) and adj[0] == 'lscal' and isinstance(adj[2], ip.Obj) and 'ctor' in adj[2].fields
            ctx.prove(st, 'adjoint is  scale * (partner transform)', ok, info)
            if not ok:
                continue
            scale = core.S.lift(adj[1])
            cn, a, kw = adj[2].fields['ctor']
            fwd = cname == 'WaveletTransform'
            ctx.prove(st, 'adjoint: partner class, no positional surprises', cn == ('WaveletTransformInverse' if fwd else 'WaveletTransform') and not a, info)
            ctx.prove(st, 'adjoint: the partner lives on the very L2 space of the operator', kw.get('range' if fwd else 'domain') is r['sp'], info)
            ctx.prove(st, 'adjoint: same wavelet, number of levels, padding mode / constant, back-end and axes',
                      kw.get('wavelet') is r['wv'] and kw.get('nlevels') == 2 and kw.get('pad_mode') == 'pywt_periodic' and kw.get('pad_const') is r['pc']
                      and kw.get('impl') == 'pywt' and tuple(kw.get('axes') or ()) == tuple(axes), info)
            if fwd:
                ctx.prove(st, 'adjoint scaling: scale * (cell volume over ALL axes) == 1   [<W x, y>_2 == <x, scale W^-1 y>_w]', core.sc_eq(scale * r['vol'], 1), info)
            else:
                ctx.prove(st, 'adjoint scaling: scale == cell volume over ALL axes   [<W^-1 c, y>_w == <c, scale W y>_2]', core.sc_eq(scale, r['vol']), info)
    return Unit('wavelet-adjoint/%s/ndim=%d/axes=%s' % (cname, ndim, ''.join(map(str, axes))), run, funcs=[WAV + cname + '.adjoint', WAV + cname + '.inverse'],
                config={'class': cname, 'ndim': ndim, 'axes': list(axes)})


def unit_ft_definition(shape, tier):
    """BOUNDED stand-in (labelled bounded, never counted as proved): the continuous FourierTransform of both back-ends against its defining quadrature
    sum  s / sqrt(2 pi) * sum_k f(x_k) exp(-+ i x_k xi_j) * sinc(xi_j s / 2 pi)  on EVERY basis vector of a small grid (the operator is linear: a basis decides
    all inputs of that shape up to rounding), for every axes subset x per-axis shift x sign x real / complex / half-complex; the inverse recovers the input,
    in-place == out-of-place, numpy == pyfftw.  This is where the pre- and post-processing phase factors (complex exponentials: outside the exact-real term
    algebra of the deductive units) are decided; bound: the listed shapes."""
    def run(ctx):
        from contracts import replay_c18
        for cfg in replay_c18.ft_definition_cases(tier):
            if tuple(cfg['shape']) != tuple(shape):
                continue
            try:
                bad, evals = replay_c18.ft_definition_check(cfg)
            except Exception as e:
                bad, evals = 'evaluation raised %s: %s' % (type(e).__name__, e), 0
            ctx.evals += max(evals - 1, 0)
            ctx.bounded('FourierTransform == defining sum on every basis vector; inverse recovers; in-place == out-of-place; numpy == pyfftw', not bad, cfg, detail=bad)
    return Unit('ft-definition/shape=%s' % 'x'.join(map(str, shape)), run, funcs=[FO + 'FourierTransform._call_numpy', FO + 'FourierTransform._call_pyfftw',
                FO + 'FourierTransformInverse._call_numpy', FO + 'FourierTransformInverse._call_pyfftw', FT + 'dft_preprocess_data', FT + 'dft_postprocess_data'],
                kind='B', config={'shape': list(shape)}, bounded_in='grid shapes listed in the unit names (each axis <= 8 points), all basis vectors')


def unit_wavelet_roundtrip(shape, tier):
    """BOUNDED stand-in (labelled bounded, never counted as proved): W.inverse(W(e)) == e on EVERY basis vector of small grids (the transform is linear for
    pad_const = 0: a basis decides all inputs of that shape up to rounding) for wavelet families x levels (1, 2, maximal) x all 9 padding modes x axes subsets;
    for orthogonal wavelets with periodic extension additionally the adjoint identity of W and W.inverse on white noise.  Decides the coefficient flattening /
    unflattening and cropping of WaveletTransform._call / WaveletTransformInverse._call (PyWavelets itself is external)."""
    def run(ctx):
        from contracts import replay_c18
        for cfg in replay_c18.wavelet_cases(tier):
            if tuple(cfg['shape']) != tuple(shape):
                continue
            try:
                bad, evals = replay_c18.wavelet_check(cfg)
            except Exception as e:
                bad, evals = 'evaluation raised %s: %s' % (type(e).__name__, e), 0
            if not bad and evals == 0:
                continue
            ctx.evals += max(evals - 1, 0)
            ctx.bounded('wavelet reconstruction inverts decomposition on every basis vector; adjoint identity for orthogonal wavelets with periodic extension', not bad, cfg, detail=bad)
    return Unit('wavelet-roundtrip/shape=%s' % 'x'.join(map(str, shape)), run, funcs=[WAV + 'WaveletTransform._call', WAV + 'WaveletTransformInverse._call',
                WAV + 'WaveletTransform.adjoint', WAV + 'WaveletTransformInverse.adjoint', 'odl.trafos.backends.pywt_bindings:precompute_raveled_slices'],
                kind='B', config={'shape': list(shape)}, bounded_in='grid shapes listed in the unit names, wavelets %s, all basis vectors' % (', '.join(__import__('contracts.replay_c18', fromlist=['x']).WAVELETS),))


def unit_canary():
    """must fail: conj(F(x)) claimed equal to N * ifftn(x) for complex x"""
    def run(ctx):
        N = S(z3.Int('N_axes'))
        x = T('x', 'x:complex')
        ctx.prove_lemma('canary', [N >= 1], teq(conj(F(x, N)), ifftn(x, N).scaled(N)), {})
    return Unit('canary/conj-fft-is-not-the-plus-transform', run, kind='canary', expect='refuted')


def replay(ob):
    from contracts import replay_c18
    return replay_c18.replay(ob)


def units(tier, seed):
    us = []
    for parity in ('even', 'odd'):
        for hc in (False, True):
            for sh in (True, False):
                us.append(unit_recip(1, (0,), (sh,), hc, parity))
            for axes in ((0, 1), (0,), (1,), (1, 0)):
                for shifts in itertools.product((True, False), repeat=len(axes)):
                    us.append(unit_recip(2, axes, shifts, hc, parity))
    for sign in ('-', '+'):
        us.append(unit_dft(sign, False))
    us.append(unit_dft('-', True))
    for cn in ('WaveletTransform', 'WaveletTransformInverse'):
        for ndim, axes in ((1, (0,)), (2, (0, 1)), (2, (0,)), (2, (1,)), (3, (0, 2)), (3, (1,)), (3, (0, 1, 2))):
            us.append(unit_wavelet_adjoint(cn, ndim, axes))
    from contracts import replay_c18
    shapes = []
    for cfg in replay_c18.ft_definition_cases(tier):
        if tuple(cfg['shape']) not in shapes:
            shapes.append(tuple(cfg['shape']))
    for shp in shapes:
        us.append(unit_ft_definition(shp, tier))
    shapes = []
    for cfg in replay_c18.wavelet_cases(tier):
        if tuple(cfg['shape']) not in shapes:
            shapes.append(tuple(cfg['shape']))
    for shp in shapes:
        us.append(unit_wavelet_roundtrip(shp, tier))
    us.append(unit_canary())
    return us
