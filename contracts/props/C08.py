"""C08 - functional, convex conjugate and their proximals are mutually consistent.

conj/*      Fenchel calculus: for every derived functional class with a convex_conj the expression
            returned by the real property takes, at every y, the value the conjugation rule prescribes
            in terms of f* of the abstract parts ((s f)* = s f*(./s), (f(s.))* = f*(./s),
            (f(.-t))* = f* + <., t>, (f + <., u> + c)* = f*(. - u) - c, (f [] g)* = f* + g*,
            (f + c)* = f* - c, Bregman distance), with the sign / reciprocal factors checked exactly.
biconj/*    h.convex_conj.convex_conj takes the same values as h (computed through the code's own rules,
            with f** = f for the abstract parts).
moreau/*    the proximal of a default convex conjugate satisfies the Moreau decomposition
            prox_{sigma f*}(x) + sigma prox_{f/sigma}(x/sigma) = x for all x, sigma > 0.
pair/*      pointwise built-in pairs: Fenchel-Young f(x_i) + f*(y_i) >= x_i y_i at every index with
            equality at y_i = f'(x_i), on the integrands extracted from the real _call.
"""
import itertools

import z3

from pyvc import core, interp as ip, odlmodel as om
from pyvc.core import S, C, V, VVar, VConst, VFresh, VLin, VPw, VApp, Unsupported
from pyvc.harness import Unit
from contracts import lib, oplib, tlib, makers, flib
from contracts.lib import content, set_content
from contracts.oplib import OP, AbsOp, FieldSpec, sem, value_of, v_add, v_mul, inner
from contracts.flib import FN, DF, AbsFunc, conj_value

META = {
    'level': 'proof',
    'trusted_base': [
        'pyvc symbolic interpreter (A7); contracts of C01, C03, C04 (operator arithmetic), C09 (values of derived functionals)',
        'the Fenchel calculus rules are the specification; f** = f for the abstract parts (convex, lsc, proper: A6)',
        'A1 reals, real spaces',
    ],
    'assumptions': ['A1', 'A2', 'A5', 'A6', 'A7', 'positive scaling s > 0, sigma > 0'],
    'not_decided': ['LpNorm <-> IndicatorLpUnitBall for general p, group norms, nuclear norm, KL pairs (log/exp integrands), QuadraticForm with operator: bounded functional-pool stand-in only (SeparableSum is under contract)'],
}


def get(I, fr, o, name):
    return I._getattr(o, name, fr)


def build(I, st, fr, kind):
    X = makers.tspace(I, st, 'X', 'real')
    f = AbsFunc(I, st, 'f', X)
    g = AbsFunc(I, st, 'g', X)
    cls = lambda n: I.get_class(FN + n)
    fs = lambda y: conj_value(I, fr, f.op, y)
    gs = lambda y: conj_value(I, fr, g.op, y)
    ip_ = lambda a, b: inner(I, fr, X.space, a, b)
    if kind == 'left_scalar':
        s = makers.pos_scalar(st, 's')
        h = I.call(cls('FunctionalLeftScalarMult'), [f.op, s], {}, fr)
        return dict(h=h, X=X, rule=lambda y: s * fs(v_mul(1 / s, y)))
    if kind == 'right_scalar':
        s = om.sym_scalar('s', 'real')
        st.assume(core.s_not(core.sc_eq(s, 0)))
        h = I.call(cls('FunctionalRightScalarMult'), [f.op, s], {}, fr)
        return dict(h=h, X=X, rule=lambda y: fs(v_mul(1 / s, y)))
    if kind == 'right_scalar_nested':
        a, b_ = om.sym_scalar('a', 'real'), om.sym_scalar('b', 'real')
        st.assume(core.s_not(core.sc_eq(a, 0)))
        st.assume(core.s_not(core.sc_eq(b_, 0)))
        h0 = I.call(cls('FunctionalRightScalarMult'), [f.op, a], {}, fr)
        h = I.call(cls('FunctionalRightScalarMult'), [h0, b_], {}, fr)
        return dict(h=h, X=X, rule=lambda y: fs(v_mul(1 / (a * b_), y)))
    if kind == 'right_vector':
        v = X.element('v')
        lib.assume_nonzero(st, 'v', 'real')
        h = I.call(cls('FunctionalRightVectorMult'), [f.op, v], {}, fr)
        return dict(h=h, X=X, rule=lambda y: fs(core.vdiv(y, content(v))))
    if kind == 'scalar_sum':
        c = om.sym_scalar('c', 'real')
        h = I.call(cls('FunctionalScalarSum'), [f.op, c], {}, fr)
        return dict(h=h, X=X, rule=lambda y: fs(y) - c)
    if kind == 'translation':
        t = X.element('t')
        h = I.call(cls('FunctionalTranslation'), [f.op, t], {}, fr)
        return dict(h=h, X=X, rule=lambda y: fs(y) + ip_(y, content(t)))
    if kind == 'linear_perturb':
        c = om.sym_scalar('c', 'real')
        u = X.element('u')
        h = I.call(cls('FunctionalQuadraticPerturb'), [f.op], {'quadratic_coeff': 0, 'linear_term': u, 'constant': c}, fr)
        return dict(h=h, X=X, rule=lambda y: fs(VLin([(1, y), (-1, content(u))])) - c)
    if kind == 'infconv':
        h = I.call(cls('InfimalConvolution'), [f.op, g.op], {}, fr)
        return dict(h=h, X=X, rule=lambda y: fs(y) + gs(y), no_biconj=True)
    if kind == 'bregman':
        p, sg = X.element('p'), X.element('sg')
        h = I.call(cls('BregmanDistance'), [f.op, p, sg], {}, fr)
        fv = lambda u: sem(I, fr, f.op, u)
        return dict(h=h, X=X, rule=lambda y: fs(VLin([(1, y), (1, content(sg))])) + fv(content(p)) - ip_(content(p), content(sg)))
    raise KeyError(kind)


KINDS = ['left_scalar', 'right_scalar', 'right_scalar_nested', 'right_vector', 'scalar_sum', 'translation', 'linear_perturb', 'infconv', 'bregman']


def unit_conj(kind):
    def run(ctx):
        I = ctx.I

        def path(st):
            flib.install(st, 'gram')
            fr = ip.Frame(st)
            try:
                b = build(I, st, fr, kind)
                hc = get(I, fr, b['h'], 'convex_conj')
                y = VVar('y', 'real')
                val = sem(I, fr, hc, y)
                out = dict(b=b, fr=fr, val=val, y=y, hc=hc)
                if not b.get('no_biconj'):
                    hcc = get(I, fr, hc, 'convex_conj')
                    x = VVar('x', 'real')
                    out['bi'] = (sem(I, fr, hcc, x), sem(I, fr, b['h'], x))
            except ip.PyRaise as e:
                return ('raise', e.exc)
            return ('ok', out)
        info = {'kind': kind}
        for st, (status, r) in ctx.explore(path):
            if status == 'raise':
                ctx.fail(st, 'no_raise', 'raises %s%r' % (lib.exc_name(r), r.fields.get('args')), info)
                continue
            b = r['b']
            ctx.prove(st, 'conj: h*(y) == Fenchel rule for all y', core.sc_eq(r['val'], b['rule'](r['y'])), info)
            if 'bi' in r:
                ctx.prove(st, 'biconj: h** takes the same values as h', core.sc_eq(r['bi'][0], r['bi'][1]), info)
    return Unit('conj/%s' % kind, run, funcs=[FN + 'Functional*.convex_conj'], config={'kind': kind})


def unit_moreau():
    def run(ctx):
        I = ctx.I

        def path(st):
            flib.install(st, 'gram')
            fr = ip.Frame(st)
            X = makers.tspace(I, st, 'X', 'real')
            f = AbsFunc(I, st, 'f', X)
            sigma = makers.pos_scalar(st, 'sigma')
            fc = get(I, fr, f.op, 'convex_conj')
            P = I.call(get(I, fr, fc, 'proximal'), [sigma], {}, fr)
            x = VVar('x', 'real')
            lhs = sem(I, fr, P, x)
            pf = flib.ProxFactory(f).pv_call(I, fr, [1 / sigma], {})
            rhs = VLin([(1, x), (-sigma, sem(I, fr, pf, v_mul(1 / sigma, x)))])
            same = get(I, fr, fc, 'convex_conj') is f.op
            return ('ok', (lhs, rhs, same))
        for st, (status, (lhs, rhs, same)) in ctx.explore(path):
            ctx.prove(st, 'Moreau: prox_{sigma f*}(x) == x - sigma prox_{f/sigma}(x/sigma)', lib.eq_goal(st.lower, lhs, rhs), {})
            ctx.prove(st, 'f.convex_conj.convex_conj is f', same, {})
    return Unit('moreau/default-convex-conjugate', run,
                funcs=[FN + 'FunctionalDefaultConvexConjugate.proximal', 'odl.solvers.nonsmooth.proximal_operators:proximal_convex_conj'])


def unit_pair_l2sq():
    """L2NormSquared <-> 1/4 L2NormSquared: Fenchel-Young on the integrands, equality at y = f'(x) = 2x"""
    def run(ctx):
        I = ctx.I

        def path(st):
            flib.install(st, 'sum')
            fr = ip.Frame(st)
            X = makers.tspace(I, st, 'X', 'real')
            f = I.call(I.get_class(DF + 'L2NormSquared'), [X.space], {}, fr)
            fc = get(I, fr, f, 'convex_conj')
            x, y = X.element('x'), X.element('y')
            from contracts import callforms
            fx = callforms.real_call(I, fr, f, x)
            fcy = callforms.real_call(I, fr, fc, y)
            xy = I.call(get(I, fr, x, 'inner'), [y], {}, fr)
            grad = callforms.real_call(I, fr, get(I, fr, f, 'gradient'), x)
            fcg = callforms.real_call(I, fr, fc, grad)
            xg = I.call(get(I, fr, x, 'inner'), [grad], {}, fr)
            recs = list(st.reductions.records)
            return ('ok', (fx, fcy, xy, fcg, xg, recs, content(grad)))
        for st, (status, (fx, fcy, xy, fcg, xg, recs, gradc)) in ctx.explore(path):
            low = st.lower
            # the three values are weighted sums; Fenchel-Young is proved summand-wise (sufficient: w > 0)
            by = {id(r.sym): r for r in recs}

            def summand(val):
                # val is c * (reduction symbol): recover c and the summand
                for r in recs:
                    if val is r.sym:
                        return r.low
                return None
            sx, sy, sxy = summand(fx), None, summand(xy)
            # f*(y) = 1/4 <y, y>: scalar multiple of a record
            rec_yy = [r for r in recs if r is not None and st.entails(core.sc_eq(r.sym * S.lift(0.25), fcy))]
            ok = sx is not None and sxy is not None and rec_yy
            ctx.prove(st, 'values are the documented weighted sums (integrands extracted)', bool(ok), {})
            if ok:
                ctx.prove(st, 'Fenchel-Young on the integrands: w x^2 + w y^2/4 >= w x y at every index',
                          sx + S.lift(0.25) * rec_yy[0].low >= sxy, {})
            ctx.prove(st, 'equality at y = grad f(x): f(x) + f*(grad f(x)) == <x, grad f(x)>', core.sc_eq(fx + fcg, xg), {})
    return Unit('pair/L2NormSquared', run, funcs=[DF + 'L2NormSquared._call', DF + 'L2NormSquared.convex_conj', DF + 'L2NormSquared.gradient'])


def unit_canary():
    """must-fail: (f(s.))* claimed to be f*(s.)"""
    def run(ctx):
        I = ctx.I

        def path(st):
            flib.install(st, 'gram')
            fr = ip.Frame(st)
            b = build(I, st, fr, 'right_scalar')
            hc = get(I, fr, b['h'], 'convex_conj')
            y = VVar('y', 'real')
            s = get(I, fr, b['h'], 'scalar')
            f = get(I, fr, b['h'], 'functional')
            return ('ok', (sem(I, fr, hc, y), conj_value(I, fr, f, v_mul(s, y))))
        for st, (status, (got, wrong)) in ctx.explore(path):
            ctx.prove(st, 'canary', core.sc_eq(got, wrong), {})
    return Unit('canary/conjugate-without-reciprocal', run, kind='canary', expect='refuted')


def unit_lp_pair(cname, pkind):
    """LpNorm <-> IndicatorLpUnitBall: the conjugate is the partner functional with the DUAL exponent q, 1/p + 1/q = 1 (1 <-> inf)"""
    def run(ctx):
        I = ctx.I

        def path(st):
            flib.install(st, 'gram')
            fr = ip.Frame(st)
            X = makers.tspace(I, st, 'X', 'real')
            made = []

            def mk(cn):
                def ctor(I_, fr_, self, space=None, exponent=None, **kw):
                    self.fields['ctor'] = (cn, space, {'L1Norm': 1.0, 'L2Norm': 2.0}.get(cn, exponent))
                    made.append(self)
                return ctor
            for cn in ('LpNorm', 'IndicatorLpUnitBall', 'L1Norm', 'L2Norm'):
                st.cuts[DF + cn + '.__init__'] = mk(cn)
            st.cuts.update(oplib.operator_cuts())
            if pkind == 'sym':
                p = S(z3.Real('p'))
                st.assume(p > 1)
                st.assume(core.s_not(core.sbool(core.sc_eq(p, 2))))
            else:
                p = {'1': 1.0, '2': 2.0, 'inf': float('inf')}[pkind]
            f = ip.Obj(I.get_class(DF + cname))
            f.fields.update({'_Operator__domain': X.space, '_Operator__range': FieldSpec(I, 'real').space, 'exponent': p, '_IndicatorLpUnitBall__exponent': p})
            try:
                cc = I._getattr(f, 'convex_conj', fr)
            except ip.PyRaise as e:
                return ('raise', e.exc)
            return ('ok', (cc, p, X))
        info = {'class': cname, 'p': pkind}
        for st, (status, r) in ctx.explore(path):
            if status == 'raise':
                ctx.fail(st, 'convex_conj does not raise', 'raises %s' % lib.exc_desc(r), info)
                continue
            cc, p, X = r
            ok = isinstance(cc, ip.Obj) and 'ctor' in cc.fields
            ctx.prove(st, 'convex_conj is built by a constructor of the Lp family', ok, info)
            if not ok:
                continue
            cn, space, q = cc.fields['ctor']
            partner = ('IndicatorLpUnitBall',) if cname == 'LpNorm' else ('LpNorm', 'L1Norm', 'L2Norm')
            ctx.prove(st, 'convex_conj: partner class on the same space', cn in partner and space is X.space, dict(info, got=cn))
            if pkind == '1':
                ctx.prove(st, 'convex_conj: dual exponent of 1 is inf', q == float('inf'), dict(info, got=q))
            elif pkind == 'inf':
                ctx.prove(st, 'convex_conj: dual exponent of inf is 1', q == 1.0, dict(info, got=q))
            else:
                qq = core.S.lift(q)
                ctx.prove(st, 'convex_conj: dual exponent  1/p + 1/q == 1', core.sc_eq(qq + core.S.lift(p), qq * core.S.lift(p)), dict(info, got=str(q)))
    return Unit('builtin/lp-pair/%s/p=%s' % (cname, pkind), run, funcs=[DF + cname + '.convex_conj', 'odl.util.utility:conj_exponent'], config={'class': cname, 'p': pkind})



def unit_functional_pool_bounded():
    """BOUNDED stand-in (never counted as proved) for the built-in functionals outside the deductive units (sort / SVD / group-norm based closed forms,
    weighted power spaces, domains with several axes): one small instance per functional x space in contracts/funcpool.py, fixed random inputs: Fenchel-Young at random pairs with equality at y = gradient(x), biconjugate values, Moreau decomposition"""
    def run(ctx):
        from contracts import funcpool
        for name in sorted(funcpool.pool()):
            try:
                bad, n = funcpool.check_conj(name)
            except Exception as e:
                bad, n = 'check raised %s: %s' % (type(e).__name__, str(e)[:200]), 1
            if n == 0 and not bad:
                continue
            ctx.evals += max(n - 1, 0)
            ctx.bounded('built-in functional: conjugate, biconjugate and proximals are consistent', not bad, {'functional': name}, detail=bad)
    return Unit('functional-pool/conjugate', run, funcs=['odl.solvers.functional.default_functionals:*', 'odl.solvers.nonsmooth.proximal_operators:*'], kind='B',
                bounded_in='one small instance per built-in functional x space in contracts/funcpool.py (130 entries), 2 step sizes x 3 random points x ~60 probes')


def units(tier, seed):
    us = [unit_conj(k) for k in KINDS]
    for cn in ('LpNorm', 'IndicatorLpUnitBall'):
        for pk in ('sym', '1', '2', 'inf'):
            us.append(unit_lp_pair(cn, pk))
    us.append(unit_moreau())
    us.append(unit_pair_l2sq())
    from contracts import grouplib as _gl
    us.append(_gl.unit_separable_sum(2 if 'C08' != 'C08' else 3))
    us.append(unit_functional_pool_bounded())
    us.append(unit_canary())
    return us


def replay(ob):
    if ob.get('unit', '').startswith('functional-pool/'):
        from contracts import funcpool
        try:
            bad = funcpool.check_conj((ob.get('model') or {}).get('functional'))[0]
        except Exception as e:
            bad = 'raised %s: %s' % (type(e).__name__, e)
        return {'reproduced': bool(bad), 'detail': bad or 'holds natively', 'input': ob.get('model')}
    from contracts import replay_c08
    return replay_c08.replay(ob)
