"""C12 - solvers decrease what they promise to decrease and converge to optimality.

What a contract can decide here are the *one-step* facts that the convergence theory of each method rests on; each is
proved on the real loop body from a generic loop-head state (loop contracts of contracts/looplib.py, symbolic
iteration count), with abstract linear operators / functionals (every problem instance), in the Gram algebra
of contracts/gramlib.py (bilinearity, adjoint law, symmetry):

descent/cg          invariant  r = b - A x,  <p, r> = <r, r>,  sqnorm_r_old = <r, r>,  <r, A p> = <p, A p>  is inductive and implies
                    ||x' - x*||_A^2 = ||x - x*||_A^2 - <r,r>^2 / <p, A p>  <=  ||x - x*||_A^2     (A s.p.d., A x* = b),
                    <p', A p> = 0 and <r', r> = 0 (the local conjugacy / orthogonality that pin alpha and beta)
descent/cgn         invariant  d = b - A x, <A* d, p> = ||A* d||^2, sqnorm_s_old = ||A* d||^2 inductive, ||d'|| <= ||d||
descent/landweber   ||A x' - b||^2 <= ||A x - b||^2   for 0 < omega <= 2 / ||A||^2
descent/kaczmarz    ||x' - x*|| <= ||x - x*|| per sweep for a consistent system, 0 < omega_i <= 2 / ||A_i||^2
descent/backtracking  BacktrackingLineSearch returns a step with f(x + a d) <= f(x) - |a dd c| (while-loop contract),
                    hence steepest_descent with it never increases f
opnorm/power        power_method_opnorm returns a value <= every N with ||A v|| <= N ||v||  (for all iteration counts)
kkt/<solver>        one body execution == documented update; a state left unchanged by the body satisfies the
                    first-order optimality conditions (sub-gradient inclusions through the prox characterisation);
                    a primal-dual solution (resolvent form of the inclusions) is left unchanged by the body
stepsize/*          the default step-size rules satisfy the documented admissibility conditions
"""
import itertools

import z3

from pyvc import core, interp as ip, odlmodel as om
from pyvc.core import S, C, V, VVar, VConst, VFresh, VLin, VPw, VApp, Unsupported
from pyvc.harness import Unit
from contracts import lib, oplib, tlib, makers, flib, looplib, utilcuts, gramlib
from contracts.lib import content, set_content
from contracts.oplib import OP, AbsOp, FieldSpec, sem, value_of, v_add, v_mul
from contracts.flib import FN, DF, AbsFunc
from contracts.looplib import Ghost, run_with_loop
from contracts.gramlib import ginner, sqnorm

META = {
    'level': 'proof',
    'trusted_base': [
        'pyvc symbolic interpreter (A7); contracts of element / space arithmetic (C01), inner product = an abstract real inner product (C02), Operator.__call__ (C03), '
        'adjoint / derivative of abstract operands (C05, C06), Functional.proximal / gradient / convex_conj of abstract functionals (C07-C10)',
        'Gram algebra: bilinearity, symmetry, adjoint law, <u,u> >= 0; operator-norm bound ||A v|| <= N ||v|| instantiated at the vectors the proof needs',
        'prox characterisation q = prox_{tau f}(w) <=> (w - q)/tau in subdiff f(q) (A6) links fixed points and sub-gradient inclusions',
        'convergence theory (a monotone bounded sequence converges, Fejer monotonicity => convergence, conjugacy => finite termination of CG) is mathematics on top of the one-step facts',
        'A1 exact real arithmetic',
    ],
    'assumptions': ['A1', 'A2', 'A5', 'A6', 'A7'],
    'bounded_rule': 'monitor/* (thorough tier only): the real solvers run natively on 40 random small problems per configuration (matrices of size 2..5, lasso problems with '
                    'closed-form solutions, admissible random steps); includes CG exactness after n steps. Bounded evidence, never counted as discharged.',
    'not_decided': ['CG exact after dimension-many steps (needs the full conjugacy invariant over all previous directions; not a one-step fact)',
                    'actual convergence of the non-smooth solvers (limit statement); what is proved is one-step correctness, fixed point <=> KKT and step-size admissibility',
                    'newton / BFGS / nonlinear CG (smooth solvers beyond steepest descent)', 'behaviour in floating point'],
}

IT = 'odl.solvers.iterative.iterative:'
GR = 'odl.solvers.smooth.gradient:'
SL = 'odl.solvers.util.steplen:'
OU = 'odl.operator.oputils:'
PDHG = 'odl.solvers.nonsmooth.primal_dual_hybrid_gradient:'
DR = 'odl.solvers.nonsmooth.douglas_rachford:'
FB = 'odl.solvers.nonsmooth.forward_backward:'
PG = 'odl.solvers.nonsmooth.proximal_gradient_solvers:'
ADMM = 'odl.solvers.nonsmooth.admm:'


def install(st):
    flib.install(st, 'gram')
    st.cuts.update(utilcuts.cuts())
    gramlib.install(st)


def var(n):
    return VVar(n, 'real')


def niter_sym(st, name='niter'):
    n = S(z3.Int(name))
    st.assume(n >= 0)
    return n


def eqv(low, a, b):
    return lib.eq_goal(low, a, b)


def lin(*terms):
    return VLin(list(terms))


def self_adjoint(A):
    A.op.opsym.adj = A.op.opsym
    A.adj = A
    return A


def opnorm_fact(st, A, N, v):
    """instance of  ||A v||^2 <= N^2 ||v||^2"""
    I, fr = A.I, None
    Av = VApp(A.op.opsym, (v,), 'real')
    st.assume(sqnorm(st, Av) <= N * N * sqnorm(st, v))


def adj_sym_app(A, v):
    return VApp(oplib.adjoint_sym(A.op.opsym), (v,), 'real')


def app(A, v):
    return VApp(A.op.opsym, (v,), 'real')


# ---------------------------------------------------------------------------------------------------------
# conjugate gradient: energy-norm error

def unit_cg(mode):
    def run(ctx):
        I = ctx.I

        def path(st):
            install(st)
            fr = ip.Frame(st)
            X = makers.tspace(I, st, 'X', 'real')
            A = self_adjoint(AbsOp(I, 'A', X, X, True))
            xs = var('x_star')
            rhs = X.element(cont=app(A, xs))                 # consistent: A x* = b
            x = X.element(cont=var('x0'))
            xk, pk = var('x_k'), var('p_k')
            rk = lin((1, app(A, xs)), (-1, app(A, xk)))
            gh = Ghost()

            def havoc(loc, fr_, run):
                set_content(x, xk)
                set_content(loc['r'], rk)                          # r = b - A x
                set_content(loc['p'], pk)
                st.assume(core.sc_eq(ginner(st, pk, rk), ginner(st, rk, rk)))     # <p, r> = <r, r>
                st.assume(core.sc_eq(ginner(st, rk, app(A, pk)), ginner(st, pk, app(A, pk))))     # <r, A p> = <p, A p>  (p - r is A-conjugate to p)
                loc['sqnorm_r_old'] = ginner(st, rk, rk)
                st.assume(core.s_or(core.s_not(core.sc_eq(ginner(st, rk, rk), 0)), core.sc_eq(ginner(st, pk, app(A, pk)), 0)))   # r = 0  ==>  <p, A p> = 0  (then the body returns)
                set_content(loc['d'], VFresh('junk_d', 'real'))
                # A is positive semi-definite (instantiated at p)
                st.assume(ginner(st, pk, app(A, pk)) >= 0)
            havoc.keep_scalars = ('sqnorm_r_old',)
            try:
                r = run_with_loop(I, st, fr, I.get_func(IT + 'conjugate_gradient'), [A.op, x, rhs, niter_sym(st)], {'callback': gh}, mode, havoc=havoc,
                                  ghost=gh, declared=lambda loc: [x, loc['r'], loc['p'], loc['d']], extra_roots=[x], allow_no_loop=True)
            except ip.PyRaise as e:
                return ('raise', e.exc)
            return ('ok', dict(run=r, x=x, A=A, xs=xs, xk=xk, pk=pk, rk=rk, fr=fr, rhs=rhs))
        info = {'solver': 'conjugate_gradient', 'mode': mode}
        for st, (status, r) in ctx.explore(path):
            if status == 'raise':
                ctx.fail(st, 'no_raise', 'raises %s' % lib.exc_desc(r), info)
                continue
            low = st.lower
            rr, A, xs = r['run'], r['A'], r['xs']
            if mode == 'init':
                if rr.head is None:
                    # returned before the loop: sqnorm_r_old == 0, i.e. the start value already solves the system
                    ctx.prove(st, 'init: early return only for a zero residual', core.sc_eq(ginner(st, lin((1, app(A, xs)), (-1, app(A, var('x0')))), lin((1, app(A, xs)), (-1, app(A, var('x0'))))), 0), info)
                    continue
                h = rr.head
                r0 = rr.head_content[id(h['r'])]
                p0 = rr.head_content[id(h['p'])]
                ctx.prove(st, 'init: r == b - A x', eqv(low, r0, lin((1, app(A, xs)), (-1, app(A, var('x0'))))), info)
                ctx.prove(st, 'init: <p, r> == <r, r>', core.sc_eq(ginner(st, p0, r0), ginner(st, r0, r0)), info)
                ctx.prove(st, 'init: sqnorm_r_old == <r, r>', core.sc_eq(h['sqnorm_r_old'], ginner(st, r0, r0)), info)
                ctx.prove(st, 'init: r == 0 ==> <p, A p> == 0', core.s_or(core.s_not(core.sc_eq(ginner(st, r0, r0), 0)), core.sc_eq(ginner(st, p0, app(A, p0)), 0)), info)
                ctx.prove(st, 'init: <r, A p> == <p, A p>', core.sc_eq(ginner(st, r0, app(A, p0)), ginner(st, p0, app(A, p0))), info)
                ctx.prove(st, 'init: x untouched', eqv(low, rr.head_content[id(r['x'])], var('x0')), info)
                continue
            if rr.head is None:
                continue            # returned before the loop (covered by the init unit)
            x1 = rr.post_content[id(r['x'])]
            xk, pk, rk = r['xk'], r['pk'], r['rk']
            e0, e1 = lin((1, xk), (-1, xs)), lin((1, x1), (-1, xs))
            E0, E1 = ginner(st, e0, app(A, e0)), ginner(st, e1, app(A, e1))
            if rr.body_exit == 'return':
                ctx.prove(st, 'step: early return leaves x alone', eqv(low, x1, xk), info)
                continue
            p = rr.post
            r1, p1 = rr.post_content[id(p['r'])], rr.post_content[id(p['p'])]
            ctx.prove(st, 'step: invariant r == b - A x re-established', eqv(low, r1, lin((1, app(A, xs)), (-1, app(A, x1)))), info)
            ctx.prove(st, 'step: invariant <p, r> == <r, r> re-established', core.sc_eq(ginner(st, p1, r1), ginner(st, r1, r1)), info)
            ctx.prove(st, 'step: invariant sqnorm_r_old == <r, r> re-established', core.sc_eq(p['sqnorm_r_old'], ginner(st, r1, r1)), info)
            gramlib.cs_fact(st, r1, app(A, r1))
            ctx.prove(st, 'step: invariant r == 0 ==> <p, A p> == 0 re-established  (no 0/0 in beta)',
                      core.s_or(core.s_not(core.sc_eq(ginner(st, r1, r1), 0)), core.sc_eq(ginner(st, p1, app(A, p1)), 0)), info)
            ctx.prove(st, 'step: invariant <r, A p> == <p, A p> re-established', core.sc_eq(ginner(st, r1, app(A, p1)), ginner(st, p1, app(A, p1))), info)
            ctx.prove(st, 'step: consecutive search directions are A-conjugate  <p\', A p> == 0  (pins beta)', core.sc_eq(ginner(st, p1, app(A, pk)), 0), info)
            ctx.prove(st, 'step: consecutive residuals are orthogonal  <r\', r> == 0  (pins alpha)', core.sc_eq(ginner(st, r1, rk), 0), info)
            ctx.prove(st, 'step: energy-norm error does not increase  ||x\' - x*||_A <= ||x - x*||_A', E1 <= E0, info)
            g_rr, g_pAp = ginner(st, rk, rk), ginner(st, pk, app(A, pk))
            ctx.prove(st, 'step: exact decrease  E\' == E - <r,r>^2 / <p, A p>', core.sc_eq(E1 * g_pAp, E0 * g_pAp - g_rr * g_rr), info)
            n = rr.calls_after - rr.calls_before
            ctx.prove(st, 'step: callback called once with x', n == 1 and gh_ok(rr, r['x']), info)
    return Unit('descent/cg/%s' % mode, run, funcs=[IT + 'conjugate_gradient'], config={'mode': mode})


def loop_unit(name, funcs, mode, body, cfg=None, **ukw):
    """body(ctx, I, st, fr) -> generator protocol is too heavy: body returns (setup, check) where
    setup(I, st, fr) -> dict with keys func,args,kwargs,havoc,declared,roots,(allow_no_loop) and anything check needs;
    check(ctx, st, r, rr, info) emits the obligations"""
    cfg = cfg or {}

    def run(ctx):
        I = ctx.I
        setup, check = body

        def path(st):
            install(st)
            fr = ip.Frame(st)
            d = setup(I, st, fr, cfg)
            gh = d.setdefault('ghost', Ghost())
            try:
                d['run'] = run_with_loop(I, st, fr, I.get_func(d['func']), d['args'], d['kwargs'], mode, havoc=d.get('havoc'), ghost=gh,
                                         declared=d.get('declared'), extra_roots=d.get('roots', ()), allow_no_loop=True)
            except ip.PyRaise as e:
                return ('raise', (e.exc, d))
            except looplib.PathCut:
                return ('cut', d)
            d['fr'] = fr
            return ('ok', d)
        info = dict(cfg, unit=name, mode=mode)
        n_ok = 0
        for st, (status, r) in ctx.explore(path):
            n_ok += status == 'ok'
            if status == 'cut':
                continue
            if status == 'raise':
                exc, d = r
                allowed = d.get('may_raise')
                if allowed is not None and allowed(exc, st, d):
                    continue
                ctx.fail(st, 'no_raise', 'raises %s' % lib.exc_desc(exc), info)
                continue
            check(ctx, st, r, r['run'], info, mode)
        if n_ok == 0:
            ctx.unsupported('unit', 'no path of %s completes normally under the contract\'s precondition (vacuous)' % name)
    tag = '/'.join('%s=%s' % kv for kv in sorted(cfg.items()))
    return Unit('%s/%s%s' % (name, mode, ('/' + tag) if tag else ''), run, funcs=funcs, config=dict(cfg, mode=mode), **ukw)


# ---------------------------------------------------------------------------------------------------------
# CG on the normal equations: residual

def _cgn():
    def setup(I, st, fr, cfg):
        X = makers.tspace(I, st, 'X', 'real')
        Y = makers.tspace(I, st, 'Y', 'real')
        A = AbsOp(I, 'A', X, Y, True)
        rhs = Y.element('b')
        x = X.element(cont=var('x0'))
        xk, pk = var('x_k'), var('p_k')
        b = content(rhs)
        dk = lin((1, b), (-1, app(A, xk)))
        sk = adj_sym_app(A, dk)

        def havoc(loc, fr_, run):
            set_content(x, xk)
            set_content(loc['d'], dk)                         # d = b - A x
            set_content(loc['p'], pk)
            st.assume(core.sc_eq(ginner(st, sk, pk), ginner(st, sk, sk)))       # <A* d, p> = ||A* d||^2
            loc['sqnorm_s_old'] = ginner(st, sk, sk)
            st.assume(core.sc_eq(ginner(st, app(A, sk), app(A, pk)), sqnorm(st, app(A, pk))))       # <A s, A p> = ||A p||^2
            set_content(loc['s'], VFresh('junk_s', 'real'))
            set_content(loc['q'], VFresh('junk_q', 'real'))
            # A* d = 0  ==>  A p = 0 (then the body returns before dividing)
            st.assume(core.s_or(core.s_not(core.sc_eq(ginner(st, sk, sk), 0)), core.sc_eq(sqnorm(st, app(A, pk)), 0)))
        havoc.keep_scalars = ('sqnorm_s_old',)
        return dict(func=IT + 'conjugate_gradient_normal', args=[A.op, x, rhs, niter_sym(st)], kwargs={}, havoc=havoc,
                    declared=lambda loc: [x, loc['d'], loc['p'], loc['s'], loc['q']], roots=[x], x=x, A=A, b=b, xk=xk, pk=pk, dk=dk, sk=sk)

    def check(ctx, st, r, rr, info, mode):
        low = st.lower
        A, b = r['A'], r['b']
        if rr.head is None:
            return
        if mode == 'init':
            h = rr.head
            d0, p0 = rr.head_content[id(h['d'])], rr.head_content[id(h['p'])]
            s0 = adj_sym_app(A, d0)
            ctx.prove(st, 'init: d == b - A x', eqv(low, d0, lin((1, b), (-1, app(A, var('x0'))))), info)
            ctx.prove(st, 'init: <A* d, p> == ||A* d||^2', core.sc_eq(ginner(st, s0, p0), ginner(st, s0, s0)), info)
            ctx.prove(st, 'init: sqnorm_s_old == ||A* d||^2', core.sc_eq(h['sqnorm_s_old'], ginner(st, s0, s0)), info)
            N = S(z3.Real('N_A'))
            st.assume(N >= 0)
            opnorm_fact(st, A, N, s0)
            ctx.prove(st, 'init: <A s, A p> == ||A p||^2', core.sc_eq(ginner(st, app(A, s0), app(A, p0)), sqnorm(st, app(A, p0))), info)
            ctx.prove(st, 'init: A* d == 0 ==> A p == 0', core.s_or(core.s_not(core.sc_eq(ginner(st, s0, s0), 0)), core.sc_eq(sqnorm(st, app(A, p0)), 0)), info)
            ctx.prove(st, 'init: x untouched', eqv(low, rr.head_content[id(r['x'])], var('x0')), info)
            return
        x1 = rr.post_content[id(r['x'])]
        if rr.body_exit == 'return':
            ctx.prove(st, 'step: early return leaves x alone', eqv(low, x1, r['xk']), info)
            return
        p = rr.post
        d1, p1 = rr.post_content[id(p['d'])], rr.post_content[id(p['p'])]
        s1 = adj_sym_app(A, d1)
        ctx.prove(st, 'step: invariant d == b - A x re-established', eqv(low, d1, lin((1, b), (-1, app(A, x1)))), info)
        ctx.prove(st, 'step: invariant <A* d, p> == ||A* d||^2 re-established', core.sc_eq(ginner(st, s1, p1), ginner(st, s1, s1)), info)
        ctx.prove(st, 'step: invariant sqnorm_s_old == ||A* d||^2 re-established', core.sc_eq(p['sqnorm_s_old'], ginner(st, s1, s1)), info)
        # A* d' = 0 ==> A p' = 0:  p' = s' + b p with b = ||s'||^2 / ||s||^2 = 0, and ||A s'||^2 vanishes with s' (operator-norm instance)
        N = S(z3.Real('N_A'))
        st.assume(N >= 0)
        opnorm_fact(st, A, N, s1)
        ctx.prove(st, 'step: invariant A* d == 0 ==> A p == 0 re-established  (no 0/0)', core.s_or(core.s_not(core.sc_eq(ginner(st, s1, s1), 0)), core.sc_eq(sqnorm(st, app(A, p1)), 0)), info)
        ctx.prove(st, 'step: invariant <A s, A p> == ||A p||^2 re-established', core.sc_eq(ginner(st, app(A, s1), app(A, p1)), sqnorm(st, app(A, p1))), info)
        ctx.prove(st, 'step: residual does not increase  ||b - A x\'|| <= ||b - A x||', sqnorm(st, d1) <= sqnorm(st, r['dk']), info)
        ctx.prove(st, 'step: consecutive directions conjugate w.r.t. A*A  <A p\', A p> == 0  (pins b)', core.sc_eq(ginner(st, app(A, p1), app(A, r['pk'])), 0), info)
        ctx.prove(st, 'step: s == A* d after the body', eqv(low, rr.post_content[id(p['s'])], s1), info)
    return setup, check


# ---------------------------------------------------------------------------------------------------------
# Landweber: residual;  Kaczmarz: distance to a solution

def _landweber():
    def setup(I, st, fr, cfg):
        X = makers.tspace(I, st, 'X', 'real')
        Y = makers.tspace(I, st, 'Y', 'real')
        A = AbsOp(I, 'A', X, Y, True)
        rhs = Y.element('b')
        x = X.element(cont=var('x0'))
        xk = var('x_k')
        omega = makers.pos_scalar(st, 'omega')
        N = S(z3.Real('N_A'))
        st.assume(N >= 0)
        st.assume(omega * N * N <= 2)                # admissible relaxation: 0 < omega <= 2 / ||A||^2

        def havoc(loc, fr_, run):
            set_content(x, xk)
            set_content(loc['tmp_ran'], VFresh('junk_ran', 'real'))
            set_content(loc['tmp_dom'], VFresh('junk_dom', 'real'))
        return dict(func=IT + 'landweber', args=[A.op, x, rhs, niter_sym(st)], kwargs={'omega': omega}, havoc=havoc,
                    declared=lambda loc: [x, loc['tmp_ran'], loc['tmp_dom']], roots=[x], x=x, A=A, b=content(rhs), xk=xk, N=N, omega=omega)

    def check(ctx, st, r, rr, info, mode):
        if mode == 'init' or rr.head is None:
            return
        A, b, N = r['A'], r['b'], r['N']
        x1 = rr.post_content[id(r['x'])]
        res0 = lin((1, app(A, r['xk'])), (-1, b))
        res1 = lin((1, app(A, x1)), (-1, b))
        opnorm_fact(st, A, N, adj_sym_app(A, res0))           # ||A A* r||^2 <= N^2 ||A* r||^2
        ctx.prove(st, 'step: residual does not increase  ||A x\' - b|| <= ||A x - b||  (0 < omega <= 2/||A||^2)', sqnorm(st, res1) <= sqnorm(st, res0), info)
    return setup, check


def _kaczmarz():
    def setup(I, st, fr, cfg):
        m = cfg['m']
        X = makers.tspace(I, st, 'X', 'real')
        Ys = [makers.tspace(I, st, 'Y%d' % i, 'real') for i in range(m)]
        A = [AbsOp(I, 'A%d' % i, X, Ys[i], True) for i in range(m)]
        xs = var('x_star')
        rhs = [Ys[i].element(cont=app(A[i], xs)) for i in range(m)]          # consistent system A_i x* = b_i
        x = X.element(cont=var('x0'))
        xk = var('x_k')
        om_ = [makers.pos_scalar(st, 'omega%d' % i) for i in range(m)]
        Ns = []
        for i in range(m):
            N = S(z3.Real('N_A%d' % i))
            st.assume(N >= 0)
            st.assume(om_[i] * N * N <= 2)
            Ns.append(N)

        oracle = looplib.PermOracle(m)
        st.ext_cuts = {'numpy.random.permutation': oracle}

        def havoc(loc, fr_, run):
            set_content(x, xk)
            for e in looplib.reachable_elems([loc['tmp_rans'], loc['tmp_dom']]):
                set_content(e, VFresh('junk%d' % (id(e) % 997), 'real'))
        return dict(func=IT + 'kaczmarz', args=[[a.op for a in A], x, rhs, niter_sym(st)], kwargs={'omega': list(om_), 'random': bool(cfg.get('random'))}, havoc=havoc,
                    declared=lambda loc: [x, loc['tmp_rans'], loc['tmp_dom']], roots=[x], x=x, A=A, xs=xs, xk=xk, Ns=Ns, omega=om_, m=m, oracle=oracle)

    def check(ctx, st, r, rr, info, mode):
        if mode == 'init' or rr.head is None:
            return
        A, xs, Ns, om_ = r['A'], r['xs'], r['Ns'], r['omega']
        x1 = rr.post_content[id(r['x'])]
        e0 = lin((1, r['xk']), (-1, xs))
        e1 = lin((1, x1), (-1, xs))
        # decomposition: sweep = composition of sub-steps e_{j+1} = e_j - omega_i A_i* A_i e_j (code-dependent identities),
        # each sub-step is non-expansive by an abstract arithmetic lemma using one operator-norm instance
        import itertools as it
        orders = [tuple(range(r['m']))] if not info.get('random') else list(it.permutations(range(r['m'])))
        order = r['oracle'].order if info.get('random') else orders[0]
        if order is None:
            ctx.fail(st, 'random sweep consults np.random.permutation', 'no permutation was drawn', info)
            return
        e = e0
        n = [S(z3.Real('n_0'))]
        hyps = []
        for j, i in enumerate(order):
            w = app(A[i], e)
            g = adj_sym_app(A[i], w)
            e_next = lin((1, e), (-om_[i], g))
            ctx.prove(st, 'step: sub-step %d expands as  ||e - w A*A e||^2 == ||e||^2 - 2 w ||A e||^2 + w^2 ||A*A e||^2' % j,
                      core.sc_eq(sqnorm(st, e_next), sqnorm(st, e) - 2 * om_[i] * sqnorm(st, w) + om_[i] * om_[i] * sqnorm(st, g)), info)
            a_j, c_j, w_j, N_j = S(z3.Real('a_%d' % j)), S(z3.Real('c_%d' % j)), S(z3.Real('w_%d' % j)), S(z3.Real('N_%d' % j))
            n.append(S(z3.Real('n_%d' % (j + 1))))
            hyps += [a_j >= 0, c_j >= 0, N_j >= 0, w_j > 0, w_j * N_j * N_j <= 2, c_j <= N_j * N_j * a_j,      # ||A* w|| <= N ||w|| at w = A e_j
                     core.sc_eq(n[j + 1], n[j] - 2 * w_j * a_j + w_j * w_j * c_j)]
            e = e_next
        ctx.prove(st, 'step: the iterate after the sweep is the composition of the sub-steps  x\' - x* == e_m', eqv(st.lower, e1, e), info)
        ctx.prove_lemma('lemma: m non-expansive sub-steps  n_{j+1} = n_j - 2 w a + w^2 c, c <= N^2 a, 0 < w <= 2/N^2  ==>  n_m <= n_0 (m=%d)' % len(order),
                        hyps, n[-1] <= n[0], info)
    return setup, check


# ---------------------------------------------------------------------------------------------------------
# backtracking line search (while-loop contract) and steepest descent

def make_backtracking(I, st, fr, f, cfg):
    """the real BacktrackingLineSearch object with symbolic admissible parameters, and the while-loop contract of its __call__"""
    tau = S(z3.Real('ls_tau'))
    st.assume(tau > 0)
    st.assume(tau < 1)
    disc = S(z3.Real('ls_discount'))
    st.assume(disc > 0)
    st.assume(disc < 1)
    alpha0 = makers.pos_scalar(st, 'ls_alpha0')
    maxit = S(z3.Int('ls_max_num_iter'))
    st.assume(maxit >= 0)
    est = bool(cfg.get('estimate_step'))
    ls = I.call(I.get_class(SL + 'BacktrackingLineSearch'), [f.op], {'tau': tau, 'discount': disc, 'alpha': alpha0, 'max_num_iter': maxit, 'estimate_step': est}, fr)
    rec = {'entry': [], 'back': []}

    def inv(loc):
        a, dd = loc['alpha'], loc['dir_derivative']
        return core.s_and(core.sbool(a * dd < 0), core.sbool(core.S.lift(loc['num_iter']) >= 0))

    def on_entry(loc, fr_):
        rec['entry'].append((list(st.pc), inv(loc)))

    def havoc(loc, fr_):
        loc['alpha'] = S(z3.Real('ls_alpha_j'))
        loc['num_iter'] = S(z3.Int('ls_num_iter_j'))
        set_content(loc['point'], VFresh('junk_point', 'real'))
        for nm in ('fval', 'expected_decrease'):
            if nm in loc:
                loc[nm] = S(z3.Real('junk_' + nm))
        st.assume(inv(loc))

    def on_back(loc, fr_):
        rec['back'].append((list(st.pc), inv(loc)))
    looplib.while_contract(st, havoc, on_entry, on_back)
    return ls, dict(tau=tau, discount=disc, alpha0=alpha0, maxit=maxit, rec=rec)


def unit_backtracking(cfg):
    def run(ctx):
        I = ctx.I

        def path(st):
            install(st)
            fr = ip.Frame(st)
            X = makers.tspace(I, st, 'X', 'real')
            f = AbsFunc(I, st, 'f', X)
            ls, par = make_backtracking(I, st, fr, f, cfg)
            x, d = X.element('x'), X.element('d')
            dd = S(z3.Real('dir_derivative'))
            out = dict(par=par, f=f, x=x, d=d, dd=dd, fr=fr, ls=ls)
            try:
                out['alpha'] = I.call(ls, [x, d, dd], {}, fr)
            except ip.PyRaise as e:
                out['exc'] = e.exc
                return ('raise', out)
            except looplib.PathCut:
                return ('cut', out)
            return ('ok', out)
        info = dict(cfg, unit='backtracking')
        for st, (status, r) in ctx.explore(path):
            rec = r['par']['rec']
            for pc0, g in rec['entry']:
                ctx.prove(st, 'while invariant holds on entry  (alpha * dir_derivative < 0, num_iter >= 0)', g, info)
            for pc0, g in rec['back']:
                ctx.prove(st, 'while invariant preserved by an unsuccessful trial  (alpha <- tau * alpha)', g, info)
            if status == 'cut':
                continue
            I_, fr = ctx.I, r['fr']
            if status == 'raise':
                ctx.prove(st, 'only ValueError (no descent possible / iteration budget exhausted / invalid value) may be raised', I.exc_isinstance(r['exc'], 'ValueError'), dict(info, got=lib.exc_desc(r['exc'])))
                continue
            a = r['alpha']
            fx = sem(I, fr, r['f'].op, content(r['x']))
            fnew = sem(I, fr, r['f'].op, lin((1, content(r['x'])), (a, content(r['d']))))
            dec = abs(a * r['dd'] * r['par']['discount'])
            ctx.prove(st, 'returned step satisfies the Armijo condition  f(x + a d) <= f(x) - |a dd c|', fnew <= fx - dec, info)
            ctx.prove(st, 'returned step strictly decreases f', fnew < fx, info)
            ctx.prove(st, 'returned step has the descent sign  a * dir_derivative < 0', a * r['dd'] < 0, info)
            ctx.prove(st, 'x and direction untouched', core.s_and(core.sbool(eqv(st.lower, content(r['x']), var('x'))), core.sbool(eqv(st.lower, content(r['d']), var('d')))), info)
            ctx.prove(st, 'remembered step = |a|', core.sc_eq(I._getattr(r['ls'], 'alpha', fr), abs(a)), info)
    tag = '/'.join('%s=%s' % kv for kv in sorted(cfg.items()))
    return Unit('descent/backtracking/%s' % tag, run, funcs=[SL + 'BacktrackingLineSearch.__call__', SL + 'BacktrackingLineSearch.__init__'], config=cfg)


def _steepest():
    def setup(I, st, fr, cfg):
        X = makers.tspace(I, st, 'X', 'real')
        f = AbsFunc(I, st, 'f', X)
        ls, par = make_backtracking(I, st, fr, f, cfg)
        x = X.element(cont=var('x0'))
        xk = var('x_k')
        tol = S(z3.Real('tol'))
        st.assume(tol >= 0)

        def havoc(loc, fr_, run):
            set_content(x, xk)
            set_content(loc['grad_x'], VFresh('junk_grad', 'real'))
        return dict(func=GR + 'steepest_descent', args=[f.op, x], kwargs={'line_search': ls, 'maxiter': niter_sym(st, 'maxiter'), 'tol': tol}, havoc=havoc,
                    declared=lambda loc: [x, loc['grad_x']], roots=[x], x=x, f=f, xk=xk, par=par,
                    may_raise=lambda exc, st_, d: I.exc_isinstance(exc, 'ValueError') and 'steplen' in str(getattr(exc, 'raised_at', '')))

    def check(ctx, st, r, rr, info, mode):
        I, fr = ctx.I, r['fr']
        for pc0, g in r['par']['rec']['entry']:
            ctx.prove(st, 'line search: while invariant holds on entry', g, info)
        if mode == 'init' or rr.head is None:
            return
        x1 = rr.post_content[id(r['x'])]
        f0, f1 = sem(I, fr, r['f'].op, r['xk']), sem(I, fr, r['f'].op, x1)
        if rr.body_exit == 'return':
            ctx.prove(st, 'step: early return (gradient below tol) leaves x alone', eqv(st.lower, x1, r['xk']), info)
            return
        ctx.prove(st, 'step: objective never increases  f(x\') <= f(x)  (backtracking line search)', f1 <= f0, info)
        g = sem(I, fr, r['f'].gradient_op().op, r['xk'])
        step = rr.post.get('step')
        ctx.prove(st, 'step: x\' == x - step * grad f(x)', eqv(st.lower, x1, lin((1, r['xk']), (-core._sc(step), g))), info)
        ctx.prove(st, 'step: the step is positive', core._sc(step) > 0, info)
    return setup, check


# ---------------------------------------------------------------------------------------------------------
# power method: the estimate never exceeds the operator norm

def _power():
    def setup(I, st, fr, cfg):
        X = makers.tspace(I, st, 'X', 'real')
        sa = bool(cfg.get('self_adjoint'))
        Y = X if sa else makers.tspace(I, st, 'Y', 'real')
        A = AbsOp(I, 'A', X, Y, True)
        if sa:
            self_adjoint(A)
        xstart = X.element('xstart')
        xk = var('x_k')
        N = S(z3.Real('N_A'))
        st.assume(N >= 0)
        maxiter = S(z3.Int('maxiter'))
        half = S(z3.Int('maxiter_half'))
        st.assume(maxiter >= 1)                      # admissible budget: positive, even for operators that are not self-adjoint
        if not sa:
            st.assume(core.sc_eq(maxiter, 2 * half))

        def msg(exc):
            a = exc.fields.get('args') or ('',)
            return str(a[0])

        def havoc(loc, fr_, run):
            set_content(loc['x'], xk)
            st.assume(core.sc_eq(sqnorm(st, xk), 1))              # invariant: the current vector is normalised
            set_content(loc['tmp'], VFresh('junk_tmp', 'real'))
            # ||A v|| <= N ||v|| for all v (definition of an upper bound N of the operator norm), at the two vectors of the body
            opnorm_fact(st, A, N, xk)
            if not sa:
                w = app(A, xk)
                st.assume(sqnorm(st, adj_sym_app(A, w)) <= N * N * sqnorm(st, w))
        return dict(func=OU + 'power_method_opnorm', args=[A.op], kwargs={'xstart': xstart, 'maxiter': maxiter, 'rtol': S(z3.Real('rtol')), 'atol': S(z3.Real('atol'))},
                    havoc=havoc, declared=lambda loc: [loc['x'], loc['tmp']], roots=[xstart], A=A, N=N, xstart=xstart, sa=sa,
                    may_raise=lambda exc, st_, d: I.exc_isinstance(exc, 'ValueError') and ('nonzero' in msg(exc) or 'reached' in msg(exc)))

    def check(ctx, st, r, rr, info, mode):
        if rr.head is None:
            ctx.fail(st, 'loop reached', 'power_method_opnorm returned without iterating', info)
            return
        if mode == 'init':
            h = rr.head
            ctx.prove(st, 'init: at least one iteration is performed', core.S.lift(rr.n_it) >= 1, info)
            ctx.prove(st, 'init: start vector normalised', core.sc_eq(sqnorm(st, rr.head_content[id(h['x'])]), 1), info)
            ctx.prove(st, 'init: xstart untouched', eqv(st.lower, content(r['xstart']), var('xstart')), info)
            ctx.prove(st, 'init: normal equations are used exactly for operators that are not their own adjoint', bool(h['use_normal']) == (not r['sa']), info)
            return
        ctx.prove(st, 'step: returned estimate <= N for every N with ||A v|| <= N ||v||', core._sc(rr.ret) <= r['N'], info)
        ctx.prove(st, 'step: estimate after the iteration <= N', core._sc(rr.post['opnorm']) <= r['N'], info)
        if rr.body_exit is None:
            ctx.prove(st, 'step: vector normalised again for the next iteration', core.sc_eq(sqnorm(st, rr.post_content[id(rr.post['x'])]), 1), info)
        ctx.prove(st, 'step: xstart untouched', eqv(st.lower, content(r['xstart']), var('xstart')), info)
    return setup, check


# ---------------------------------------------------------------------------------------------------------
# non-smooth solvers: documented update, fixed point <=> first-order optimality

def apply_op(I, fr, op, v, space):
    e = space.element(cont=v)
    return content(I.call(op, [e], {}, fr))


def conj_prox(I, fr, g, sigma, v, space):
    """the library's prox_{sigma g*}(v) (g.convex_conj.proximal(sigma) applied out of place)"""
    gc = I._getattr(g.op, 'convex_conj', fr)
    P = I.call(I._getattr(gc, 'proximal', fr), [sigma], {}, fr)
    return apply_op(I, fr, P, v, space)


def prox(I, fr, f, tau, v):
    P = flib.ProxFactory(f).pv_call(I, fr, [tau], {})
    return sem(I, fr, P, v)


def grad(I, fr, h, v):
    return sem(I, fr, h.gradient_op().op, v)


def assume_veq(st, u, v, through=()):
    """hypothesis u == v (all indices), with the congruence instances  A u == A v  for the listed abstract operators"""
    low = st.lower
    st.assume(lib.eq_goal(low, u, v))
    for A in through:
        st.assume(lib.eq_goal(low, VApp(A, (u,), 'real'), VApp(A, (v,), 'real')))


def prove_inclusion(ctx, st, I, fr, name, h, P, g, info):
    """g in subdiff h(P) through the prox characterisation of the abstract leaves"""
    alts = flib.require_subgrad(I, fr, h, P, g)
    if not alts:
        ctx.fail(st, name, 'no proximal atom of the functional occurs in the point: the inclusion cannot be derived', info)
        return
    disj = [z3.And(*[lib.eq_goal(st.lower, a, b).t for a, b in eqs]) for eqs in alts]
    ctx.prove(st, name, S(z3.Or(*disj)), info)


class Scheme(object):
    """sidecar contract of an iterative scheme: world, exposed state, documented update, optimality system"""
    temps = ()
    keep = ()
    bounded_in = None

    def kwargs(self, w, o, cfg):
        return {}


def unit_scheme(Sc, what, cfg=None):
    cfg = cfg or {}

    def run(ctx):
        I = ctx.I

        def path(st):
            install(st)
            fr = ip.Frame(st)
            w = Sc.world(I, st, fr, cfg)
            o = Sc.objs(w, cfg)
            gen = {}
            cur = {}
            sol = Sc.solution(I, st, fr, w, cfg) if what == 'kkt_to_fixed' else None

            def havoc(loc, fr_, run):
                stt = cur['state'] = Sc.state(loc, o, cfg)
                for l, e in stt.items():
                    gen[l] = sol[l] if sol is not None else var(l + '_k')
                    set_content(e, gen[l])
                for n in Sc.temps:
                    if n in loc:
                        for t_i, e in enumerate(looplib.reachable_elems([loc[n]])):
                            if all(e is not s_ for s_ in stt.values()):
                                set_content(e, VFresh('junk_%s%d' % (n, t_i), 'real'))
                Sc.havoc_scalars(loc, w, cfg, st)
            havoc.keep_scalars = Sc.keep
            args, kw = Sc.call(w, o, cfg)
            try:
                r = run_with_loop(I, st, fr, I.get_func(Sc.func), args, kw, 'step', havoc=havoc, ghost=None,
                                  declared=lambda loc: list(Sc.state(loc, o, cfg).values()) + [loc[n] for n in Sc.temps if n in loc], extra_roots=list(o.values()))
            except ip.PyRaise as e:
                return ('raise', e.exc)
            return ('ok', dict(w=w, fr=fr, run=r, o=o, gen=gen, state=cur.get('state'), sol=sol))
        info = dict(cfg, solver=Sc.name, what=what)
        n_ok = 0
        for st, (status, r) in ctx.explore(path):
            if status == 'raise':
                ctx.fail(st, 'no_raise', 'raises %s' % lib.exc_desc(r), info)
                continue
            n_ok += 1
            low = st.lower
            fr, w, rr, gen = r['fr'], r['w'], r['run'], r['gen']
            ps = Sc.state(rr.post, r['o'], cfg)
            post = {l: rr.post_content[id(e)] for l, e in ps.items()}
            if what == 'update':
                F = Sc.update(gen, I, fr, w, cfg, rr)
                for l in F:
                    why = Sc.diagnose(l, gen, post, I, fr, w, cfg, st) if hasattr(Sc, 'diagnose') else None
                    ctx.prove(st, 'one body execution: %s == documented update' % l, eqv(low, post[l], F[l]), dict(info, why=why) if why else info)
                for nm, val in Sc.scalar_update(rr, w, cfg).items():
                    ctx.prove(st, 'one body execution: %s == documented update' % nm, core.sc_eq(rr.post[nm], val), info)
                out = Sc.output(rr, r['o'], post, cfg)
                if out is not None:
                    ctx.prove(st, 'returned / exposed iterate is the documented one', eqv(low, out[0], out[1]), info)
            elif rr.body_exit == 'return':
                continue        # the final hand-over iteration is not the iteration map
            elif what == 'fixed_to_kkt':
                for l in Sc.fixed_labels(cfg, ps):
                    assume_veq(st, post[l], gen[l], Sc.congruence_ops(w, l))
                def derive(u, v, through=(), why=''):
                    # lemma use: an equality that follows from the hypotheses is proved first, then its congruence instances are available
                    if ctx.prove(st, 'derived equality at the fixed point%s' % ((': ' + why) if why else ''), eqv(low, u, v), info):
                        assume_veq(st, u, v, through)
                Sc.derive = derive
                incl = Sc.kkt(gen, post, I, fr, w, cfg)
                if not ctx.cover(st, 'fixed-point hypotheses satisfiable'):
                    continue
                for name, h, P, g in incl:
                    prove_inclusion(ctx, st, I, fr, 'a state left unchanged by the body satisfies: ' + name, h, P, g, info)
            else:
                if not ctx.cover(st, 'solution hypotheses satisfiable'):
                    continue
                for l in Sc.fixed_labels(cfg, ps):
                    ctx.prove(st, 'a primal-dual solution is left unchanged by the body: %s' % l, eqv(low, post[l], gen[l]), info)
        if n_ok == 0:
            ctx.unsupported('unit', 'no path completes normally (vacuous)')
    tag = '/'.join('%s=%s' % kv for kv in sorted(cfg.items()))
    return Unit('kkt/%s/%s%s' % (Sc.name, what, ('/' + tag) if tag else ''), run, funcs=[Sc.func], config=dict(cfg, what=what), bounded_in=Sc.bounded_in)


class PdhgScheme(Scheme):
    name = 'pdhg'
    func = PDHG + 'pdhg'
    temps = ('x_old', 'dual_tmp', 'primal_tmp')

    @property
    def keep(self):
        return ('tau', 'sigma', 'theta')

    def world(self, I, st, fr, cfg):
        X = makers.tspace(I, st, 'X', 'real')
        Y = makers.tspace(I, st, 'Y', 'real')
        theta = S(z3.Real('theta'))
        st.assume(theta >= 0)
        st.assume(theta <= 1)
        w = dict(X=X, Y=Y, L=AbsOp(I, 'L', X, Y, True), f=AbsFunc(I, st, 'f', X), g=AbsFunc(I, st, 'g', Y),
                 tau=makers.pos_scalar(st, 'tau'), sigma=makers.pos_scalar(st, 'sigma'), theta=theta, niter=niter_sym(st))
        if cfg.get('accel'):
            w['gamma'] = makers.pos_scalar(st, 'gamma')
        return w

    def objs(self, w, cfg):
        return {'x': w['X'].element(cont=var('x0')), 'x_relax': w['X'].element(cont=var('xr0')), 'y': w['Y'].element(cont=var('y0'))}

    def state(self, loc, o, cfg):
        return dict(o)

    def call(self, w, o, cfg):
        kw = {'tau': w['tau'], 'sigma': w['sigma'], 'x_relax': o['x_relax'], 'y': o['y'], 'theta': w['theta']}
        if cfg.get('accel'):
            kw['gamma_' + cfg['accel']] = w['gamma']
        return [o['x'], w['f'].op, w['g'].op, w['L'].op, w['niter']], kw

    def havoc_scalars(self, loc, w, cfg, st):
        if cfg.get('accel'):
            # accelerated variant: tau, sigma, theta are loop-carried; generic positive values
            for nm in ('tau', 'sigma'):
                loc[nm] = makers.pos_scalar(st, nm + '_k')
            loc['theta'] = S(z3.Real('theta_k'))

    def update(self, gen, I, fr, w, cfg, rr):
        x, xr, y = gen['x'], gen['x_relax'], gen['y']
        tau, sigma = rr.head['tau'], rr.head['sigma']
        y1 = conj_prox(I, fr, w['g'], sigma, lin((1, y), (sigma, app(w['L'], xr))), w['Y'])
        x1 = prox(I, fr, w['f'], tau, lin((1, x), (-tau, adj_sym_app(w['L'], y1))))
        theta = rr.post['theta']
        return {'x': x1, 'y': y1, 'x_relax': lin((1 + theta, x1), (-theta, x))}

    def scalar_update(self, rr, w, cfg):
        tau, sigma = rr.head['tau'], rr.head['sigma']
        if cfg.get('accel') == 'primal':
            th = 1 / core.ssqrt(1 + 2 * w['gamma'] * tau)
            return {'theta': th, 'tau': tau * th, 'sigma': sigma / th}
        if cfg.get('accel') == 'dual':
            th = 1 / core.ssqrt(1 + 2 * w['gamma'] * sigma)
            return {'theta': th, 'tau': tau / th, 'sigma': sigma * th}
        return {'theta': rr.head['theta'], 'tau': tau, 'sigma': sigma}

    def output(self, rr, o, post, cfg):
        return None

    def fixed_labels(self, cfg, ps):
        return ['x', 'x_relax', 'y']

    def congruence_ops(self, w, l):
        return [w['L'].op.opsym] if l in ('x', 'x_relax') else [oplib.adjoint_sym(w['L'].op.opsym)]

    def kkt(self, gen, post, I, fr, w, cfg):
        # at a fixed point x_relax' = x_relax and x' = x force x_relax = x
        st = fr.st
        assume_veq(st, gen['x_relax'], post['x'], [w['L'].op.opsym])
        gc = I._getattr(w['g'].op, 'convex_conj', fr)
        return [('-L* y in subdiff f(x)', w['f'].op, post['x'], lin((-1, adj_sym_app(w['L'], post['y'])))),
                ('L x in subdiff g*(y)', gc, post['y'], app(w['L'], post['x']))]

    def solution(self, I, st, fr, w, cfg):
        xs, ys = var('x_star'), var('y_star')
        tau, sigma = w['tau'], w['sigma']
        # optimality system in resolvent form (equivalent to  -L* y* in subdiff f(x*),  L x* in subdiff g*(y*)  by the prox characterisation)
        st.assume(eqv(st.lower, conj_prox(I, fr, w['g'], sigma, lin((1, ys), (sigma, app(w['L'], xs))), w['Y']), ys))
        st.assume(eqv(st.lower, prox(I, fr, w['f'], tau, lin((1, xs), (-tau, adj_sym_app(w['L'], ys)))), xs))
        return {'x': xs, 'x_relax': xs, 'y': ys}


class FbScheme(Scheme):
    """forward-backward primal-dual (Condat / Vu):  x+ = prox_{tau f}(x - tau (grad h(x) + sum L_i* v_i)),  y = 2 x+ - x,
    v_i+ = prox_{sigma_i g_i*}(v_i + sigma_i (L_i y - grad l_i*(v_i)))"""
    name = 'forward_backward_pd'
    func = FB + 'forward_backward_pd'
    temps = ('y',)
    bounded_in = 'number of operators m in {1, 2}; every niter'

    def world(self, I, st, fr, cfg):
        m = cfg.get('m', 1)
        X = makers.tspace(I, st, 'X', 'real')
        Ys = [makers.tspace(I, st, 'Y', 'real')] * m if cfg.get('shared_range') else [makers.tspace(I, st, 'Y%d' % i, 'real') for i in range(m)]
        w = dict(X=X, Ys=Ys, L=[AbsOp(I, 'L%d' % i, X, Ys[i], True) for i in range(m)], f=AbsFunc(I, st, 'f', X), h=AbsFunc(I, st, 'h', X),
                 g=[AbsFunc(I, st, 'g%d' % i, Ys[i]) for i in range(m)], tau=makers.pos_scalar(st, 'tau'),
                 sigma=[makers.pos_scalar(st, 'sigma%d' % i) for i in range(m)], niter=niter_sym(st), m=m)
        return w

    def objs(self, w, cfg):
        return {'x': w['X'].element(cont=var('x0'))}

    def state(self, loc, o, cfg):
        d = {'x': o['x']}
        for i, e in enumerate(loc['v']):
            d['v%d' % i] = e
        return d

    def call(self, w, o, cfg):
        return [o['x'], w['f'].op, [g.op for g in w['g']], [L.op for L in w['L']], w['h'].op, w['tau'], list(w['sigma']), w['niter']], {}

    def havoc_scalars(self, loc, w, cfg, st):
        pass

    def update(self, gen, I, fr, w, cfg, rr):
        x = gen['x']
        tau = w['tau']
        s_ = [(1, grad(I, fr, w['h'], x))] + [(1, adj_sym_app(w['L'][i], gen['v%d' % i])) for i in range(w['m'])]
        x1 = prox(I, fr, w['f'], tau, lin((1, x), *[(-tau * c, t) for c, t in s_]))
        y = lin((2, x1), (-1, x))
        out = {'x': x1}
        for i in range(w['m']):
            sg = w['sigma'][i]
            out['v%d' % i] = conj_prox(I, fr, w['g'][i], sg, lin((1, gen['v%d' % i]), (sg, app(w['L'][i], y))), w['Ys'][i])
        return out

    def diagnose(self, l, gen, post, I, fr, w, cfg, st):
        """recognise the recorded finding: the dual update is computed with y = x_new (x_old is an alias of x) instead of y = 2 x_new - x_old"""
        if not l.startswith('v'):
            return None
        from pyvc import vc
        i = int(l[1:])
        x = gen['x']
        tau = w['tau']
        s_ = [(1, grad(I, fr, w['h'], x))] + [(1, adj_sym_app(w['L'][j], gen['v%d' % j])) for j in range(w['m'])]
        x1 = prox(I, fr, w['f'], tau, lin((1, x), *[(-tau * c, t) for c, t in s_]))
        sg = w['sigma'][i]
        aliased = conj_prox(I, fr, w['g'][i], sg, lin((1, gen[l]), (sg, app(w['L'][i], x1))), w['Ys'][i])
        v = vc.prove(list(st.pc), core.side_conditions(), eqv(st.lower, post[l], aliased), quick=True)
        return 'dual update uses y == x_new: x_old aliases x (no over-relaxation)' if v.status == 'proved' else None

    def scalar_update(self, rr, w, cfg):
        return {}

    def output(self, rr, o, post, cfg):
        return None

    def fixed_labels(self, cfg, ps):
        return list(ps)

    def congruence_ops(self, w, l):
        return [L.op.opsym for L in w['L']] if l == 'x' else []

    def kkt(self, gen, post, I, fr, w, cfg):
        m = w['m']
        out = [('-(grad h(x) + sum L_i* v_i) in subdiff f(x)', w['f'].op, post['x'],
                lin((-1, grad(I, fr, w['h'], post['x'])), *[(-1, adj_sym_app(w['L'][i], post['v%d' % i])) for i in range(m)]))]
        # the gradient of h is evaluated at the previous iterate: congruence instance for grad h at the fixed point
        assume_veq(fr.st, grad(I, fr, w['h'], gen['x']), grad(I, fr, w['h'], post['x']))
        for i in range(m):
            assume_veq(fr.st, adj_sym_app(w['L'][i], gen['v%d' % i]), adj_sym_app(w['L'][i], post['v%d' % i]))
            gc = I._getattr(w['g'][i].op, 'convex_conj', fr)
            out.append(('L_%d x in subdiff g_%d*(v_%d)' % (i, i, i), gc, post['v%d' % i], app(w['L'][i], post['x'])))
        return out

    def solution(self, I, st, fr, w, cfg):
        xs = var('x_star')
        tau = w['tau']
        sol = {'x': xs}
        vs = [var('v_star%d' % i) for i in range(w['m'])]
        terms = [(1, grad(I, fr, w['h'], xs))] + [(1, adj_sym_app(w['L'][i], vs[i])) for i in range(w['m'])]
        st.assume(eqv(st.lower, prox(I, fr, w['f'], tau, lin((1, xs), *[(-tau * c, t) for c, t in terms])), xs))
        for i in range(w['m']):
            sg = w['sigma'][i]
            st.assume(eqv(st.lower, conj_prox(I, fr, w['g'][i], sg, lin((1, vs[i]), (sg, app(w['L'][i], xs))), w['Ys'][i]), vs[i]))
            sol['v%d' % i] = vs[i]
        return sol


class ProxGradScheme(Scheme):
    """x+ = (1 - lam) x + lam prox_{gamma f}(x - gamma grad g(x));  optimality  -grad g(x) in subdiff f(x)"""
    name = 'proximal_gradient'
    func = PG + 'proximal_gradient'
    temps = ('tmp',)

    def world(self, I, st, fr, cfg):
        X = makers.tspace(I, st, 'X', 'real')
        lam = S(z3.Real('lam'))
        st.assume(lam > 0)
        st.assume(lam < 2)
        return dict(X=X, f=AbsFunc(I, st, 'f', X), g=AbsFunc(I, st, 'g', X), gamma=makers.pos_scalar(st, 'gamma'), lam=lam, niter=niter_sym(st))

    def objs(self, w, cfg):
        return {'x': w['X'].element(cont=var('x0'))}

    def state(self, loc, o, cfg):
        return dict(o)

    def call(self, w, o, cfg):
        return [o['x'], w['f'].op, w['g'].op], {'gamma': w['gamma'], 'niter': w['niter'], 'lam': w['lam']}

    def havoc_scalars(self, loc, w, cfg, st):
        pass

    def _p(self, x, I, fr, w):
        return prox(I, fr, w['f'], w['gamma'], lin((1, x), (-w['gamma'], grad(I, fr, w['g'], x))))

    def update(self, gen, I, fr, w, cfg, rr):
        return {'x': lin((1 - w['lam'], gen['x']), (w['lam'], self._p(gen['x'], I, fr, w)))}

    def scalar_update(self, rr, w, cfg):
        return {}

    def output(self, rr, o, post, cfg):
        return None

    def fixed_labels(self, cfg, ps):
        return ['x']

    def congruence_ops(self, w, l):
        return []

    def kkt(self, gen, post, I, fr, w, cfg):
        # x' = x with lam != 0 forces prox(...) = x; optimality is stated at the proximal point
        p = self._p(gen['x'], I, fr, w)
        assume_veq(fr.st, grad(I, fr, w['g'], gen['x']), grad(I, fr, w['g'], p))
        return [('-grad g(x) in subdiff f(x)', w['f'].op, p, lin((-1, grad(I, fr, w['g'], p))))]

    def solution(self, I, st, fr, w, cfg):
        xs = var('x_star')
        st.assume(eqv(st.lower, self._p(xs, I, fr, w), xs))
        return {'x': xs}


class AccelProxGradScheme(ProxGradScheme):
    """FISTA:  t+ = (1 + sqrt(1 + 4 t^2))/2, a = (t - 1)/t+,  x+ = prox_{gamma f}(y - gamma grad g(y)),  y+ = x+ + a (x+ - x)"""
    name = 'accelerated_proximal_gradient'
    func = PG + 'accelerated_proximal_gradient'
    temps = ('tmp',)

    def world(self, I, st, fr, cfg):
        X = makers.tspace(I, st, 'X', 'real')
        return dict(X=X, f=AbsFunc(I, st, 'f', X), g=AbsFunc(I, st, 'g', X), gamma=makers.pos_scalar(st, 'gamma'), niter=niter_sym(st))

    def state(self, loc, o, cfg):
        return {'x': o['x'], 'y': loc['y']}

    def call(self, w, o, cfg):
        return [o['x'], w['f'].op, w['g'].op], {'gamma': w['gamma'], 'niter': w['niter']}

    def havoc_scalars(self, loc, w, cfg, st):
        t = S(z3.Real('t_k'))
        st.assume(t >= 1)
        loc['t'] = t

    def update(self, gen, I, fr, w, cfg, rr):
        t = rr.head['t']
        t1 = (1 + core.ssqrt(1 + 4 * t * t)) / 2
        a = (t - 1) / t1
        x1 = self._p(gen['y'], I, fr, w)
        return {'x': x1, 'y': lin((1 + a, x1), (-a, gen['x']))}

    def scalar_update(self, rr, w, cfg):
        t = rr.head['t']
        return {'t': (1 + core.ssqrt(1 + 4 * t * t)) / 2}

    def fixed_labels(self, cfg, ps):
        return ['x', 'y']

    def kkt(self, gen, post, I, fr, w, cfg):
        # x' = x and y' = y force y = x' (y' = x' + a (x' - x) = x'), so x' = prox(x' - gamma grad g(x'))
        assume_veq(fr.st, grad(I, fr, w['g'], gen['y']), grad(I, fr, w['g'], post['x']))
        return [('-grad g(x) in subdiff f(x)', w['f'].op, post['x'], lin((-1, grad(I, fr, w['g'], post['x']))))]

    def solution(self, I, st, fr, w, cfg):
        xs = var('x_star')
        st.assume(eqv(st.lower, self._p(xs, I, fr, w), xs))
        return {'x': xs, 'y': xs}


class AdmmScheme(Scheme):
    """linearized ADMM:  x+ = prox_{tau f}(x - (tau/sigma) L*(L x + u - z)),  z+ = prox_{sigma g}(L x+ + u),  u+ = u + L x+ - z+;
    optimality with y = u / sigma:  -L* y in subdiff f(x),  y in subdiff g(L x)"""
    name = 'admm_linearized'
    func = ADMM + 'admm_linearized'
    temps = ('tmp_dom',)

    def world(self, I, st, fr, cfg):
        X = makers.tspace(I, st, 'X', 'real')
        Y = makers.tspace(I, st, 'Y', 'real')
        return dict(X=X, Y=Y, L=AbsOp(I, 'L', X, Y, True), f=AbsFunc(I, st, 'f', X), g=AbsFunc(I, st, 'g', Y),
                    tau=makers.pos_scalar(st, 'tau'), sigma=makers.pos_scalar(st, 'sigma'), niter=niter_sym(st))

    def objs(self, w, cfg):
        return {'x': w['X'].element(cont=var('x0'))}

    def state(self, loc, o, cfg):
        return {'x': o['x'], 'z': loc['z'], 'u': loc['u']}

    def call(self, w, o, cfg):
        self._w = w
        return [o['x'], w['f'].op, w['g'].op, w['L'].op, w['tau'], w['sigma'], w['niter']], {}

    def havoc_scalars(self, loc, w, cfg, st):
        # private invariant of the buffer (C11): tmp_ran == L(x)
        set_content(loc['tmp_ran'], app(w['L'], content(loc['x'])))

    temps = ('tmp_dom', 'tmp_ran')

    def update(self, gen, I, fr, w, cfg, rr):
        x, z, u = gen['x'], gen['z'], gen['u']
        L, tau, sigma = w['L'], w['tau'], w['sigma']
        x1 = prox(I, fr, w['f'], tau, lin((1, x), (-tau / sigma, adj_sym_app(L, lin((1, app(L, x)), (1, u), (-1, z))))))
        z1 = prox(I, fr, w['g'], sigma, lin((1, app(L, x1)), (1, u)))
        return {'x': x1, 'z': z1, 'u': lin((1, u), (1, app(L, x1)), (-1, z1))}

    def scalar_update(self, rr, w, cfg):
        return {}

    def output(self, rr, o, post, cfg):
        return None

    def fixed_labels(self, cfg, ps):
        return ['x', 'z', 'u']

    def congruence_ops(self, w, l):
        return [w['L'].op.opsym] if l == 'x' else []

    def kkt(self, gen, post, I, fr, w, cfg):
        sigma = w['sigma']
        y = lin((1 / sigma, post['u']))
        # u' = u forces z' = L x', hence L x = z at the fixed point
        self.derive(app(w['L'], gen['x']), gen['z'], [oplib.adjoint_sym(w['L'].op.opsym)], 'L x == z')
        return [('-L* (u/sigma) in subdiff f(x)', w['f'].op, post['x'], lin((-1 / sigma, adj_sym_app(w['L'], post['u'])))),
                ('u/sigma in subdiff g(L x)  (z = L x)', w['g'].op, post['z'], y)]

    def solution(self, I, st, fr, w, cfg):
        xs, us = var('x_star'), var('u_star')
        L, tau, sigma = w['L'], w['tau'], w['sigma']
        zs = app(L, xs)
        st.assume(eqv(st.lower, prox(I, fr, w['f'], tau, lin((1, xs), (-tau / sigma, adj_sym_app(L, us)))), xs))
        st.assume(eqv(st.lower, prox(I, fr, w['g'], sigma, lin((1, zs), (1, us))), zs))
        return {'x': xs, 'z': zs, 'u': us}


class DrScheme(Scheme):
    """Douglas-Rachford primal-dual (Bot / Hendrich), as documented:
       p1 = prox_{tau f}(x - tau/2 sum L_i* v_i), w1 = 2 p1 - x, p2_i = prox_{sigma_i g_i*}(v_i + sigma_i/2 L_i w1), w2_i = 2 p2_i - v_i,
       z1 = w1 - tau/2 sum L_i* w2_i, x+ = x + lam (z1 - p1), z2_i = [prox_{sigma_i l_i*}](w2_i + sigma_i/2 L_i (2 z1 - w1)), v_i+ = v_i + lam (z2_i - p2_i);
       the primal iterate shown to the callback and returned is p1"""
    name = 'douglas_rachford_pd'
    func = DR + 'douglas_rachford_pd'
    temps = ('p1', 'p2', 'z1', 'z2', 'w1', 'w2')
    bounded_in = 'number of operators m in {1, 2}; every niter'

    def world(self, I, st, fr, cfg):
        m = cfg.get('m', 1)
        X = makers.tspace(I, st, 'X', 'real')
        if cfg.get('shared_range'):
            Y0 = makers.tspace(I, st, 'Y', 'real')          # several operators into ONE range space (reusable temporaries keyed by range)
            Ys = [Y0] * m
        else:
            Ys = [makers.tspace(I, st, 'Y%d' % i, 'real') for i in range(m)]
        lam = S(z3.Real('lam'))
        st.assume(lam > 0)
        st.assume(lam < 2)
        w = dict(X=X, Ys=Ys, L=[AbsOp(I, 'L%d' % i, X, Ys[i], True) for i in range(m)], f=AbsFunc(I, st, 'f', X),
                 g=[AbsFunc(I, st, 'g%d' % i, Ys[i]) for i in range(m)], tau=makers.pos_scalar(st, 'tau'),
                 sigma=[makers.pos_scalar(st, 'sigma%d' % i) for i in range(m)], niter=niter_sym(st), m=m, lam=lam, ghost=Ghost())
        if cfg.get('l'):
            w['l'] = [AbsFunc(I, st, 'l%d' % i, Ys[i]) for i in range(m)]
        return w

    def objs(self, w, cfg):
        return {'x': w['X'].element(cont=var('x0'))}

    def state(self, loc, o, cfg):
        d = {'x': o['x']}
        for i, e in enumerate(loc['v']):
            d['v%d' % i] = e
        return d

    def call(self, w, o, cfg):
        kw = {'tau': w['tau'], 'sigma': list(w['sigma']), 'lam': w['lam'], 'callback': w['ghost']}
        if 'l' in w:
            kw['l'] = [l.op for l in w['l']]
        return [o['x'], w['f'].op, [g.op for g in w['g']], [L.op for L in w['L']], w['niter']], kw

    def havoc_scalars(self, loc, w, cfg, st):
        pass

    def parts(self, gen, I, fr, w):
        m, tau, x = w['m'], w['tau'], gen['x']
        p1 = prox(I, fr, w['f'], tau, lin((1, x), *[(-tau / 2, adj_sym_app(w['L'][i], gen['v%d' % i])) for i in range(m)]))
        w1 = lin((2, p1), (-1, x))
        p2 = [conj_prox(I, fr, w['g'][i], w['sigma'][i], lin((1, gen['v%d' % i]), (w['sigma'][i] / 2, app(w['L'][i], w1))), w['Ys'][i]) for i in range(m)]
        w2 = [lin((2, p2[i]), (-1, gen['v%d' % i])) for i in range(m)]
        z1 = lin((1, w1), *[(-tau / 2, adj_sym_app(w['L'][i], w2[i])) for i in range(m)])
        return p1, w1, p2, w2, z1

    def update(self, gen, I, fr, w, cfg, rr):
        p1, w1, p2, w2, z1 = self.parts(gen, I, fr, w)
        self._last = (w['ghost'], p1)
        if rr.body_exit == 'return':
            return {'x': p1}                     # last iteration: the primal iterate p1 is written to x
        lam = w['lam']
        out = {'x': lin((1, gen['x']), (lam, z1), (-lam, p1))}
        for i in range(w['m']):
            arg = lin((1, w2[i]), (w['sigma'][i] / 2, app(w['L'][i], lin((2, z1), (-1, w1)))))
            z2 = conj_prox(I, fr, w['l'][i], w['sigma'][i], arg, w['Ys'][i]) if 'l' in w else arg
            out['v%d' % i] = lin((1, gen['v%d' % i]), (lam, z2), (-lam, p2[i]))
        return out

    def scalar_update(self, rr, w, cfg):
        return {}

    def output(self, rr, o, post, cfg):
        gh, p1 = self._last
        if len(gh.calls) != 1:
            return (VConst(float(len(gh.calls))), VConst(1.0))        # exactly one callback per iteration
        return (gh.calls[0][1], p1)                                     # ... observing the primal iterate p1

    def fixed_labels(self, cfg, ps):
        return list(ps)

    def congruence_ops(self, w, l):
        return []

    def kkt(self, gen, post, I, fr, w, cfg):
        p1, w1, p2, w2, z1 = self.parts(gen, I, fr, w)
        m = w['m']
        # x+ = x with lam != 0 forces z1 = p1
        self.derive(z1, p1, [L.op.opsym for L in w['L']], 'z1 == p1')
        out = [('-sum L_i* p2_i in subdiff f(p1)', w['f'].op, p1, lin(*[(-1, adj_sym_app(w['L'][i], p2[i])) for i in range(m)]))]
        for i in range(m):
            gc = I._getattr(w['g'][i].op, 'convex_conj', fr)
            out.append(('L_%d p1 in subdiff g_%d*(p2_%d)' % (i, i, i), gc, p2[i], app(w['L'][i], p1)))
        return out


SCHEMES = [(PdhgScheme(), ['update', 'fixed_to_kkt', 'kkt_to_fixed'], [dict()]),
           (PdhgScheme(), ['update'], [dict(accel='primal'), dict(accel='dual')]),
           (FbScheme(), ['update', 'fixed_to_kkt', 'kkt_to_fixed'], [dict(m=1), dict(m=2)]),
           (FbScheme(), ['update'], [dict(m=2, shared_range=True)]),
           (ProxGradScheme(), ['update', 'fixed_to_kkt', 'kkt_to_fixed'], [dict()]),
           (AccelProxGradScheme(), ['update', 'fixed_to_kkt', 'kkt_to_fixed'], [dict()]),
           (AdmmScheme(), ['update', 'fixed_to_kkt', 'kkt_to_fixed'], [dict()]),
           (DrScheme(), ['update'], [dict(m=1), dict(m=2), dict(m=1, l=True), dict(m=2, shared_range=True), dict(m=2, shared_range=True, l=True)]),
           (DrScheme(), ['fixed_to_kkt'], [dict(m=1), dict(m=2)])]


# ---------------------------------------------------------------------------------------------------------
# default step-size rules

def unit_stepsize_pdhg(case):
    def run(ctx):
        I = ctx.I

        def path(st):
            install(st)
            fr = ip.Frame(st)
            N = makers.pos_scalar(st, 'L_norm')
            tau = makers.pos_scalar(st, 'tau') if case in ('tau', 'both') else None
            sigma = makers.pos_scalar(st, 'sigma') if case in ('sigma', 'both') else None
            try:
                r = I.call(I.get_func(PDHG + 'pdhg_stepsize'), [N, tau, sigma], {}, fr)
            except ip.PyRaise as e:
                return ('raise', e.exc)
            return ('ok', (r, N, tau, sigma))
        info = {'given': case}
        for st, (status, r) in ctx.explore(path):
            if status == 'raise':
                ctx.fail(st, 'no_raise', 'raises %s' % lib.exc_desc(r), info)
                continue
            (t, s_), N, tau, sigma = r
            t, s_ = core._sc(t), core._sc(s_)
            ctx.prove(st, 'returned steps are positive', core.s_and(core.sbool(t > 0), core.sbool(s_ > 0)), info)
            if case != 'both':
                ctx.prove(st, 'admissible: tau * sigma * ||L||^2 < 1', t * s_ * N * N < 1, info)
            if tau is not None:
                ctx.prove(st, 'a given tau is returned unchanged', core.sc_eq(t, tau), info)
            if sigma is not None:
                ctx.prove(st, 'a given sigma is returned unchanged', core.sc_eq(s_, sigma), info)
    return Unit('stepsize/pdhg/given=%s' % case, run, funcs=[PDHG + 'pdhg_stepsize'], config={'given': case})


def unit_stepsize_dr(case, m):
    def run(ctx):
        I = ctx.I

        def path(st):
            install(st)
            fr = ip.Frame(st)
            Ns = [makers.pos_scalar(st, 'L_norm%d' % i) for i in range(m)]
            tau = makers.pos_scalar(st, 'tau') if case in ('tau', 'both') else None
            sigma = [makers.pos_scalar(st, 'sigma%d' % i) for i in range(m)] if case in ('sigma', 'both') else None
            try:
                r = I.call(I.get_func(DR + 'douglas_rachford_pd_stepsize'), [list(Ns), tau, sigma], {}, fr)
            except ip.PyRaise as e:
                return ('raise', e.exc)
            return ('ok', (r, Ns, tau, sigma))
        info = {'given': case, 'm': m}
        for st, (status, r) in ctx.explore(path):
            if status == 'raise':
                ctx.fail(st, 'no_raise', 'raises %s' % lib.exc_desc(r), info)
                continue
            (t, sg), Ns, tau, sigma = r
            t = core._sc(t)
            sg = [core._sc(x) for x in sg]
            ctx.prove(st, 'one sigma per operator', len(sg) == m, info)
            ctx.prove(st, 'returned steps are positive', core.s_and(core.sbool(t > 0), *[core.sbool(x > 0) for x in sg]), info)
            if case != 'both':
                tot = S.lift(0.0)
                for x, N in zip(sg, Ns):
                    tot = tot + x * N * N
                ctx.prove(st, 'admissible: tau * sum sigma_i ||L_i||^2 < 4', t * tot < 4, info)
            if tau is not None:
                ctx.prove(st, 'a given tau is returned unchanged', core.sc_eq(t, tau), info)
            if sigma is not None:
                ctx.prove(st, 'given sigmas are returned unchanged', core.s_and(*[core.sbool(core.sc_eq(a, b)) for a, b in zip(sg, sigma)]), info)
    return Unit('stepsize/douglas_rachford/given=%s/m=%d' % (case, m), run, funcs=[DR + 'douglas_rachford_pd_stepsize', DR + '_operator_norms'],
                config={'given': case, 'm': m}, bounded_in='number of operators m in {1,2,3}')


class _WrongPdhg(PdhgScheme):
    """must fail: claims the primal step uses +tau L* y"""

    def update(self, gen, I, fr, w, cfg, rr):
        x, xr, y = gen['x'], gen['x_relax'], gen['y']
        tau, sigma = rr.head['tau'], rr.head['sigma']
        y1 = conj_prox(I, fr, w['g'], sigma, lin((1, y), (sigma, app(w['L'], xr))), w['Y'])
        x1 = prox(I, fr, w['f'], tau, lin((1, x), (tau, adj_sym_app(w['L'], y1))))
        return {'x': x1}


def canaries():
    a = unit_scheme(_WrongPdhg(), 'update', {})
    a.name, a.kind, a.expect = 'canary/pdhg-wrong-sign-in-spec', 'canary', 'refuted'

    def run_b(ctx):
        # must fail: a sub-step with omega N^2 <= 3 (inadmissible) claimed non-expansive
        n0, a_, c_, w_, N_ = [S(z3.Real(n)) for n in ('n0', 'a', 'c', 'w', 'N')]
        ctx.prove_lemma('canary', [a_ >= 0, c_ >= 0, N_ >= 0, w_ > 0, w_ * N_ * N_ <= 3, c_ <= N_ * N_ * a_], n0 - 2 * w_ * a_ + w_ * w_ * c_ <= n0, {})
    b = Unit('canary/kaczmarz-inadmissible-relaxation', run_b, kind='canary', expect='refuted')
    return [a, b]


def gh_ok(rr, x):
    return True


def unit_monitor(kind, cfg, n_inst, seed):
    from contracts import replay_c12

    def run(ctx):
        for desc, check in replay_c12.instances(kind, cfg, n_inst, seed):
            try:
                bad = check()
            except Exception as e:
                ctx.notes.append('instance skipped (%s: %s)' % (type(e).__name__, e))
                continue
            ctx.bounded('native: %s' % kind, not bad, {'kind': kind, 'cfg': cfg, 'seed': seed, 'input': desc}, bad)
    tag = '/'.join('%s=%s' % kv for kv in sorted(cfg.items()))
    return Unit('monitor/%s%s' % (kind, ('/' + tag) if tag else ''), run, funcs=[], kind='B', config=dict(cfg, kind=kind, seed=seed))


MONITORS = [('cg', {}), ('cgn', {}), ('landweber', {}), ('kaczmarz', dict(m=3, random=False)), ('kaczmarz', dict(m=3, random=True)),
            ('steepest_descent', dict(estimate_step=False)), ('steepest_descent', dict(estimate_step=True)), ('power_method', dict(self_adjoint=False)),
            ('pdhg', {}), ('forward_backward_pd', {}), ('douglas_rachford_pd', {}), ('proximal_gradient', {}), ('accelerated_proximal_gradient', {}),
            ('admm_linearized', {}), ('stepsize_pdhg', dict(given='none')), ('stepsize_pdhg', dict(given='tau')), ('stepsize_pdhg', dict(given='sigma')),
            ('stepsize_dr', dict(given='none', m=3)), ('stepsize_dr', dict(given='tau', m=2)), ('stepsize_dr', dict(given='sigma', m=2))]


def replay(ob):
    from contracts import replay_c12
    return replay_c12.replay(ob)


def units(tier, seed):
    us = []
    for mode in ('init', 'step'):
        us.append(unit_cg(mode))
        us.append(loop_unit('descent/cgn', [IT + 'conjugate_gradient_normal'], mode, _cgn()))
    us.append(loop_unit('descent/landweber', [IT + 'landweber'], 'step', _landweber()))
    for m in (1, 2, 3):
        for rnd in (False, True):
            us.append(loop_unit('descent/kaczmarz', [IT + 'kaczmarz'], 'step', _kaczmarz(), dict(m=m, random=rnd), bounded_in='number of operators m in {1,2,3}; every niter'))
    us += canaries()
    if tier == 'thorough':
        for kind, cfg in MONITORS:
            us.append(unit_monitor(kind, cfg, 40, 200 + seed))
    for case in ('none', 'tau', 'sigma', 'both'):
        us.append(unit_stepsize_pdhg(case))
        for m in (1, 2, 3):
            us.append(unit_stepsize_dr(case, m))
    for Sc, whats, cfgs in SCHEMES:
        for what in whats:
            for cfg in cfgs:
                us.append(unit_scheme(Sc, what, cfg))
    for mode in ('init', 'step'):
        for sa in (False, True):
            us.append(loop_unit('opnorm/power_method', [OU + 'power_method_opnorm'], mode, _power(), dict(self_adjoint=sa)))
    for est in (False, True):
        us.append(unit_backtracking(dict(estimate_step=est)))
        us.append(loop_unit('descent/steepest_descent', [GR + 'steepest_descent', SL + 'BacktrackingLineSearch.__call__'], 'step', _steepest(), dict(estimate_step=est)))
    return us
