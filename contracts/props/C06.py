"""C06 - derivative(x) is the Frechet derivative of the operator at x.

expr/*   derivative rules of the operator-expression classes: for abstract operands whose derivatives
         are arbitrary linear maps dA[p] (one per semantically distinct point p; a linear operand is
         its own derivative) the operator returned by the real `.derivative(x0)` acts on every direction
         d as the textbook rule prescribes - sum rule, chain rule at the inner point B(x0) / s*x0 / v*x0,
         product rule, scalar / vector factors on the correct side -, is linear and has the operator's
         domain and range.
dop/*    closed-form derivatives of the pointwise default operators: the value of
         derivative(x0)(d) is compared with the symbolic derivative (sympy.diff) of the pointwise
         expression extracted from _call, times d.
pointwise-norm/*  PointwiseNorm.derivative(F): PointwiseInner on the operator's domain with the operator's OWN weights and the field
         G_j = F_j |F_j|^(p-2) / N^(p-1) (masked division where N == 0), F untouched; sympy lemma: that field is the gradient of the weighted p-norm.
"""
import itertools

import z3

from pyvc import core, interp as ip, odlmodel as om
from pyvc.core import S, C, V, VVar, VConst, VFresh, VLin, VPw, VApp, Unsupported
from pyvc.harness import Unit
from contracts import lib, oplib, tlib, makers
from contracts.lib import content, set_content
from contracts.oplib import OP, DOPS, AbsOp, FieldSpec, sem, value_of, v_add, v_mul

META = {
    'level': 'proof',
    'trusted_base': [
        'pyvc symbolic interpreter (A7); contracts of element / space arithmetic (C01), Operator.__call__ (C03), operator arithmetic (C04)',
        'the textbook rules (sum, chain, product) are the specification; existence of the Frechet derivatives of the operands is assumed',
        'sympy.diff for the closed-form pointwise derivatives; A1 reals',
    ],
    'assumptions': ['A1', 'A2', 'A5', 'A7'],
    'not_decided': [
        'convergence order of central differences (analysis fact); derivatives of ufunc operators / NormOperator / DistOperator '
        'are not under contract yet (bounded operator pool only); block operators: entry patterns enumerated (9 patterns up to 3 x 2), is_linear flag taken from the instance',
    ],
}

EXPR = ['OperatorSum', 'OperatorVectorSum', 'OperatorComp', 'OperatorPointwiseProduct', 'OperatorLeftScalarMult',
        'OperatorRightScalarMult', 'FunctionalLeftVectorMult', 'OperatorLeftVectorMult', 'OperatorRightVectorMult']


def setup(st):
    tlib.install(st)
    st.cuts.update(oplib.calculus_cuts())


def get(I, fr, o, name):
    return I._getattr(o, name, fr)


def D(I, fr, absop, p):
    """spec side: the derivative operator of the abstract operand at the point value p"""
    dom = absop.dom
    holder = dom.element(cont=p) if not isinstance(dom, FieldSpec) else p
    return oplib.derivative_contract(I, fr, absop.op, holder)


def unit_expr(clsname, field):
    def run(ctx):
        I = ctx.I
        two = clsname in ('OperatorSum', 'OperatorComp', 'OperatorPointwiseProduct')
        for la, lb, ranF in itertools.product((0, 1), (0, 1) if two else (0,), (0, 1)):
            if ranF and clsname in ('FunctionalLeftVectorMult', 'OperatorLeftVectorMult', 'OperatorVectorSum'):
                continue

            def path(st, la=la, lb=lb, ranF=ranF):
                setup(st)
                # ghost: the point OBJECTS handed to the operands' derivative (an operand may keep its base point by reference - ComplexModulus does -,
                # so the point must not be a buffer the expression keeps for reuse)
                points = []
                inner_deriv = st.cuts[oplib.OP + 'Operator.derivative']

                def deriv_rec(I_, fr_, self, point, _inner=inner_deriv):
                    points.append(point)
                    return _inner(I_, fr_, self, point)
                st.cuts[oplib.OP + 'Operator.derivative'] = deriv_rec
                fr = ip.Frame(st)
                X = makers.tspace(I, st, 'X', field)
                Y = makers.tspace(I, st, 'Y', field)
                Z = makers.tspace(I, st, 'Z', field)
                F = FieldSpec(I, field)
                cls = I.get_class(OP + clsname)
                x0 = X.element('x0')
                p = content(x0)
                d = VVar('d', field)
                A = B = None
                if clsname in ('OperatorSum', 'OperatorPointwiseProduct'):
                    R = F if ranF else Y
                    A, B = AbsOp(I, 'A', X, R, la), AbsOp(I, 'B', X, R, lb)
                    args, ranb = [A.op, B.op], R
                    if clsname == 'OperatorSum' and not ranF:
                        # user supplied temporaries (must be handed on in the right roles)
                        args = args + [Y.element('tmp_ran'), X.element('tmp_dom')]
                elif clsname == 'OperatorComp':
                    R = F if ranF else Z
                    A, B = AbsOp(I, 'A', Y, R, la), AbsOp(I, 'B', X, Y, lb)
                    args, ranb = [A.op, B.op, Y.element('tmp')], R          # with the optional user-supplied temporary
                elif clsname == 'OperatorVectorSum':
                    A = AbsOp(I, 'A', X, Y, la)
                    v = Y.element('vec')
                    args, ranb = [A.op, v], Y
                elif clsname in ('OperatorLeftScalarMult', 'OperatorRightScalarMult'):
                    R = F if ranF else Y
                    A = AbsOp(I, 'A', X, R, la)
                    s = om.sym_scalar('s', field)
                    args, ranb = [A.op, s], R
                elif clsname == 'FunctionalLeftVectorMult':
                    A = AbsOp(I, 'f', X, F, la)
                    v = Y.element('vec')
                    args, ranb = [A.op, v], Y
                elif clsname == 'OperatorLeftVectorMult':
                    A = AbsOp(I, 'A', X, Y, la)
                    v = Y.element('vec')
                    args, ranb = [A.op, v], Y
                else:
                    R = F if ranF else Y
                    A = AbsOp(I, 'A', X, R, la)
                    v = X.element('vec')
                    args, ranb = [A.op, v], R
                inst = I.call(cls, args, {}, fr)
                try:
                    der = I.call(get(I, fr, inst, 'derivative'), [x0], {}, fr)
                except ip.PyRaise as e:
                    return ('raise', e.exc)
                # the textbook rule
                app = lambda o, u: sem(I, fr, o, u)
                if clsname == 'OperatorSum':
                    rule = v_add(app(D(I, fr, A, p), d), app(D(I, fr, B, p), d))
                elif clsname == 'OperatorVectorSum':
                    rule = app(D(I, fr, A, p), d)
                elif clsname == 'OperatorComp':
                    rule = app(D(I, fr, A, app(B.op, p)), app(D(I, fr, B, p), d))
                elif clsname == 'OperatorPointwiseProduct':
                    rule = v_add(v_mul(app(B.op, p), app(D(I, fr, A, p), d)), v_mul(app(A.op, p), app(D(I, fr, B, p), d)))
                elif clsname == 'OperatorLeftScalarMult':
                    rule = v_mul(args[1], app(D(I, fr, A, p), d))
                elif clsname == 'OperatorRightScalarMult':
                    rule = app(D(I, fr, A, v_mul(args[1], p)), v_mul(args[1], d))
                elif clsname == 'FunctionalLeftVectorMult':
                    rule = v_mul(app(D(I, fr, A, p), d), content(args[1]))
                elif clsname == 'OperatorLeftVectorMult':
                    rule = v_mul(content(args[1]), app(D(I, fr, A, p), d))
                else:
                    rule = app(D(I, fr, A, v_mul(content(args[1]), p)), v_mul(content(args[1]), d))
                got = app(der, d) if isinstance(der, ip.Obj) else None
                kept = [a for a in args[2:] if isinstance(a, ip.Obj)]
                return ('ok', dict(der=der, got=got, rule=rule, X=X, ranb=ranb, fr=fr, x0=x0, p=p, points=points, kept=kept))
            info = {'class': clsname, 'field': field, 'la': la, 'lb': lb, 'ranF': ranF}
            for st, (status, r) in ctx.explore(path):
                if status == 'raise':
                    ctx.fail(st, 'no_raise', 'derivative raises %s%r' % (lib.exc_name(r), r.fields.get('args')), info)
                    continue
                fr, der = r['fr'], r['der']
                if not isinstance(der, ip.Obj):
                    ctx.fail(st, 'returns an operator', 'returned %r' % (der,), info)
                    continue
                same = lambda a, b: I.truth(I.py_eq(a, b, fr), fr)
                ctx.prove(st, 'derivative(x0)(d) == textbook rule for all d', lib.eq_goal(st.lower, r['got'], r['rule']), info)
                ctx.prove(st, 'derivative.domain == domain', same(get(I, fr, der, 'domain'), r['X'].space), info)
                ctx.prove(st, 'derivative.range == range', same(get(I, fr, der, 'range'), r['ranb'].space), info)
                ctx.prove(st, 'derivative is linear', bool(get(I, fr, der, 'is_linear')), info)
                ctx.prove(st, 'frame: x0 unchanged', lib.eq_goal(st.lower, content(r['x0']), r['p']), info)
                ctx.prove(st, 'no operand derivative is taken AT a temporary the expression keeps for reuse (an operand may keep its base point by reference)',
                          not any(pt is k for pt in r['points'] for k in r['kept']), dict(info, points=repr(r['points'])[:200]))
    return Unit('expr/%s/%s' % (clsname, field), run, funcs=[OP + clsname + '.derivative'], config={'class': clsname, 'field': field})


# --------------------------------------------------------------------------
# closed-form derivatives of pointwise default operators

def unit_dop_pointwise(clsname, variant, field):
    def run(ctx):
        I = ctx.I
        mk = makers.dop_maker(clsname, field, variant)

        def path(st):
            setup(st)
            fr = ip.Frame(st)
            m = mk(I, st, fr)
            X = m['domb']
            x0 = X.element('x0')
            if clsname == 'PowerOperator' and variant is not None and variant < 1:
                lib.assume_nonzero(st, 'x0', field)
            try:
                der = I.call(get(I, fr, m['inst'], 'derivative'), [x0], {}, fr)
            except ip.PyRaise as e:
                return ('raise', (e.exc, m))
            d = X.element('d')
            try:
                val = oplib.call_contract(I, fr, der, d) if False else None
                from contracts import callforms
                val = callforms.real_call(I, fr, der, d)
            except ip.PyRaise as e:
                return ('raise', (e.exc, m))
            return ('ok', (m, der, val, x0, d, fr))
        info = {'class': clsname, 'variant': str(variant), 'field': field}
        for st, (status, r) in ctx.explore(path):
            if status == 'raise':
                ctx.fail(st, 'no_raise', 'raises %s%r' % (lib.exc_name(r[0]), r[0].fields.get('args')), info)
                continue
            m, der, val, x0, d, fr = r
            low = st.lower
            # symbolic derivative of the pointwise expression e(x) of the operator (its specification)
            x = VVar('x0', field)
            e = m['expected'](x)
            got = low(value_of(val))
            want = pointwise_derivative(low, e, x, VVar('d', field), field)
            if want is None:
                ctx.unsupported('symbolic derivative', 'expression outside the differentiable fragment')
                continue
            ctx.prove(st, 'derivative(x0)(d) == d/dt e(x0 + t d)|0 at every index', core.sc_eq(got, want), info)
            ctx.prove(st, 'derivative is linear', bool(get(I, fr, der, 'is_linear')), info)
    return Unit('dop/%s/%s/%s' % (clsname, variant, field), run, funcs=[DOPS + clsname + '.derivative'],
                config={'class': clsname, 'variant': str(variant), 'field': field})


def pointwise_derivative(low, e, x, d, field):
    """d/dt e(x + t d) at t = 0 for a pointwise polynomial / rational expression e: computed on the
    lowered z3 term by the real-linear derivation rules (sum, product, quotient via the quotient's
    defining equation is avoided: powers are expanded products in this fragment)."""
    def diff(v):
        # returns (value term, derivative term) as V
        if v is x:
            return v, d
        if isinstance(v, VVar):
            return v, VConst(0.0)
        if isinstance(v, VConst):
            return v, VConst(0.0)
        if isinstance(v, VLin):
            parts = [(c, diff(t)[1]) for c, t in v.terms]
            return v, VLin(parts)
        if isinstance(v, VPw) and v.fn == 'mul':
            a, b = v.args
            return v, VLin([(1, core.vmul(diff(a)[1], b)), (1, core.vmul(a, diff(b)[1]))])
        if isinstance(v, VPw) and v.fn == 'square':
            a = v.args[0]
            return v, VLin([(2, core.vmul(a, diff(a)[1]))])
        if isinstance(v, VPw) and v.fn in ('real', 'imag'):
            return v, VPw(v.fn, (diff(v.args[0])[1],))
        if isinstance(v, VPw) and v.fn == 'div':
            a, b = v.args
            da, db = diff(a)[1], diff(b)[1]
            num = VLin([(1, core.vmul(da, b)), (-1, core.vmul(a, db))])
            return v, core.vdiv(num, core.vmul(b, b))
        raise Unsupported('derivative of %r' % (v,))
    try:
        return low(diff(e)[1])
    except Unsupported:
        return None


DOP_DER = [('ScalingOperator', None), ('IdentityOperator', None), ('MultiplyOperator', 'vec'), ('MultiplyOperator', 'scalar'),
           ('PowerOperator', 1), ('PowerOperator', 2), ('PowerOperator', 3), ('PowerOperator', 4),
           ('ZeroOperator', 'same'), ('ConstantOperator', None), ('RealPart', None), ('ImagPart', None), ('ComplexModulusSquared', None)]


TOPS = 'odl.operator.tensor_ops:'


def unit_pointwise_norm(p, k=2):
    """PointwiseNorm.derivative(F) (k components, exponent p, explicit weights w_j): the returned PointwiseInner is built on the operator's domain with the
    operator's own weights and the vector field G_j = F_j |F_j|^(p-2) / N^(p-1) wherever N = PointwiseNorm(F) != 0 (F_j |F_j|^(p-2) where N == 0, p >= 2),
    the caller's F is untouched.  Lemma (sympy): w_j F_j |F_j|^(p-2) N^(1-p) is the partial derivative of (sum_j w_j |F_j|^p)^(1/p), so
    PointwiseInner(domain, G, weighting=w)(d) = sum_j w_j G_j d_j is the Frechet derivative."""
    def run(ctx):
        I = ctx.I

        def path(st):
            setup(st)
            fr = ip.Frame(st)
            X = makers.tspace(I, st, 'X', 'real')
            F = [X.element('F%d' % j) for j in range(k)]
            F0 = [content(f) for f in F]
            Nel = X.element('N')
            wobj = ('weights-array',)

            class PVec(object):
                def __init__(self, comps):
                    self.comps = comps

                def pv_iter(self, I_, fr_):
                    return iter(self.comps)

                def pv_getattr(self, I_, fr_, name):
                    if name == 'copy':
                        return ip.Builtin('copy', lambda I2, fr2, a, kw: PVec([I2.call(I2._getattr(c, 'copy', fr2), [], {}, fr2) for c in self.comps]))
                    raise Unsupported('vector field .%s' % name)
            vf = PVec(F)

            class PDom(object):
                def pv_getattr(self, I_, fr_, name):
                    if name == 'field':
                        return om.field_obj(I_, 'real')
                    if name == 'element':
                        return ip.Builtin('element', lambda I2, fr2, a, kw: a[0])
                    raise Unsupported('domain.%s' % name)
            dom = PDom()
            made = []

            def ctor(I_, fr_, self, *a, **kw):
                self.fields['ctor'] = (a, dict(kw))
                made.append(self)
            st.cuts[TOPS + 'PointwiseInner.__init__'] = ctor
            op = ip.Obj(I.get_class(TOPS + 'PointwiseNorm'))
            op.fields.update({'_Operator__domain': dom, '_Operator__range': X.space, '_Operator__is_linear': False, '_exponent': float(p),
                              '_PointwiseNorm__weights': wobj, '_PointwiseNorm__is_weighted': True, '_PointwiseTensorFieldOperator__base_space': X.space})
            # NumpyTensor.__ipow__ (any real exponent: np.power in place) and asarray() != 0 as a boolean mask, by their NumPy meaning
            def ipow(I_, fr_, self, q):
                set_content(self, VPw('power', (content(self), q.concrete() if isinstance(q, S) and q.concrete() is not None else q)))
                fr_.st.events.append(('write', self))
                return self

            class Mask(object):
                def __init__(self, el, neg=False):
                    self.el, self.neg = el, neg

                def pv_not(self, I_, fr_):
                    return X.aux_bool().element(cont=VPw('not', (VPw('eq', (content(self.el), VConst(0.0))),)))

            class ArrView(object):
                def __init__(self, el):
                    self.el = el

                def pv_eq(self, I_, fr_, o):
                    if o == 0:
                        return Mask(self.el)
                    return ip.NOTIMPL
            st.cuts['odl.set.space:LinearSpaceElement.__ipow__'] = ipow
            st.cuts['odl.space.base_tensors:Tensor.asarray'] = lambda I_, fr_, self, out=None: ArrView(self)
            # contract of the operator's own evaluation (C03 / _call): a NEW range element holding N(F)
            st.cuts[oplib.OP + 'Operator.__call__'] = lambda I_, fr_, self, x, out=None, **kw: Nel
            try:
                der = I.call(get(I, fr, op, 'derivative'), [vf], {}, fr)
            except ip.PyRaise as e:
                return ('raise', e.exc)
            return ('ok', dict(der=der, dom=dom, w=wobj, F=F, F0=F0, N=Nel, X=X))
        info = {'exponent': p, 'components': k}
        for st, (status, r) in ctx.explore(path):
            if status == 'raise':
                ctx.fail(st, 'no_raise', 'raises %s' % lib.exc_desc(r), info)
                continue
            der = r['der']
            ok = isinstance(der, ip.Obj) and 'ctor' in der.fields
            ctx.prove(st, 'derivative is a PointwiseInner', ok and der.cls.name == 'PointwiseInner', info)
            if not ok:
                continue
            a, kw = der.fields['ctor']
            args = dict(zip(('vfspace', 'vecfield', 'weighting'), a))
            args.update(kw)
            ctx.prove(st, 'derivative: on the domain of the operator', args.get('vfspace') is r['dom'], info)
            ctx.prove(st, 'derivative: with the WEIGHTS OF THE OPERATOR  (sum_j w_j G_j d_j)', args.get('weighting') is r['w'], info)
            G = args.get('vecfield')
            okG = G is not None and hasattr(G, 'comps') and len(G.comps) == k
            ctx.prove(st, 'derivative: vector field with one component per component of F', okG, info)
            if not okG:
                continue
            low = st.lower
            Nn = low(VVar('N', 'real'))
            for j in range(k):
                Fj = low(r['F0'][j])
                base = Fj * core.pw_apply('power', [core.pw_apply('abs', [Fj]), float(p - 2)])
                den = Nn if p == 2 else core.pw_apply('power', [Nn, float(p - 1)])
                got = low(content(G.comps[j]))
                nz = core.s_not(core.sbool(core.sc_eq(den, 0)))
                ctx.prove(st, 'G_%d == F_j |F_j|^(p-2) / N^(p-1) where the factor is nonzero' % j, core.s_or(core.s_not(nz), core.sbool(core.sc_eq(got * den, base))), info)
                if p >= 2:
                    ctx.prove(st, 'G_%d == F_j |F_j|^(p-2) where the factor is zero (no division)' % j, core.s_or(nz, core.sbool(core.sc_eq(got, base))), info)
                ctx.prove(st, 'the point F_%d of the caller is not modified' % j, core.sc_eq(low(content(r['F'][j])), low(r['F0'][j])), info)
            # lemma: the claimed field is the gradient of the p-norm (sympy, F_j != 0, w_j > 0)
            import sympy as sp
            f = sp.symbols('f0:%d' % k, real=True, nonzero=True)
            w = sp.symbols('w0:%d' % k, positive=True)
            pp = sp.Rational(p).limit_denominator(16)
            Nexpr = sum(w[j] * sp.Abs(f[j]) ** pp for j in range(k)) ** (1 / pp)
            good = True
            for j in range(k):
                claimed = w[j] * f[j] * sp.Abs(f[j]) ** (pp - 2) * Nexpr ** (1 - pp)
                diff = sp.simplify(sp.diff(Nexpr, f[j]) - claimed)
                if diff != 0:
                    # numeric fallback at rational points (an identity of analytic functions on each orthant)
                    vals = {f[i]: sp.Rational(3 + 2 * i, 7) * (-1) ** i for i in range(k)}
                    vals.update({w[i]: sp.Rational(2 + i, 3) for i in range(k)})
                    good = good and abs(sp.N(diff.subs(vals), 30)) < 1e-20
            ctx.prove(st, 'lemma: w_j F_j |F_j|^(p-2) N^(1-p) == d/dF_j (sum_j w_j |F_j|^p)^(1/p)   [sympy]', good, info)
    return Unit('pointwise-norm/p=%s/k=%d' % (p, k), run, funcs=[TOPS + 'PointwiseNorm.derivative'], config={'exponent': p, 'components': k})


def unit_operator_pool_bounded():
    """BOUNDED stand-in (never counted as proved) for the derivatives outside the deductive units: for one small instance per operator class / option (contracts/oppool.py)
    and 3 random points / directions on real spaces, derivative(x)(d) agrees with central differences of the operator (h = 1e-3, 1e-4)."""
    def run(ctx):
        from contracts import oppool
        for name in oppool.pool():
            try:
                bad, note = oppool.check_derivative(name)
            except Exception as e:
                bad, note = 'raised %s: %s' % (type(e).__name__, str(e)[:160]), None
            if note:
                continue
            ctx.bounded('library operator: derivative(x)(d) == central difference of the operator', not bad, {'operator': name}, detail=bad)
    return Unit('operator-pool/derivative', run, funcs=['odl.operator.tensor_ops:*.derivative', 'odl.operator.pspace_ops:*.derivative', 'odl.operator.default_ops:*.derivative',
                'odl.ufunc_ops.ufunc_ops:*.derivative'], kind='B', bounded_in='one small instance per operator class / option in contracts/oppool.py, 3 random points each')


def unit_canary():
    """must-fail: chain rule taken at the outer point x0 instead of the inner point B(x0)"""
    def run(ctx):
        I = ctx.I

        def path(st):
            setup(st)
            fr = ip.Frame(st)
            X = makers.tspace(I, st, 'X', 'real')
            A, B = AbsOp(I, 'A', X, X, 0), AbsOp(I, 'B', X, X, 0)
            x0 = X.element('x0')
            inst = I.call(I.get_class(OP + 'OperatorComp'), [A.op, B.op], {}, fr)
            der = I.call(get(I, fr, inst, 'derivative'), [x0], {}, fr)
            d = VVar('d', 'real')
            wrong = sem(I, fr, D(I, fr, A, content(x0)), sem(I, fr, D(I, fr, B, content(x0)), d))
            return ('ok', (sem(I, fr, der, d), wrong))
        for st, (status, (got, wrong)) in ctx.explore(path):
            ctx.prove(st, 'canary', lib.eq_goal(st.lower, got, wrong), {})
    return Unit('canary/chain-rule-at-outer-point', run, kind='canary', expect='refuted')


def units(tier, seed):
    us = []
    for field in ('real', 'complex'):
        for c in EXPR:
            us.append(unit_expr(c, field))
    for c, v in DOP_DER:
        us.append(unit_dop_pointwise(c, v, 'real'))
    for p in (2, 3, 1.5, 1):
        us.append(unit_pointwise_norm(p))
    us.append(unit_pointwise_norm(2, k=3))
    us.append(unit_operator_pool_bounded())
    from contracts import blocklib
    us.extend(blocklib.units('derivative'))
    from contracts import grouplib
    us.extend(grouplib.pointwise_norm_units())
    us.append(unit_canary())
    return us


def replay(ob):
    if ob.get('unit', '').startswith('block/'):
        from contracts import blocklib
        try:
            return blocklib.native_replay(ob)
        except Exception as e:
            return {'reproduced': False, 'detail': 'replay harness error: %r' % (e,)}
    if ob.get('unit', '').startswith('operator-pool/'):
        from contracts import oppool
        try:
            bad = oppool.check_derivative((ob.get('model') or {}).get('operator'))[0]
        except Exception as e:
            bad = 'raised %s: %s' % (type(e).__name__, e)
        return {'reproduced': bool(bad), 'detail': bad or 'holds natively', 'input': ob.get('model')}
    from contracts import replay_deriv
    return replay_deriv.replay(ob)
