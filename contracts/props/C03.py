"""C03 - operator calls: in-place equals out-of-place, input untouched, result in range.

protocol/*   the real Operator.__call__, _default_call_out_of_place and _default_call_in_place are
             proved to refine the call contract (oplib.call_contract) for an arbitrary operator whose
             _call_in_place / _call_out_of_place satisfy the implementation contract IC: domain / range /
             functional errors are raised before the implementation is invoked (ghost call counter),
             the result is in the range, `out` is returned as the very object, x is untouched.
impl/*       IC for concrete `_call`s: every proximal, default operator and expression class (through
             the makers shared with C10): out-of-place result is a new range element that is neither
             the input, a stored vector nor a view; in-place result equals the out-of-place value
             whatever `out` held before (no stale read); x and stored vectors unchanged.
dispatch/*   bounded cross-check of the assumed Operator.__new__ contract: for every Operator subclass
             importable from odl the AST-derived (has_out, out_optional) is compared with the real
             _dispatch_call_args.
"""
import ast
import itertools

from pyvc import core, interp as ip, odlmodel as om
from pyvc.core import S, C, V, VVar, VConst, VFresh, VLin, VPw, VApp, Unsupported
from pyvc.harness import Unit
from contracts import lib, oplib, tlib, callforms, makers
from contracts.lib import content, set_content
from contracts.oplib import OP, AbsOp, FieldSpec, value_of

META = {
    'level': 'proof',
    'trusted_base': [
        'pyvc symbolic interpreter (A7); element-API contracts (C01 arithmetic, C17 ufuncs, C02 norms)',
        'contract of Operator.__new__/_dispatch_call_args (signature -> call-form binding): assumed in the deductive units, '
        'cross-checked natively against the real function for every Operator subclass (bounded unit dispatch/*)',
        'A1 reals',
    ],
    'assumptions': ['A1', 'A2', 'A5', 'A7'],
    'not_decided': [
        '_call of operators outside the makers: tensor_ops (MatrixOperator, sampling), pspace_ops, diff_ops, discr_ops, '
        'ufunc_ops, Fourier / wavelet / ray transforms - not under contract in this property (diff_ops and resizing kernels are '
        'verified functionally in C13 / C16); conversion of array-likes by domain.element / range.element (C20)',
    ],
    'bounded_rule': 'dispatch/*: one evaluation per Operator subclass found by importing every odl module (contrib excluded); '
                    'non-trivial = class defines its own _call',
}


def unit_protocol(kind, domran, field):
    """kind: 'ip' (in-place only), 'oop' (out-of-place only), 'both'"""
    def run(ctx):
        I = ctx.I
        callf = I.get_func(OP + 'Operator.__call__')
        xkinds = ['elem', 'alien', 'castable']
        okinds = ['none', 'elem', 'alien'] + (['x'] if domran == 'same' else [])
        for xk, ok in itertools.product(xkinds, okinds):
            def path(st, xk=xk, ok=ok):
                st.cuts.update(lib.space_api_cuts(oplib.make_elem_by_builder))
                st.cuts.update(lib.elem_api_cuts(oplib.make_elem_by_builder))
                fr = ip.Frame(st)
                X = oplib.register_space(lib.AbstractSpace(I, 'X', field))
                Y = oplib.register_space(lib.AbstractSpace(I, 'Y', field))
                Z = oplib.register_space(lib.AbstractSpace(I, 'Z', field))
                domb = X
                ranb = {'distinct': Y, 'same': X, 'field': FieldSpec(I, field)}[domran]

                def scenario(tag):
                    """fresh, identically named objects for the source run and the contract run"""
                    A = AbsOp(I, 'A', domb, ranb, False)
                    op = A.op
                    calls = []

                    def ic_in_place(I2, fr2, args, kwargs):
                        x, out = args[0], kwargs.get('out', args[1] if len(args) > 1 else None)
                        calls.append('ip')
                        if not isinstance(out, ip.Obj):
                            raise ip.PyRaise(I2.make_exc('TypeError', 'in-place implementation needs an element as out'))
                        set_content(out, VApp(op.opsym, (content(x),), ranb.field or 'real'))
                        return out if fr2.st.decide(S(__import__('z3').Bool('ic_returns_out'))) else None

                    def ic_out_of_place(I2, fr2, args, kwargs):
                        x = args[0]
                        calls.append('oop')
                        v = VApp(op.opsym, (value_of(x) if isinstance(value_of(x), V) else VConst(value_of(x)),), ranb.field or 'real')
                        if isinstance(ranb, FieldSpec):
                            return fr2.st.lower(v)
                        return ranb.element(cont=v)
                    if kind in ('ip', 'both'):
                        op.fields['_call_in_place'] = ip.Builtin('IC:_call_in_place', ic_in_place)
                    if kind in ('oop', 'both'):
                        op.fields['_call_out_of_place'] = ip.Builtin('IC:_call_out_of_place', ic_out_of_place)
                    if kind == 'ip':
                        op.fields['_call_out_of_place'] = ip.BoundM(I.get_func(OP + '_default_call_out_of_place'), op)
                    if kind == 'oop':
                        op.fields['_call_in_place'] = ip.BoundM(I.get_func(OP + '_default_call_in_place'), op)
                    x = {'elem': lambda: domb.element('x'), 'alien': lambda: Z.element('alien'),
                         'castable': lambda: CastToken(domb, 'x')}[xk]()
                    out = {'none': lambda: None, 'elem': lambda: (ranb.element('out', cont=VFresh('stale', field)) if not isinstance(ranb, FieldSpec) else om.sym_scalar('outs', field)),
                           'alien': lambda: Z.element('alienout'), 'x': lambda: x}[ok]()
                    return op, x, out, calls

                def outcome(f):
                    try:
                        return ('ret', f())
                    except ip.PyRaise as e:
                        return ('raise', e.exc)
                # the domain's element() accepts the castable token (contract of LinearSpace.element)
                base_element = st.cuts[lib.SPACE + 'LinearSpace.element']

                def element(I2, fr2, self, inp=None, **kw):
                    if isinstance(inp, CastToken) and inp.space is self.builder:
                        return self.builder.element(cont=VVar(inp.name, field))
                    if isinstance(inp, CastToken):
                        raise ip.PyRaise(I2.make_exc('TypeError', 'cannot convert'))
                    return base_element(I2, fr2, self, inp, **kw)
                st.cuts[lib.SPACE + 'LinearSpace.element'] = element
                op1, x1, out1, calls1 = scenario('src')
                r1 = outcome(lambda: I.call_func(callf, [op1, x1], {} if out1 is None else {'out': out1}, fr))
                op2, x2, out2, calls2 = scenario('spec')

                def spec():
                    xx = x2
                    if isinstance(xx, CastToken):
                        # contract: input that can be converted to a domain element is converted first
                        xx = I.call(I._getattr(domb.space, 'element', fr), [xx], {}, fr)
                    return oplib.call_contract(I, fr, op2, xx, out2)
                r2 = outcome(spec)
                return ('ok', dict(r1=r1, r2=r2, x1=x1, x2=x2, out1=out1, out2=out2, calls1=calls1, ranb=ranb, fr=fr))
            info = {'kind': kind, 'domran': domran, 'x': xk, 'out': ok, 'field': field}
            for st, (status, r) in ctx.explore(path):
                low = st.lower
                (k1, v1), (k2, v2) = r['r1'], r['r2']
                ctx.prove(st, 'same outcome kind as the contract (return / raise)', k1 == k2, info)
                if k1 != k2:
                    continue
                if k1 == 'raise':
                    ctx.prove(st, 'error class as in the contract', lib.exc_name(v1) == lib.exc_name(v2), dict(info, got=lib.exc_name(v1), want=lib.exc_name(v2)))
                    ctx.prove(st, 'rejected before any result is produced (implementation not invoked)', len(r['calls1']) == 0, info)
                    for a, b in ((r['x1'], r['x2']), (r['out1'], r['out2'])):
                        if isinstance(a, ip.Obj):
                            ctx.prove(st, 'error-frame: operand unchanged', lib.eq_goal(low, content(a), content(b)), info)
                    continue
                if r['out1'] is not None:
                    ctx.prove(st, 'returns the very object out', v1 is r['out1'], info)
                if isinstance(r['ranb'], FieldSpec):
                    ctx.prove(st, 'returns a scalar', I.scalar_kind(v1) is not None, info)
                else:
                    ok_ = isinstance(v1, ip.Obj) and I.truth(I.contains(r['ranb'].space, v1, r['fr']), r['fr'])
                    ctx.prove(st, 'returns an element of the range', ok_, info)
                if isinstance(v1, ip.Obj) or I.scalar_kind(v1) is not None:
                    ctx.prove(st, 'value == app(op, x) whatever out held before', lib.eq_goal(low, value_of(v1), value_of(v2)), info)
                if isinstance(r['x1'], ip.Obj) and r['x1'] is not r['out1']:
                    ctx.prove(st, 'input x unchanged', lib.eq_goal(low, content(r['x1']), VVar(r['x1'].ename, field)), info)
                ctx.prove(st, 'implementation invoked exactly once', len(r['calls1']) == 1, info)
    return Unit('protocol/%s/%s/%s' % (kind, domran, field), run,
                funcs=[OP + 'Operator.__call__', OP + '_default_call_out_of_place', OP + '_default_call_in_place'],
                config={'kind': kind, 'domran': domran, 'field': field})


class CastToken(object):
    """an array-like that `space.element` can convert (and other spaces cannot)"""

    def __init__(self, space, name):
        self.space, self.name = space, name

    def pv_getattr(self, I, fr, name):
        raise ip.PyRaise(I.make_exc('AttributeError', name))


# --------------------------------------------------------------------------
# bounded cross-check of the Operator.__new__ contract

def unit_dispatch():
    def run(ctx):
        import importlib
        import inspect
        import pkgutil
        import os
        import sys
        root = os.environ.get('PYVC_REPO', '/repo')
        if root not in sys.path:
            sys.path.insert(0, root)
        import odl
        from odl.operator.operator import Operator, _dispatch_call_args
        seen = set()
        mods = []
        for m in pkgutil.walk_packages(odl.__path__, 'odl.'):
            if '.contrib' in m.name or '.test' in m.name:
                continue
            try:
                mods.append(importlib.import_module(m.name))
            except Exception:
                continue
        for mod in mods:
            for name, cls in vars(mod).items():
                if not (inspect.isclass(cls) and issubclass(cls, Operator)) or cls in seen:
                    continue
                seen.add(cls)
                try:
                    real = _dispatch_call_args(cls)[:2]
                except Exception as e:
                    real = ('error', type(e).__name__)
                # AST rule of oplib.new_contract
                call = None
                for k in cls.mro():
                    if '_call' in k.__dict__:
                        call = k.__dict__['_call']
                        break
                try:
                    src = inspect.getsource(call)
                    node = ast.parse(__import__('textwrap').dedent(src)).body[0]
                    a = node.args
                    pos = [p.arg for p in a.args][1:]
                    kwonly = [p.arg for p in a.kwonlyargs]
                    if len(pos) == 1:
                        mine = ('out' in kwonly, 'out' in kwonly)
                    elif len(pos) == 2 and pos[1] == 'out':
                        mine = (True, bool(a.defaults))
                    else:
                        mine = ('error', 'ValueError')
                except Exception as e:
                    mine = ('nosource', str(e))
                ok = tuple(real) == tuple(mine) or (real[0] == 'error' and mine[0] == 'error')
                ctx.bounded('dispatch rule agrees with _dispatch_call_args', ok, {'class': '%s.%s' % (cls.__module__, cls.__name__)},
                            detail='real %r vs AST rule %r' % (real, mine), nontrivial='_call' in cls.__dict__)
    return Unit('dispatch/all-operator-classes', run, funcs=[OP + '_dispatch_call_args'], kind='B')


def units(tier, seed):
    from contracts.props import C10, C04
    us = []
    for field in ('real', 'complex'):
        for kind in ('ip', 'oop', 'both'):
            for domran in ('distinct', 'same', 'field'):
                if domran == 'field' and kind == 'ip':
                    continue        # mandatory `out` is not allowed for functionals (Operator.__init__ raises)
                us.append(unit_protocol(kind, domran, field))
    for f, opts in makers.PROX_CASES:
        u = C10.unit_prox(f, opts, props=('C03',))
        u.name = 'impl/' + u.name
        us.append(u)
    for field in ('real', 'complex'):
        for c, v in makers.DOP_CASES:
            u = C10.unit_dop(c, v, field, props=('C03',))
            u.name = 'impl/' + u.name
            us.append(u)
        for c in sorted(C04.VARIANTS):
            u = C10.unit_expr_class(c, field, props=('C03',))
            u.name = 'impl/' + u.name
            us.append(u)
    us.append(unit_dispatch())
    us.append(C10.unit_canary())
    return us


def replay(ob):
    from contracts import replay_forms
    return replay_forms.replay(ob)
