"""C03 - operator calls: in-place equals out-of-place, input untouched, result in range.

protocol/*   the real Operator.__call__, _default_call_out_of_place and _default_call_in_place are
             proved to refine the call contract (oplib.call_contract) for an arbitrary operator whose
             _call_in_place / _call_out_of_place satisfy the implementation contract IC: domain / range /
             functional errors are raised before the implementation is invoked (ghost call counter),
             the result is in the range, `out` is returned as the very object, x is untouched.
impl/*       IC for concrete `_call`s: every proximal, default operator and expression class (through
             the makers shared with C10): out-of-place result is a new range element that is neither
             the input, a stored vector nor a view; in-place result equals the out-of-place value
             whatever `out` held before (no stale read); x and stored vectors unchanged.
pspace/*     ProductSpaceOperator._call for enumerated entry patterns of the operator matrix (every visiting ORDER of every non-empty subset of a
             2 x 2 matrix, duplicates, empty rows, 2 x 3 / 3 x 2 samples) with arbitrary operators and inputs: in-place == out-of-place == row sums,
             stale `out` content never read, out returned, x untouched.
dispatch/*   bounded cross-check of the assumed Operator.__new__ contract: for every Operator subclass
             importable from odl the AST-derived (has_out, out_optional) is compared with the real
             _dispatch_call_args.
"""
import ast
import itertools

from pyvc import core, interp as ip, odlmodel as om
from pyvc.core import S, C, V, VVar, VConst, VFresh, VLin, VPw, VApp, Unsupported
from pyvc.harness import Unit
from contracts import lib, oplib, tlib, callforms, makers
from contracts.lib import content, set_content
from contracts.oplib import OP, AbsOp, FieldSpec, value_of

META = {
    'level': 'proof',
    'trusted_base': [
        'pyvc symbolic interpreter (A7); element-API contracts (C01 arithmetic, C17 ufuncs, C02 norms)',
        'contract of Operator.__new__/_dispatch_call_args (signature -> call-form binding): assumed in the deductive units, '
        'cross-checked natively against the real function for every Operator subclass (bounded unit dispatch/*)',
        'A1 reals',
    ],
    'assumptions': ['A1', 'A2', 'A5', 'A7'],
    'not_decided': [
        '_call of operators outside the makers: tensor_ops (MatrixOperator, sampling), pspace_ops other than ProductSpaceOperator (whose entry patterns are enumerated up to 2 x 2 / samples), diff_ops, discr_ops, '
        'ufunc_ops, Fourier / wavelet / ray transforms - not under contract in this property (diff_ops and resizing kernels are '
        'verified functionally in C13 / C16); conversion of array-likes by domain.element / range.element (C20)',
    ],
    'bounded_rule': 'dispatch/*: one evaluation per Operator subclass found by importing every odl module (contrib excluded); '
                    'non-trivial = class defines its own _call',
}


def unit_protocol(kind, domran, field):
    """kind: 'ip' (in-place only), 'oop' (out-of-place only), 'both'"""
    def run(ctx):
        I = ctx.I
        callf = I.get_func(OP + 'Operator.__call__')
        xkinds = ['elem', 'alien', 'castable']
        okinds = ['none', 'elem', 'alien'] + (['x'] if domran == 'same' else [])
        for xk, ok in itertools.product(xkinds, okinds):
            def path(st, xk=xk, ok=ok):
                st.cuts.update(lib.space_api_cuts(oplib.make_elem_by_builder))
                st.cuts.update(lib.elem_api_cuts(oplib.make_elem_by_builder))
                fr = ip.Frame(st)
                X = oplib.register_space(lib.AbstractSpace(I, 'X', field))
                Y = oplib.register_space(lib.AbstractSpace(I, 'Y', field))
                Z = oplib.register_space(lib.AbstractSpace(I, 'Z', field))
                domb = X
                ranb = {'distinct': Y, 'same': X, 'field': FieldSpec(I, field)}[domran]

                def scenario(tag):
                    """fresh, identically named objects for the source run and the contract run"""
                    A = AbsOp(I, 'A', domb, ranb, False)
                    op = A.op
                    calls = []

                    def ic_in_place(I2, fr2, args, kwargs):
                        x, out = args[0], kwargs.get('out', args[1] if len(args) > 1 else None)
                        calls.append('ip')
                        if not isinstance(out, ip.Obj):
                            raise ip.PyRaise(I2.make_exc('TypeError', 'in-place implementation needs an element as out'))
                        set_content(out, VApp(op.opsym, (content(x),), ranb.field or 'real'))
                        return out if fr2.st.decide(S(__import__('z3').Bool('ic_returns_out'))) else None

                    def ic_out_of_place(I2, fr2, args, kwargs):
                        x = args[0]
                        calls.append('oop')
                        v = VApp(op.opsym, (value_of(x) if isinstance(value_of(x), V) else VConst(value_of(x)),), ranb.field or 'real')
                        if isinstance(ranb, FieldSpec):
                            return fr2.st.lower(v)
                        return ranb.element(cont=v)
                    if kind in ('ip', 'both'):
                        op.fields['_call_in_place'] = ip.Builtin('IC:_call_in_place', ic_in_place)
                    if kind in ('oop', 'both'):
                        op.fields['_call_out_of_place'] = ip.Builtin('IC:_call_out_of_place', ic_out_of_place)
                    if kind == 'ip':
                        op.fields['_call_out_of_place'] = ip.BoundM(I.get_func(OP + '_default_call_out_of_place'), op)
                    if kind == 'oop':
                        op.fields['_call_in_place'] = ip.BoundM(I.get_func(OP + '_default_call_in_place'), op)
                    x = {'elem': lambda: domb.element('x'), 'alien': lambda: Z.element('alien'),
                         'castable': lambda: CastToken(domb, 'x')}[xk]()
                    out = {'none': lambda: None, 'elem': lambda: (ranb.element('out', cont=VFresh('stale', field)) if not isinstance(ranb, FieldSpec) else om.sym_scalar('outs', field)),
                           'alien': lambda: Z.element('alienout'), 'x': lambda: x}[ok]()
                    return op, x, out, calls

                def outcome(f):
                    try:
                        return ('ret', f())
                    except ip.PyRaise as e:
                        return ('raise', e.exc)
                # the domain's element() accepts the castable token (contract of LinearSpace.element)
                base_element = st.cuts[lib.SPACE + 'LinearSpace.element']

                def element(I2, fr2, self, inp=None, **kw):
                    if isinstance(inp, CastToken) and inp.space is self.builder:
                        return self.builder.element(cont=VVar(inp.name, field))
                    if isinstance(inp, CastToken):
                        raise ip.PyRaise(I2.make_exc('TypeError', 'cannot convert'))
                    return base_element(I2, fr2, self, inp, **kw)
                st.cuts[lib.SPACE + 'LinearSpace.element'] = element
                op1, x1, out1, calls1 = scenario('src')
                r1 = outcome(lambda: I.call_func(callf, [op1, x1], {} if out1 is None else {'out': out1}, fr))
                op2, x2, out2, calls2 = scenario('spec')

                def spec():
                    xx = x2
                    if isinstance(xx, CastToken):
                        # contract: input that can be converted to a domain element is converted first
                        xx = I.call(I._getattr(domb.space, 'element', fr), [xx], {}, fr)
                    return oplib.call_contract(I, fr, op2, xx, out2)
                r2 = outcome(spec)
                return ('ok', dict(r1=r1, r2=r2, x1=x1, x2=x2, out1=out1, out2=out2, calls1=calls1, ranb=ranb, fr=fr))
            info = {'kind': kind, 'domran': domran, 'x': xk, 'out': ok, 'field': field}
            for st, (status, r) in ctx.explore(path):
                low = st.lower
                (k1, v1), (k2, v2) = r['r1'], r['r2']
                ctx.prove(st, 'same outcome kind as the contract (return / raise)', k1 == k2, info)
                if k1 != k2:
                    continue
                if k1 == 'raise':
                    ctx.prove(st, 'error class as in the contract', lib.exc_name(v1) == lib.exc_name(v2), dict(info, got=lib.exc_name(v1), want=lib.exc_name(v2)))
                    ctx.prove(st, 'rejected before any result is produced (implementation not invoked)', len(r['calls1']) == 0, info)
                    for a, b in ((r['x1'], r['x2']), (r['out1'], r['out2'])):
                        if isinstance(a, ip.Obj):
                            ctx.prove(st, 'error-frame: operand unchanged', lib.eq_goal(low, content(a), content(b)), info)
                    continue
                if r['out1'] is not None:
                    ctx.prove(st, 'returns the very object out', v1 is r['out1'], info)
                if isinstance(r['ranb'], FieldSpec):
                    ctx.prove(st, 'returns a scalar', I.scalar_kind(v1) is not None, info)
                else:
                    ok_ = isinstance(v1, ip.Obj) and I.truth(I.contains(r['ranb'].space, v1, r['fr']), r['fr'])
                    ctx.prove(st, 'returns an element of the range', ok_, info)
                if isinstance(v1, ip.Obj) or I.scalar_kind(v1) is not None:
                    ctx.prove(st, 'value == app(op, x) whatever out held before', lib.eq_goal(low, value_of(v1), value_of(v2)), info)
                if isinstance(r['x1'], ip.Obj) and r['x1'] is not r['out1']:
                    ctx.prove(st, 'input x unchanged', lib.eq_goal(low, content(r['x1']), VVar(r['x1'].ename, field)), info)
                ctx.prove(st, 'implementation invoked exactly once', len(r['calls1']) == 1, info)
    return Unit('protocol/%s/%s/%s' % (kind, domran, field), run,
                funcs=[OP + 'Operator.__call__', OP + '_default_call_out_of_place', OP + '_default_call_in_place'],
                config={'kind': kind, 'domran': domran, 'field': field})


class CastToken(object):
    """an array-like that `space.element` can convert (and other spaces cannot)"""

    def __init__(self, space, name):
        self.space, self.name = space, name

    def pv_getattr(self, I, fr, name):
        raise ip.PyRaise(I.make_exc('AttributeError', name))


# --------------------------------------------------------------------------
# bounded cross-check of the Operator.__new__ contract

def unit_dispatch():
    def run(ctx):
        import importlib
        import inspect
        import pkgutil
        import os
        import sys
        root = os.environ.get('PYVC_REPO', '/repo')
        if root not in sys.path:
            sys.path.insert(0, root)
        import odl
        from odl.operator.operator import Operator, _dispatch_call_args
        seen = set()
        mods = []
        for m in pkgutil.walk_packages(odl.__path__, 'odl.'):
            if '.contrib' in m.name or '.test' in m.name:
                continue
            try:
                mods.append(importlib.import_module(m.name))
            except Exception:
                continue
        for mod in mods:
            for name, cls in vars(mod).items():
                if not (inspect.isclass(cls) and issubclass(cls, Operator)) or cls in seen:
                    continue
                seen.add(cls)
                try:
                    real = _dispatch_call_args(cls)[:2]
                except Exception as e:
                    real = ('error', type(e).__name__)
                # AST rule of oplib.new_contract
                call = None
                for k in cls.mro():
                    if '_call' in k.__dict__:
                        call = k.__dict__['_call']
                        break
                try:
                    src = inspect.getsource(call)
                    node = ast.parse(__import__('textwrap').dedent(src)).body[0]
                    a = node.args
                    pos = [p.arg for p in a.args][1:]
                    kwonly = [p.arg for p in a.kwonlyargs]
                    if len(pos) == 1:
                        mine = ('out' in kwonly, 'out' in kwonly)
                    elif len(pos) == 2 and pos[1] == 'out':
                        mine = (True, bool(a.defaults))
                    else:
                        mine = ('error', 'ValueError')
                except Exception as e:
                    mine = ('nosource', str(e))
                ok = tuple(real) == tuple(mine) or (real[0] == 'error' and mine[0] == 'error')
                ctx.bounded('dispatch rule agrees with _dispatch_call_args', ok, {'class': '%s.%s' % (cls.__module__, cls.__name__)},
                            detail='real %r vs AST rule %r' % (real, mine), nontrivial='_call' in cls.__dict__)
    return Unit('dispatch/all-operator-classes', run, funcs=[OP + '_dispatch_call_args'], kind='B')


PSO = 'odl.operator.pspace_ops:'


def unit_pspace_call(m, n, entries):
    """ProductSpaceOperator._call for an m x n operator matrix whose COO entries are visited in the given ORDER (rows need not be sorted, several
    operators per row, empty rows): with arbitrary operators A_k (Operator.__call__ by its contract) and arbitrary inputs, out-of-place and in-place
    results are  out[i] == sum_{k: row_k == i} A_k(x[col_k])  (zero for an empty row) whatever `out` held before, `out` is returned as the very
    object, x is untouched.  Proof per entry pattern (all inputs, all operators); the patterns are enumerated."""
    def run(ctx):
        I = ctx.I

        def path(st):
            tlib.install(st)
            st.cuts.update(oplib.operator_cuts())
            st.object_arrays = True
            fr = ip.Frame(st)
            X = makers.tspace(I, st, 'X', 'real')
            ops = [AbsOp(I, 'A%d' % k, X, X, linear=False) for k in range(len(entries))]

            class PVec(object):
                def __init__(self, comps):
                    self.comps = list(comps)

                def pv_getitem(self, I_, fr_, idx):
                    return self.comps[int(idx)]

                def pv_setitem(self, I_, fr_, idx, val):
                    self.comps[int(idx)] = val

                def pv_iter(self, I_, fr_):
                    return iter(list(self.comps))

                def pv_getattr(self, I_, fr_, name):
                    raise Unsupported('product space element .%s' % name)

            class Ran(object):
                def pv_getattr(self, I_, fr_, name):
                    if name == 'zero':
                        return ip.Builtin('zero', lambda I2, fr2, a, k: PVec([X.element(cont=VConst(0.0)) for _ in range(m)]))
                    if name == '__len__':
                        return ip.Builtin('len', lambda I2, fr2, a, k: m)
                    raise Unsupported('range.%s' % name)

                def pv_len(self, I_, fr_):
                    return m

            class Coo(object):
                def pv_getattr(self, I_, fr_, name):
                    if name == 'row':
                        return [e[0] for e in entries]
                    if name == 'col':
                        return [e[1] for e in entries]
                    if name == 'data':
                        return [o.op for o in ops]
                    raise Unsupported('ops.%s' % name)
            op = ip.Obj(I.get_class(PSO + 'ProductSpaceOperator'))
            op.fields.update({'_Operator__domain': None, '_Operator__range': Ran(), '_Operator__is_linear': False, '_ProductSpaceOperator__ops': Coo()})
            x = PVec([X.element('x%d' % j) for j in range(n)])
            x0 = [content(c) for c in x.comps]
            inplace = st.decide_free('inplace') if hasattr(st, 'decide_free') else None
            res = {}
            callf = I.get_class(PSO + 'ProductSpaceOperator').lookup('_call')
            f = I.class_entry_value(callf[0], '_call', callf[1])
            try:
                res['oop'] = I.call(f, [op, x], {}, fr)
                out = PVec([X.element('old%d' % i) for i in range(m)])
                objs = list(out.comps)
                res['ip'] = I.call(f, [op, x, out], {}, fr)
            except ip.PyRaise as e:
                return ('raise', e.exc)
            return ('ok', dict(res=res, out=out, objs=objs, x=x, x0=x0, ops=ops, fr=fr, X=X))
        info = {'shape': [m, n], 'entries': [list(e) for e in entries]}
        for st, (status, r) in ctx.explore(path):
            if status == 'raise':
                ctx.fail(st, 'no_raise', 'raises %s' % lib.exc_desc(r), info)
                continue
            low = st.lower
            fr = r['fr']
            want = []
            for i in range(m):
                acc = core._sc(0.0)
                for k, (ri, cj) in enumerate(entries):
                    if ri == i:
                        acc = acc + low(oplib.app_abstract(I, fr, r['ops'][k].op, r['x0'][cj]))
                want.append(acc)
            oop, ipr = r['res']['oop'], r['res']['ip']
            ctx.prove(st, 'out-of-place: a product-space element with one component per row', hasattr(oop, 'comps') and len(oop.comps) == m, info)
            ctx.prove(st, 'in-place: `out` is returned as the very object, its components are the very objects', ipr is r['out'] and all(a is b for a, b in zip(ipr.comps, r['objs'])), info)
            for i in range(m):
                if hasattr(oop, 'comps') and len(oop.comps) == m:
                    ctx.prove(st, 'out-of-place: component %d == sum of the operators of row %d' % (i, i), core.sc_eq(low(content(oop.comps[i])), want[i]), info)
                ctx.prove(st, 'in-place: component %d == sum of the operators of row %d, whatever out held before' % (i, i), core.sc_eq(low(content(r['out'].comps[i])), want[i]), info)
            for j in range(n):
                ctx.prove(st, 'x[%d] is untouched' % j, core.sc_eq(low(content(r['x'].comps[j])), low(r['x0'][j])), info)
    tag = '-'.join('%d%d' % e for e in entries) or 'empty'
    return Unit('pspace/%dx%d/%s' % (m, n, tag), run, funcs=[PSO + 'ProductSpaceOperator._call'], config={'shape': [m, n], 'entries': [list(e) for e in entries]})


def pspace_patterns(tier):
    """entry patterns: every ORDER of every non-empty subset of the cells of a 2 x 2 matrix (64 patterns), a row visited three times, 3 x 2 samples"""
    pats = []
    cells = [(0, 0), (0, 1), (1, 0), (1, 1)]
    for r in range(1, 5):
        for sub in itertools.combinations(cells, r):
            for perm in itertools.permutations(sub):
                pats.append((2, 2, perm))
    pats.append((2, 3, ((0, 0), (1, 1), (0, 1), (1, 0), (0, 2))))
    pats.append((3, 2, ((2, 0), (0, 1), (2, 1), (0, 0))))
    pats.append((2, 2, ((0, 0), (0, 0), (1, 1))))        # the same cell twice (COO allows duplicates: they add up)
    pats.append((3, 1, ()))
    return pats


def matrix_operator_case_check(case):
    """native: MatrixOperator (dense / sparse) along `axis` of a domain of the given shape on EVERY basis vector (the operator is linear: a basis decides all inputs of that
    shape): op(e) == contraction of the matrix with that axis, op(e, out=y) == op(e) whatever y held before, y returned, e untouched"""
    import os
    import sys
    root = os.environ.get('PYVC_REPO', '/repo')
    if root not in sys.path:
        sys.path.insert(0, root)
    import numpy as np
    import scipy.sparse
    import odl
    shape, axis, m, sparse = tuple(case['shape']), case['axis'], case['rows'], case['sparse']
    rng = np.random.default_rng(8)
    M = rng.integers(-3, 4, size=(m, shape[axis])).astype(float)
    dom = odl.rn(shape)
    try:
        op = odl.MatrixOperator(scipy.sparse.coo_matrix(M) if sparse else M, domain=dom, axis=axis)
        for idx in np.ndindex(*shape):
            e = np.zeros(shape)
            e[idx] = 1.0
            x = dom.element(e.copy())
            want = np.moveaxis(np.tensordot(M, e, axes=(1, axis)), 0, axis)
            y1 = op(x)
            out = op.range.element(np.full(op.range.shape, 7.5))
            ret = op(x, out=out)
            if y1.shape != want.shape or not np.allclose(y1.asarray(), want):
                return 'out-of-place result on e_%s differs from the contraction along axis %d' % (idx, axis)
            if ret is not out or not np.allclose(out.asarray(), want):
                return 'in-place result on e_%s: max deviation %.3g from the out-of-place result' % (idx, float(np.max(np.abs(out.asarray() - want))))
            if not np.array_equal(x.asarray(), e):
                return 'x modified'
    except Exception as ex:
        return 'raised %s: %s' % (type(ex).__name__, ex)
    return None


def unit_matrix_operator_bounded():
    """BOUNDED stand-in (never counted as proved) for MatrixOperator._call (np.dot / tensordot / moveaxis branches outside the deductive subset): see matrix_operator_case_check"""
    def run(ctx):
        for shape in ((3,), (3, 4), (4, 3), (3, 3, 2), (3, 4, 5), (2, 3, 3)):
            for axis in range(len(shape)):
                for m in (2, shape[axis]):
                    for sparse in (False, True):
                        if sparse and len(shape) > 1:
                            continue        # documented: sparse matrices only on 1-d domains
                        case = {'shape': list(shape), 'axis': axis, 'rows': m, 'sparse': sparse}
                        bad = matrix_operator_case_check(case)
                        ctx.bounded('MatrixOperator: in-place == out-of-place == contraction along the axis on every basis vector', not bad, case, detail=bad)
    return Unit('matrix-operator/basis', run, funcs=['odl.operator.tensor_ops:MatrixOperator._call'], kind='B', bounded_in='domain shapes up to 3 axes listed in the unit, every axis, dense and sparse')


def operator_pool():
    """(name, builder) of concrete library operators whose `_call` is outside the deductive units (tensor_ops, pspace_ops, diff_ops, discr_ops, ufunc_ops)"""
    import numpy as np
    import odl
    X = odl.uniform_discr([0, 0], [1, 2], (3, 4))
    R = odl.rn((2, 3))
    r3 = odl.rn(3)
    pool = [('FlatteningOperator', lambda: odl.FlatteningOperator(R)), ('FlatteningOperator.inverse', lambda: odl.FlatteningOperator(R).inverse),
            ('FlatteningOperator(order=F)', lambda: odl.FlatteningOperator(R, order='F')),
            ('MatrixOperator', lambda: odl.MatrixOperator(np.arange(6.0).reshape(2, 3), r3)), ('SamplingOperator', lambda: odl.SamplingOperator(R, [[0, 1], [1, 2]])),
            ('WeightedSumSamplingOperator', lambda: odl.WeightedSumSamplingOperator(R, [[0, 1], [1, 2]])),
            ('PointwiseNorm', lambda: odl.PointwiseNorm(X ** 2)), ('PointwiseInner', lambda: odl.PointwiseInner(X ** 2, (X ** 2).one())), ('PointwiseSum', lambda: odl.PointwiseSum(X ** 2)),
            ('ComponentProjection', lambda: odl.ComponentProjection(r3 ** 2, 1)), ('ComponentProjectionAdjoint', lambda: odl.ComponentProjection(r3 ** 2, 1).adjoint),
            ('BroadcastOperator', lambda: odl.BroadcastOperator(odl.IdentityOperator(r3), odl.ScalingOperator(r3, 2.0))),
            ('ReductionOperator', lambda: odl.ReductionOperator(odl.IdentityOperator(r3), odl.ScalingOperator(r3, 2.0))),
            ('DiagonalOperator', lambda: odl.DiagonalOperator(odl.IdentityOperator(r3), odl.ScalingOperator(r3, 2.0))),
            ('PartialDerivative', lambda: odl.PartialDerivative(X, 0)), ('Gradient', lambda: odl.Gradient(X)), ('Divergence', lambda: odl.Divergence(range=X)), ('Laplacian', lambda: odl.Laplacian(X)),
            ('ResizingOperator', lambda: odl.ResizingOperator(X, ran_shp=(5, 6))), ('Resampling', lambda: odl.Resampling(X, odl.uniform_discr([0, 0], [1, 2], (6, 3)), 'linear')),
            ('RealPart', lambda: odl.RealPart(odl.cn(3))), ('ImagPart', lambda: odl.ImagPart(odl.cn(3))), ('ComplexEmbedding', lambda: odl.ComplexEmbedding(r3)), ('ComplexModulus', lambda: odl.ComplexModulus(odl.cn(3))),
            ('IdentityOperator', lambda: odl.IdentityOperator(r3)), ('PowerOperator', lambda: odl.PowerOperator(r3, 2)), ('InnerProductOperator', lambda: odl.InnerProductOperator(r3.one())),
            ('MultiplyOperator(element)', lambda: odl.MultiplyOperator(r3.element([1.0, -2.0, 0.5]))), ('MultiplyOperator(scalar)', lambda: odl.MultiplyOperator(2.5, domain=r3, range=r3)),
            ('MultiplyOperator(array)', lambda: odl.MultiplyOperator(np.array([1.0, -2.0, 0.5]), domain=r3, range=r3)),
            ('MultiplyOperator(base-space field on a power space)', lambda: odl.MultiplyOperator(X.element(np.arange(12.0).reshape(3, 4) - 5.0), domain=X ** 2, range=X ** 2)),
            ('MultiplyOperator(base-space field).adjoint', lambda: odl.MultiplyOperator(X.element(np.arange(12.0).reshape(3, 4) - 5.0), domain=X ** 2, range=X ** 2).adjoint),
            ('OperatorRightScalarMult(Laplacian)', lambda: odl.operator.operator.OperatorRightScalarMult(odl.Laplacian(X, pad_mode='symmetric'), 2.0)),
            ('ScalingOperator', lambda: odl.ScalingOperator(X, 3.0)), ('ZeroOperator', lambda: odl.ZeroOperator(r3)), ('ConstantOperator', lambda: odl.ConstantOperator(r3.one())),
            ('LinCombOperator', lambda: odl.LinCombOperator(r3, 2.0, -1.5))]
    from odl.ufunc_ops import ufunc_ops as U
    for name in ('sin', 'exp', 'absolute', 'sign', 'square', 'negative', 'modf', 'add', 'maximum', 'arctan2', 'frexp' if hasattr(odl.ufunc_ops, 'frexp') else 'cos'):
        if hasattr(odl.ufunc_ops, name):
            pool.append(('ufunc_ops.' + name, (lambda name=name: getattr(odl.ufunc_ops, name)(r3))))
    return pool


def operator_pool_check(name):
    """native: for the named pool operator and 3 random inputs: op(x) is a range element that shares no memory with x; op(x, out=y) returns y with the values of op(x) whatever
    y held before; x is bit-for-bit unchanged by both calls and by later in-place changes of the result"""
    import os
    import sys
    root = os.environ.get('PYVC_REPO', '/repo')
    if root not in sys.path:
        sys.path.insert(0, root)
    import warnings
    warnings.filterwarnings('ignore')
    import numpy as np
    import odl
    build = dict(operator_pool())[name]
    rng = np.random.default_rng(14)

    def arrays(e):
        if isinstance(e, odl.space.pspace.ProductSpaceElement):
            return [a for p in e.parts for a in arrays(p)]
        return [e.asarray()] if hasattr(e, 'asarray') else []

    def rand(space):
        if isinstance(space, odl.ProductSpace):
            return space.element([rand(s) for s in space.spaces])
        a = rng.uniform(0.5, 2.0, space.shape)
        if getattr(space, 'is_complex', False):
            a = a + 1j * rng.uniform(0.5, 2.0, space.shape)
        return space.element(a)
    try:
        op = build()
        for _ in range(3):
            x = rand(op.domain)
            x0 = [a.copy() for a in arrays(x)]
            y1 = op(x)
            if y1 not in op.range:
                return 'op(x) is not in op.range'
            if any(np.shares_memory(a, b) for a in arrays(y1) for b in arrays(x)) if hasattr(y1, 'space') else False:
                return 'op(x) shares memory with x (a later in-place change of the result changes the input)'
            vals = [a.copy() for a in arrays(y1)] if hasattr(y1, 'space') else y1
            if any(not np.array_equal(a, b) for a, b in zip(arrays(x), x0)):
                return 'op(x) modified x'
            if not hasattr(y1, 'space'):
                continue
            out = rand(op.range)
            try:
                ret = op(x, out=out)
            except Exception as e:
                return 'op(x, out=y) raised %s: %s  (op(x) works)' % (type(e).__name__, str(e)[:120])
            if ret is not out:
                return 'op(x, out=y) did not return y'
            if any(a.shape != b.shape or not np.allclose(a, b, equal_nan=True) for a, b in zip(arrays(out), vals)):
                return 'op(x, out=y) holds %r, op(x) is %r' % ([a.tolist() for a in arrays(out)], [a.tolist() for a in vals])
            if any(not np.array_equal(a, b) for a, b in zip(arrays(x), x0)):
                return 'op(x, out=y) modified x'
    except Exception as e:
        return 'raised %s: %s' % (type(e).__name__, str(e)[:160])
    return None


def unit_operator_pool_bounded():
    """BOUNDED stand-in (never counted as proved) for the `_call`s outside the deductive units: see operator_pool_check"""
    def run(ctx):
        import os
        import sys
        root = os.environ.get('PYVC_REPO', '/repo')
        if root not in sys.path:
            sys.path.insert(0, root)
        import warnings
        warnings.filterwarnings('ignore')
        for name, _ in operator_pool():
            bad = operator_pool_check(name)
            ctx.bounded('library operator: result in range and no view of x, in-place == out-of-place, out returned, x untouched', not bad, {'operator': name}, detail=bad)
    return Unit('operator-pool/native', run, funcs=['odl.operator.tensor_ops:*._call', 'odl.operator.pspace_ops:*._call', 'odl.discr.diff_ops:*._call', 'odl.discr.discr_ops:*._call', 'odl.ufunc_ops.ufunc_ops:*._call'],
                kind='B', bounded_in='one small instance per listed operator class, 3 random inputs each')


def units(tier, seed):
    from contracts.props import C10, C04
    us = []
    for field in ('real', 'complex'):
        for kind in ('ip', 'oop', 'both'):
            for domran in ('distinct', 'same', 'field'):
                if domran == 'field' and kind == 'ip':
                    continue        # mandatory `out` is not allowed for functionals (Operator.__init__ raises)
                us.append(unit_protocol(kind, domran, field))
    for f, opts in makers.PROX_CASES:
        u = C10.unit_prox(f, opts, props=('C03',))
        u.name = 'impl/' + u.name
        us.append(u)
    for field in ('real', 'complex'):
        for c, v in makers.DOP_CASES:
            u = C10.unit_dop(c, v, field, props=('C03',))
            u.name = 'impl/' + u.name
            us.append(u)
        for c in sorted(C04.VARIANTS):
            u = C10.unit_expr_class(c, field, props=('C03',))
            u.name = 'impl/' + u.name
            us.append(u)
    for m, n, entries in pspace_patterns(tier):
        us.append(unit_pspace_call(m, n, entries))
    us.append(unit_dispatch())
    us.append(unit_matrix_operator_bounded())
    us.append(unit_operator_pool_bounded())
    us.append(C10.unit_simplex_bounded())
    us.append(C10.unit_canary())
    return us


def replay_pspace(ob):
    import os
    import sys
    root = os.environ.get('PYVC_REPO', '/repo')
    if root not in sys.path:
        sys.path.insert(0, root)
    import numpy as np
    import odl
    from odl.util import COOMatrix
    cfg = ob.get('config') or {}
    m, n = cfg['shape']
    entries = [tuple(e) for e in cfg['entries']]
    X = odl.rn(3)
    rng = np.random.default_rng(5)
    mats = [rng.standard_normal((3, 3)) for _ in entries]
    if not entries:
        return {'reproduced': False, 'detail': 'empty operator matrix: no native concretisation'}
    data = np.empty(len(entries), dtype=object)
    for k, M in enumerate(mats):
        data[k] = odl.MatrixOperator(M, X, X)
    coo = COOMatrix(data, (np.array([e[0] for e in entries]), np.array([e[1] for e in entries])), (m, n))
    op = odl.ProductSpaceOperator(coo, domain=X ** n, range=X ** m)
    x = op.domain.element([rng.standard_normal(3) for _ in range(n)])
    x0 = x.copy()
    want = [sum((mats[k].dot(x0[e[1]].asarray()) for k, e in enumerate(entries) if e[0] == i), np.zeros(3)) for i in range(m)]
    oop = op(x)
    out = op.range.element([rng.standard_normal(3) for _ in range(m)])
    ret = op(x, out=out)
    for i in range(m):
        if not np.allclose(oop[i].asarray(), want[i]):
            return {'reproduced': True, 'detail': 'out-of-place row %d: %r, expected %r (entries visited in the order %r)' % (i, oop[i].asarray(), want[i], entries), 'input': cfg}
        if not np.allclose(out[i].asarray(), want[i]):
            return {'reproduced': True, 'detail': 'in-place row %d: %r, expected (and out-of-place) %r (entries visited in the order %r)' % (i, out[i].asarray(), want[i], entries), 'input': cfg}
    if ret is not out or (x - x0).norm() != 0:
        return {'reproduced': True, 'detail': 'out not returned / x modified', 'input': cfg}
    return {'reproduced': False, 'detail': 'in-place == out-of-place == row sums for MatrixOperator entries in this order'}


def replay(ob):
    if ob.get('unit', '').startswith('pspace/'):
        return replay_pspace(ob)
    if ob.get('unit', '').startswith('simplex/'):
        from contracts.props import C10
        return C10.replay(ob)
    if ob.get('unit', '').startswith('operator-pool/'):
        bad = operator_pool_check((ob.get('model') or {}).get('operator'))
        return {'reproduced': bool(bad), 'detail': bad or 'holds natively', 'input': ob.get('model')}
    if ob.get('unit', '').startswith('matrix-operator/'):
        bad = matrix_operator_case_check(ob.get('model') or (ob.get('replay') or {}).get('case'))
        return {'reproduced': bool(bad), 'detail': bad or 'holds natively', 'input': ob.get('model')}
    from contracts import replay_forms
    return replay_forms.replay(ob)
