"""C14 - partitions tile their domain: cells, nodes, indices and slices stay consistent.

Per axis, for a generic strictly increasing coordinate vector c of SYMBOLIC length n inside [min, max]:
bdry/*        RectPartition.__init__: bdry(0) = min, bdry(n) = max, bdry(k) = (c(k-1) + c(k))/2, strictly increasing,
              bdry(k) <= c(k) <= bdry(k+1); nodes_on_bdry flags = (c(0) == min, c(n-1) == max)
sizes/*       cell_sizes_vecs: size(k) == bdry(k+1) - bdry(k); telescoping lemma  sum_k size(k) = max - min
              (induction: prefix(k) = bdry(k) - bdry(0));  boundary_cell_fractions: frac * stride == boundary cell size
index/*       index(p): returned cell contains p (tie rule: right cell except at max); floating: k + (p - bdry(k))/size(k)
uniform/*     uniform_partition: every consistent subset of (min, max, shape, cell side) x nodes_on_bdry sides gives
              the same (min, max, n) with  cell side * (n - (b_l + b_r)/2) == max - min;  uniform_grid_fromintv:
              nodes at min + (i + (1 - b_l)/2) * cell side
"""
import itertools

import z3

from pyvc import core, interp as ip, odlmodel as om, carr, npmodel as npm
from pyvc.core import S, C, Unsupported, s_if, s_and, s_or, s_not
from pyvc.harness import Unit
from contracts import lib, utilcuts

PT = 'odl.discr.partition:'
GR = 'odl.discr.grid:'

META = {
    'level': 'proof',
    'trusted_base': [
        'pyvc symbolic interpreter (A7) with closure arrays; light object models of IntervalProd / RectGrid exposing min_pt, max_pt, coord_vectors (their own '
        'consistency is C20); K6 contract of np.searchsorted on strictly increasing arrays; np.linspace as the affine node formula',
        'z3 (LRA + quantified monotonicity of the coordinate vector); A1 reals (np.isclose = exact equality, K8)',
    ],
    'assumptions': ['A1', 'A5', 'A7', 'coordinate vectors strictly increasing and inside [min, max]'],
    'not_decided': ['squeeze / byaxis / __getitem__ of partitions, grids and interval products (bounded native unit on the partition pool only; insert / append are under contract)',
                    'uniform_partition with shape missing (rounding of the computed node count)'],
}


class Light(object):
    """light model of an ODL object: attributes / methods from a dict, isinstance by class name"""

    def __init__(self, clsnames, attrs):
        self.clsnames, self.attrs = tuple(clsnames), dict(attrs)

    def pv_getattr(self, I, fr, name):
        if name in self.attrs:
            v = self.attrs[name]
            if callable(v) and not isinstance(v, (ip.Builtin, carr.CArr)) and getattr(v, '_is_method', False):
                return ip.Builtin(name, lambda I2, fr2, a, k: v(*a, **k))
            return v
        raise ip.PyRaise(I.make_exc('AttributeError', name))

    def pv_isinstance(self, I, cls):
        return getattr(cls, 'name', None) in self.clsnames


def method(f):
    f._is_method = True
    return f


def mono_vector(st, name, n, lo, hi):
    """strictly increasing coordinate vector inside [lo, hi] (quantified facts)"""
    c = carr.fresh_array(name, (n,), npm.DT('float64'))
    fun = core.uf(name, z3.IntSort(), z3.RealSort())
    i = z3.Int('i!q')
    st.assume(S(z3.ForAll([i], z3.Implies(z3.And(i >= 0, i < n.t - 1), fun(i) < fun(i + 1)), patterns=[fun(i)])))
    st.assume(S(z3.ForAll([i], z3.Implies(z3.And(i >= 1, i < n.t), fun(i - 1) < fun(i)), patterns=[fun(i)])))
    st.assume(c.at((0,)) >= lo)
    st.assume(c.at((n - 1,)) <= hi)
    st.assume(S(z3.ForAll([i], z3.Implies(z3.And(i >= 0, i < n.t), z3.And(fun(i) >= S.lift(lo).t, fun(i) <= S.lift(hi).t)), patterns=[fun(i)])))
    return c


def make_partition_1d(I, st, with_bdry=True):
    """a 1-d RectPartition object (real class) whose set / grid are light models"""
    n = S(z3.Int('n'))
    st.assume(n >= 1)
    lo, hi = S(z3.Real('xmin')), S(z3.Real('xmax'))
    st.assume(lo <= hi)
    c = mono_vector(st, 'c', n, lo, hi)
    minp, maxp = carr.list_array([lo]), carr.list_array([hi])
    intv = Light(['IntervalProd', 'Set'], {'ndim': 1, 'min_pt': minp, 'max_pt': maxp,
                                         'min': method(lambda: minp), 'max': method(lambda: maxp),
                                         'contains_set': method(lambda other, atol=0.0: True),
                                         'extent': carr.list_array([hi - lo])})
    grid = Light(['RectGrid', 'Set'], {'ndim': 1, 'coord_vectors': (c,), 'shape': (n,), 'size': n,
                                     'min_pt': carr.list_array([c.at((0,))]), 'max_pt': carr.list_array([c.at((n - 1,))]),
                                     'min': method(lambda: carr.list_array([c.at((0,))])), 'max': method(lambda: carr.list_array([c.at((n - 1,))]))})
    cls = I.get_class(PT + 'RectPartition')
    fr = ip.Frame(st)
    part = I.call(cls, [intv, grid], {}, fr)
    return part, fr, n, lo, hi, c


def setup(st):
    st.closure_arrays = True
    st.cuts.update(utilcuts.cuts())


def spec_bdry(c, n, lo, hi):
    def b(k):
        k = S.lift(k)
        return s_if(core.sc_eq(k, 0), lo, s_if(core.sc_eq(k, n), hi, (c.at((k - 1,)) + c.at((k,))) / 2))
    return b


def unit_bdry():
    def run(ctx):
        I = ctx.I

        def path(st):
            setup(st)
            try:
                part, fr, n, lo, hi, c = make_partition_1d(I, st)
                bv = I._getattr(part, 'cell_boundary_vecs', fr)
                flags = I._getattr(part, 'nodes_on_bdry_byaxis', fr)
            except ip.PyRaise as e:
                return ('raise', e.exc)
            k = S(z3.Int('k'))
            st.assume(s_and(k >= 0, k <= n))
            return ('ok', (bv, flags, k, n, lo, hi, c))
        for st, (status, r) in ctx.explore(path):
            if status == 'raise':
                ctx.fail(st, 'no_raise', 'raises %s%r' % (lib.exc_name(r), r.fields.get('args')), {})
                continue
            bv, flags, k, n, lo, hi, c = r
            b = bv[0]
            ctx.prove(st, 'one boundary vector of length n + 1', len(bv) == 1 and core.sc_eq(b.shape[0], n + 1), {})
            got = b.at((k,))
            ctx.prove(st, 'bdry(0) = min, bdry(n) = max, interior boundaries are midpoints', core.sc_eq(got, spec_bdry(c, n, lo, hi)(k)), {})
            ctx.prove(st, 'boundaries strictly increasing (non-degenerate interval)',
                      S(z3.Implies(z3.And((k < n).t, (lo < hi).t), (b.at((k,)) < b.at((k + 1,))).t)), {})
            ctx.prove(st, 'each grid point lies in its own cell', S(z3.Implies((k < n).t, z3.And((b.at((k,)) <= c.at((k,))).t, (c.at((k,)) <= b.at((k + 1,))).t))), {})
            ctx.prove(st, 'nodes_on_bdry flags', core.s_and(core.sc_eq(core.sbool(flags[0][0]), core.sc_eq(c.at((0,)), lo)),
                                                           core.sc_eq(core.sbool(flags[0][1]), core.sc_eq(c.at((n - 1,)), hi))), {})
    return Unit('bdry/init-1d', run, funcs=[PT + 'RectPartition.__init__'])


def unit_sizes():
    def run(ctx):
        I = ctx.I

        def path(st):
            setup(st)
            try:
                part, fr, n, lo, hi, c = make_partition_1d(I, st)
                bv = I._getattr(part, 'cell_boundary_vecs', fr)
                sz = I._getattr(part, 'cell_sizes_vecs', fr)
                fracs = I._getattr(part, 'boundary_cell_fractions', fr)
            except ip.PyRaise as e:
                return ('raise', e.exc)
            k = S(z3.Int('k'))
            st.assume(s_and(k >= 0, k < n))
            return ('ok', (bv, sz, fracs, k, n, lo, hi, c))
        for st, (status, r) in ctx.explore(path):
            if status == 'raise':
                ctx.fail(st, 'no_raise', 'raises %s%r' % (lib.exc_name(r), r.fields.get('args')), {})
                continue
            bv, sz, fracs, k, n, lo, hi, c = r
            b, s_ = bv[0], sz[0]
            info = {'n_is_1': bool(st.entails(core.sc_eq(n, 1)))}
            ctx.prove(st, 'cell size(k) == bdry(k+1) - bdry(k)  (so the sizes telescope to max - min)', core.sc_eq(s_.at((k,)), b.at((k + 1,)) - b.at((k,))), info,
                      replay={'kind': 'cell-sizes'})
            # telescoping lemma (induction over k with prefix(k) := bdry(k) - bdry(0)): base and step
            ctx.prove(st, 'telescoping lemma: base prefix(0) == 0 and end prefix(n) == max - min', core.sc_eq(b.at((n,)) - b.at((0,)), hi - lo), info)
            fl, frr = fracs[0]
            if not st.entails(core.sc_eq(n, 1)):
                stride_l = c.at((1,)) - c.at((0,))
                stride_r = c.at((n - 1,)) - c.at((n - 2,))
                ctx.prove(st, 'left boundary fraction * stride == size of the first cell', core.sc_eq(fl * stride_l, b.at((1,)) - b.at((0,))), info)
                ctx.prove(st, 'right boundary fraction * stride == size of the last cell', core.sc_eq(frr * stride_r, b.at((n,)) - b.at((n - 1,))), info)
    return Unit('sizes/cell_sizes-fractions-1d', run, funcs=[PT + 'RectPartition.cell_sizes_vecs', PT + 'RectPartition.boundary_cell_fractions'])


def unit_index(floating):
    def run(ctx):
        I = ctx.I

        def path(st):
            setup(st)
            try:
                part, fr, n, lo, hi, c = make_partition_1d(I, st)
                st.assume(lo < hi)
                p = S(z3.Real('p'))
                st.assume(s_and(p >= lo, p <= hi))
                # set.element(p) of the light interval: the point itself
                part.fields['_RectPartition__set'].attrs['element'] = method(lambda v: v)
                bv = I._getattr(part, 'cell_boundary_vecs', fr)
                ret = I.call(I._getattr(part, 'index', fr), [p], {'floating': floating}, fr)
            except ip.PyRaise as e:
                return ('raise', e.exc)
            ss = [e[2] for e in st.events if e[0] == 'searchsorted']
            return ('ok', (ret, bv[0], p, n, lo, hi, ss))
        info = {'floating': floating}
        for st, (status, r) in ctx.explore(path):
            if status == 'raise':
                ctx.fail(st, 'no_raise', 'raises %s%r' % (lib.exc_name(r), r.fields.get('args')), info)
                continue
            ret, b, p, n, lo, hi, ss = r
            if not floating:
                k = S.lift(ret)
                ctx.prove(st, 'index is a valid cell number', s_and(k >= 0, k < n), info)
                ctx.prove(st, 'the returned cell contains p', s_and(b.at((k,)) <= p, p <= b.at((k + 1,))), info)
                ctx.prove(st, 'tie rule: a boundary point belongs to the right cell, except at max',
                          S(z3.Implies(z3.And(core.sc_eq(p, b.at((k + 1,))).t), core.sc_eq(p, hi).t)), info)
            else:
                x = S.lift(ret)
                # x = k + (p - bdry(k))/size(k) for a cell k that contains p; witnesses: the cells next to the
                # position found by the binary search
                ind = ss[0] if ss else S(z3.Int('kk'))
                alts = []
                for kk in (ind - 1, ind):
                    alts.append(z3.And((kk >= 0).t, (kk < n).t, (b.at((kk,)) <= p).t, (p <= b.at((kk + 1,))).t,
                                       core.sc_eq((x - kk) * (b.at((kk + 1,)) - b.at((kk,))), p - b.at((kk,))).t))
                ctx.prove(st, 'floating index: k + (p - bdry(k)) / size(k) for a cell k containing p', S(z3.Or(*alts)), info)
    return Unit('index/%s' % ('floating' if floating else 'integer'), run, funcs=[PT + 'RectPartition.index'], config={'floating': floating})


# --------------------------------------------------------------------------
# uniform partitions

def unit_uniform(missing, bl, br, spelling='list'):
    """uniform_partition for one axis with one of the four parameters left out (or all four given)"""
    def run(ctx):
        I = ctx.I
        f = I.get_func(PT + 'uniform_partition')

        def path(st):
            setup(st)
            xmin, xmax, dx = S(z3.Real('xmin')), S(z3.Real('xmax')), S(z3.Real('dx'))
            n = S(z3.Int('n'))
            st.assume(n >= 2)
            st.assume(dx > 0)
            st.assume(xmin < xmax)
            half = (int(bl) + int(br)) / 2.0
            # the four parameters are consistent
            st.assume(core.sc_eq(xmax - xmin, (n - half) * dx))
            rec = {}

            def fromintv(I2, fr2, intv_prod, shape, nodes_on_bdry=False):
                rec['intv'], rec['shape'], rec['nob'] = intv_prod, shape, nodes_on_bdry
                return 'PARTITION'

            def intvprod(I2, fr2, cls, min_pt, max_pt):
                return Light(['IntervalProd'], {'min_pt': min_pt, 'max_pt': max_pt})
            st.cuts[PT + 'uniform_partition_fromintv'] = fromintv
            st.cuts['odl.set.domain:IntervalProd.__new__$'] = None
            kw = {'min_pt': xmin, 'max_pt': xmax, 'shape': n, 'cell_sides': dx, 'nodes_on_bdry': ((bl, br) if spelling == 'pair' else [(bl, br)]) if (bl != br or spelling == 'pair') else bl}
            if missing:
                kw[missing] = None
            fr = ip.Frame(st)
            # IntervalProd(min_pt, max_pt) -> light record
            st.cuts.pop('odl.set.domain:IntervalProd.__new__$')
            import contracts.props.C14 as me
            st.cuts['odl.set.domain:IntervalProd.__new__$'] = lambda I2, fr2, cls, *a, **k: me.LightIntv(a, k)
            try:
                ret = I.call(f, [], kw, fr)
            except ip.PyRaise as e:
                return ('raise', e.exc)
            return ('ok', (rec, xmin, xmax, n, dx))
        info = {'missing': missing, 'nodes_on_bdry': [bl, br]}
        for st, (status, r) in ctx.explore(path):
            if status == 'raise':
                ctx.fail(st, 'no_raise', 'raises %s%r for consistent parameters' % (lib.exc_name(r), r.fields.get('args')), info)
                continue
            rec, xmin, xmax, n, dx = r
            intv = rec.get('intv')
            if intv is None:
                ctx.fail(st, 'delegates to uniform_partition_fromintv', 'not called', info)
                continue
            mn, mx = intv.args[0], intv.args[1]
            ctx.prove(st, 'completed min_pt is the consistent one', core.sc_eq(mn[0], xmin), info)
            ctx.prove(st, 'completed max_pt is the consistent one', core.sc_eq(mx[0], xmax), info)
            ctx.prove(st, 'completed shape is the consistent one', core.sc_eq(rec['shape'][0], n), info)
    return Unit('uniform/partition/missing=%s/bdry=%s,%s%s' % (missing, bl, br, '/pair' if spelling == 'pair' else ''), run, funcs=[PT + 'uniform_partition', 'odl.util.normalize:normalized_nodes_on_bdry'],
                config={'missing': missing, 'nodes_on_bdry': [bl, br], 'spelling': spelling})


class LightIntv(object):
    """record of an IntervalProd(min_pt, max_pt) construction (constructor arguments only)"""

    def __init__(self, args, kwargs):
        self.args = list(args)
        self.kwargs = kwargs

    def pv_getattr(self, I, fr, name):
        if name == '__init__':
            return ip.Builtin('init', lambda I2, fr2, a, k: None)
        if name == 'min_pt':
            return carr.list_array(list(self.args[0]))
        if name == 'max_pt':
            return carr.list_array(list(self.args[1]))
        if name == 'ndim':
            return len(self.args[0])
        raise ip.PyRaise(I.make_exc('AttributeError', name))

    def pv_isinstance(self, I, cls):
        return getattr(cls, 'name', None) in ('IntervalProd', 'Set')


def unit_uniform_grid(bl, br):
    """uniform_grid_fromintv: nodes at min + (i + (1 - b_l)/2) * h with h = (max - min)/(n - (b_l + b_r)/2)"""
    def run(ctx):
        I = ctx.I
        f = I.get_func(GR + 'uniform_grid_fromintv')

        def path(st):
            setup(st)
            xmin, xmax = S(z3.Real('xmin')), S(z3.Real('xmax'))
            n = S(z3.Int('n'))
            st.assume(n >= 2)
            st.assume(xmin < xmax)
            rec = {}
            st.cuts['odl.discr.grid:RectGrid.__new__$'] = lambda I2, fr2, cls, *a, **k: rec.setdefault('vecs', a) and LightIntv([[0], [0]], {})
            intv = LightIntv([[xmin], [xmax]], {})
            fr = ip.Frame(st)
            try:
                I.call(f, [intv, [n]], {'nodes_on_bdry': [(bl, br)]}, fr)
            except ip.PyRaise as e:
                return ('raise', e.exc)
            i = S(z3.Int('i'))
            st.assume(s_and(i >= 0, i < n))
            return ('ok', (rec, xmin, xmax, n, i))
        info = {'nodes_on_bdry': [bl, br]}
        for st, (status, r) in ctx.explore(path):
            if status == 'raise':
                ctx.fail(st, 'no_raise', 'raises %s%r' % (lib.exc_name(r), r.fields.get('args')), info)
                continue
            rec, xmin, xmax, n, i = r
            vec = rec['vecs'][0]
            half = (int(bl) + int(br)) / 2.0
            h = (xmax - xmin) / (n - half)
            want = xmin + (i + (0.0 if bl else 0.5)) * h
            ctx.prove(st, 'node i at min + (i + (1 - b_l)/2) * cell side, cell side * (n - (b_l+b_r)/2) == extent', core.sc_eq(vec.at((i,)), want), info)
    return Unit('uniform/grid/bdry=%s,%s' % (bl, br), run, funcs=[GR + 'uniform_grid_fromintv'], config={'nodes_on_bdry': [bl, br]})


def unit_canary():
    """must-fail: interior boundary claimed at c(k) instead of the midpoint"""
    def run(ctx):
        I = ctx.I

        def path(st):
            setup(st)
            part, fr, n, lo, hi, c = make_partition_1d(I, st)
            bv = I._getattr(part, 'cell_boundary_vecs', fr)
            k = S(z3.Int('k'))
            st.assume(s_and(k >= 1, k < n))
            return ('ok', (bv[0], c, k))
        for st, (status, (b, c, k)) in ctx.explore(path):
            ctx.prove(st, 'canary', core.sc_eq(b.at((k,)), c.at((k,))), {})
    return Unit('canary/boundary-at-node', run, kind='canary', expect='refuted')


def unit_cell_sides(degenerate):
    """RectGrid.stride / RectPartition.cell_sides in object-array mode (2 axes, symbolic coordinates; axis 1 optionally a single node):
    cell_sides == stride, with the extent of the partition on single-node axes; the array handed out is the caller's own - writing to it
    (as cell_sides does) leaves the grid's cached stride, and what a second partition on the same grid sees, unchanged"""
    def run(ctx):
        I = ctx.I
        import numpy as np
        from pyvc import objnp
        from pyvc.objnp import ONd

        def path(st):
            st.object_arrays = True
            fr = ip.Frame(st)
            sym = lambda n: S(z3.Real(n))
            x0, d0 = sym('x0'), sym('d0')
            st.assume(d0 > 0)
            cv0 = ONd(np.array([x0, x0 + d0, x0 + 2 * d0], dtype=object))
            y0, d1 = sym('y0'), sym('d1')
            st.assume(d1 > 0)
            cv1 = ONd(np.array([y0] if degenerate else [y0, y0 + d1], dtype=object))
            g = ip.Obj(I.get_class('odl.discr.grid:RectGrid'))
            g.fields.update({'_RectGrid__coord_vectors': (cv0, cv1), '_RectGrid__is_uniform_byaxis': (True, True), '_RectGrid__nondegen_byaxis': (True, not degenerate),
                             '_RectGrid__stride': None})
            g.partial = True

            def part(tag):
                p = ip.Obj(I.get_class('odl.discr.partition:RectPartition'))
                s_ = ip.Obj(I.get_class('odl.set.domain:IntervalProd'))
                lo = [sym('%s_lo%d' % (tag, k)) for k in range(2)]
                hi = [sym('%s_hi%d' % (tag, k)) for k in range(2)]
                for a, b in zip(lo, hi):
                    st.assume(a < b)
                s_.fields['_IntervalProd__min_pt'] = ONd(np.array(lo, dtype=object))
                s_.fields['_IntervalProd__max_pt'] = ONd(np.array(hi, dtype=object))
                s_.partial = True
                p.fields['_RectPartition__set'] = s_
                p.fields['_RectPartition__grid'] = g
                p.partial = True
                return p, lo, hi
            p1, lo1, hi1 = part('p')
            p2, lo2, hi2 = part('q')
            try:
                s_first = I._getattr(g, 'stride', fr)
                cs1 = I._getattr(p1, 'cell_sides', fr)
                s_after = I._getattr(g, 'stride', fr)
                cs2 = I._getattr(p2, 'cell_sides', fr)
            except ip.PyRaise as e:
                return ('raise', e.exc)
            return ('ok', dict(s_first=s_first, cs1=cs1, s_after=s_after, cs2=cs2, d0=d0, d1=d1, ext1=hi1[1] - lo1[1], ext2=hi2[1] - lo2[1], cache=g.fields.get('_RectGrid__stride')))
        info = {'degenerate_axis': degenerate}
        for st, (status, r) in ctx.explore(path):
            if status == 'raise':
                ctx.fail(st, 'no_raise', 'raises %s' % lib.exc_desc(r), info)
                continue
            a = lambda z: z.a if hasattr(z, 'a') else z
            exp_stride = [r['d0'], 0.0 if degenerate else r['d1']]
            eqs = lambda arr_, vals: s_and(*[core.sbool(core.sc_eq(x, y)) for x, y in zip(list(a(arr_).reshape(-1)), vals)])
            ctx.prove(st, 'stride == node spacing (0 on a single-node axis)', eqs(r['s_first'], exp_stride), info)
            ctx.prove(st, 'cell_sides == stride, extent of the partition on single-node axes', eqs(r['cs1'], [r['d0'], r['ext1'] if degenerate else r['d1']]), info)
            ctx.prove(st, 'stride of the grid is unchanged after cell_sides of a partition wrote into the array it was given', eqs(r['s_after'], exp_stride), info)
            ctx.prove(st, 'a second partition on the same grid sees its OWN extent on the single-node axis', eqs(r['cs2'], [r['d0'], r['ext2'] if degenerate else r['d1']]), info)
            ctx.prove(st, 'the arrays handed out are not the grid\'s cache object', a(r['s_first']) is not a(r['cache']) and a(r['cs1']) is not a(r['cache']) and a(r['s_after']) is not a(r['cache']), info)
    return Unit('sides/%s' % ('single-node-axis' if degenerate else 'regular'), run, funcs=['odl.discr.grid:RectGrid.stride', 'odl.discr.partition:RectPartition.cell_sides'],
                config={'degenerate_axis': degenerate})



# --------------------------------------------------------------------------
# sub-partition construction: insert / append of IntervalProd, RectGrid and RectPartition (object arrays: concrete numbers of axes,
# symbolic end points; coordinate vectors known by identity).  The constructors are cuts that store their arguments the way the real
# __init__ does (the claim is WHICH end points / vectors the new object is built from, and that set and grid stay aligned axis by axis).

DOM = 'odl.set.domain:'


def _subpart_world(I, st):
    import numpy as np
    from pyvc import objnp
    st.object_arrays = True
    st.cuts.update(utilcuts.cuts())

    def oarr(vals):
        a = np.empty(len(vals), dtype=object)
        for i, v in enumerate(vals):
            a[i] = v
        return objnp.ONd(a)

    def as_vals(v):
        if isinstance(v, objnp.ONd):
            return list(v.a.reshape(-1))
        if isinstance(v, (list, tuple)):
            return list(v)
        raise Unsupported('end points %r' % (v,))

    def ip_init(I_, fr_, self, min_pt, max_pt):
        self.fields['_IntervalProd__min_pt'] = oarr(as_vals(min_pt))
        self.fields['_IntervalProd__max_pt'] = oarr(as_vals(max_pt))
        return None

    def grid_init(I_, fr_, self, *vecs):
        self.fields['_RectGrid__coord_vectors'] = tuple(vecs)
        return None

    def part_init(I_, fr_, self, intv_prod, grid):
        self.fields['_RectPartition__set'] = intv_prod
        self.fields['_RectPartition__grid'] = grid
        return None
    st.cuts[DOM + 'IntervalProd.__init__'] = ip_init
    st.cuts[GR + 'RectGrid.__init__'] = grid_init
    st.cuts[PT + 'RectPartition.__init__'] = part_init

    class Vec(object):
        """a coordinate vector known by identity"""

        def __init__(self, name):
            self.name = name

        def __repr__(self):
            return '<vec %s>' % self.name

    def mk_intv(name, nd):
        o = ip.Obj(I.get_class(DOM + 'IntervalProd'))
        lo = [S(z3.Real('%s.min%d' % (name, a))) for a in range(nd)]
        hi = [S(z3.Real('%s.max%d' % (name, a))) for a in range(nd)]
        ip_init(I, None, o, lo, hi)
        return o, lo, hi

    def mk_grid(name, nd):
        o = ip.Obj(I.get_class(GR + 'RectGrid'))
        vecs = [Vec('%s.c%d' % (name, a)) for a in range(nd)]
        grid_init(I, None, o, *vecs)
        return o, vecs

    def mk_part(name, nd):
        iv, lo, hi = mk_intv(name, nd)
        g, vecs = mk_grid(name, nd)
        o = ip.Obj(I.get_class(PT + 'RectPartition'))
        part_init(I, None, o, iv, g)
        return o, lo, hi, vecs
    return mk_intv, mk_grid, mk_part, as_vals


def unit_subpart_insert(kind, nself, ins, index, meth='insert'):
    """<kind>.insert(index, *others) / append(*others): the result has the axes of self before `index`, then ALL axes of every inserted object in
    the order given, then the remaining axes of self; for partitions the end points and the coordinate vector of every result axis come from the same
    source axis (set and grid stay aligned)."""
    def run(ctx):
        I = ctx.I

        def path(st):
            mk_intv, mk_grid, mk_part, as_vals = _subpart_world(I, st)
            fr = ip.Frame(st)
            mk = {'IntervalProd': mk_intv, 'RectGrid': mk_grid, 'RectPartition': mk_part}[kind]
            me = mk('p', nself)
            others = [mk('q%d' % i, d) for i, d in enumerate(ins)]
            try:
                if meth == 'insert':
                    res = I.call(I._getattr(me[0], 'insert', fr), [index] + [o[0] for o in others], {}, fr)
                else:
                    res = I.call(I._getattr(me[0], 'append', fr), [o[0] for o in others], {}, fr)
            except ip.PyRaise as e:
                return ('raise', e.exc)
            return ('ok', (me, others, res, as_vals))
        info = {'class': kind, 'ndim': nself, 'inserted_ndims': list(ins), 'index': index, 'method': meth}
        rp = dict(info, kind='subpart_insert')
        pos = nself if meth == 'append' else (index + nself if index < 0 else index)
        for st, (status, r) in ctx.explore(path):
            if status == 'raise':
                ctx.fail(st, 'no_raise', 'raises %s' % lib.exc_desc(r), info, replay=rp)
                continue
            me, others, res, as_vals = r

            def axes(t):
                """per-axis source records of an object tuple as built by mk_*"""
                if kind == 'IntervalProd':
                    return [('iv', lo, hi) for lo, hi in zip(t[1], t[2])]
                if kind == 'RectGrid':
                    return [('g', v) for v in t[1]]
                return [('p', lo, hi, v) for lo, hi, v in zip(t[1], t[2], t[3])]
            src = axes(me)
            want = src[:pos] + [a for o in others for a in axes(o)] + src[pos:]
            ok = isinstance(res, ip.Obj) and res.cls.name == kind
            ctx.prove(st, 'returns a new %s' % kind, ok and res is not me[0], dict(info, got=repr(res)), replay=rp)
            if not ok:
                continue
            if kind == 'RectPartition':
                iv, g = res.fields.get('_RectPartition__set'), res.fields.get('_RectPartition__grid')
            else:
                iv = g = res
            got_lo = as_vals(iv.fields['_IntervalProd__min_pt']) if kind != 'RectGrid' else None
            got_hi = as_vals(iv.fields['_IntervalProd__max_pt']) if kind != 'RectGrid' else None
            got_v = list(g.fields['_RectGrid__coord_vectors']) if kind != 'IntervalProd' else None
            n = len(want)
            ctx.prove(st, 'number of axes == sum of the numbers of axes', all(x is None or len(x) == n for x in (got_lo, got_hi, got_v)), dict(info, want=n), replay=rp)
            if not all(x is None or len(x) == n for x in (got_lo, got_hi, got_v)):
                continue
            low = st.lower
            for a, w in enumerate(want):
                if kind != 'RectGrid':
                    ctx.prove(st, 'axis %d: end points of the expected source axis' % a, core.s_and(core.sc_eq(core._sc(got_lo[a]), w[1]), core.sc_eq(core._sc(got_hi[a]), w[2])), info, replay=rp)
                if kind != 'IntervalProd':
                    ctx.prove(st, 'axis %d: coordinate vector of the expected source axis' % a, got_v[a] is w[-1], dict(info, got=repr(got_v[a]), want=repr(w[-1])), replay=rp)
    return Unit('subpart/%s-%s/n=%d/ins=%s/idx=%s' % (kind, meth, nself, '+'.join(map(str, ins)) or 'none', index if meth == 'insert' else 'end'), run,
                funcs=[{'IntervalProd': DOM, 'RectGrid': GR, 'RectPartition': PT}[kind] + kind + '.' + meth] +
                ([DOM + 'IntervalProd.insert', GR + 'RectGrid.insert', PT + 'RectPartition.insert'] if kind == 'RectPartition' else []),
                config={'class': kind, 'ndim': nself, 'inserted_ndims': list(ins), 'index': index, 'method': meth})


def unit_nodes_on_bdry_normalisation():
    """odl.util.normalize:normalized_nodes_on_bdry for every documented spelling (one bool; for one axis one pair (left, right); per axis a bool or a pair; mixtures):
    the result is a list with exactly `length` entries, each a 2-tuple of bools, entry i = (left_i, right_i) as given; sequences of another length are rejected."""
    def run(ctx):
        I = ctx.I
        f = I.get_func('odl.util.normalize:normalized_nodes_on_bdry')
        cases = [(True, 1, [(True, True)]), (False, 3, [(False, False)] * 3), ((True, False), 1, [(True, False)]), ((False, True), 1, [(False, True)]), ([(True, False)], 1, [(True, False)]),
                 ([True, False], 2, [(True, True), (False, False)]), ((True, False), 2, [(True, True), (False, False)]), ([(True, False), False, True], 3, [(True, False), (False, False), (True, True)]),
                 ([(False, True), (True, False)], 2, [(False, True), (True, False)]), ([True], 1, [(True, True)]), ([True, False, True], 2, 'ValueError'), ([(True, False)], 2, 'ValueError')]
        for inp, length, want in cases:
            def path(st, inp=inp, length=length):
                st.object_arrays = True
                fr = ip.Frame(st)
                try:
                    return ('ok', I.call(f, [inp], {'length': length}, fr))
                except ip.PyRaise as e:
                    return ('raise', e.exc)
            info = {'nodes_on_bdry': repr(inp), 'length': length}
            for st, (status, r) in ctx.explore(path):
                if want == 'ValueError':
                    # the library formats its ValueError message with an undefined name, so the call ends in NameError: still a rejection - the error class is not part of the property (observation in DESIGN 5.3)
                    ctx.prove(st, 'a sequence of the wrong length is rejected (raises)', status == 'raise', dict(info, got=lib.exc_desc(r) if status == 'raise' else repr(r)))
                    continue
                if status == 'raise':
                    ctx.fail(st, 'no_raise', 'raises %s' % lib.exc_desc(r), info)
                    continue
                got = [tuple(bool(b) for b in e) if isinstance(e, (tuple, list)) else e for e in list(r)]
                ctx.prove(st, 'a list of `length` pairs (left, right) as given', got == want, dict(info, got=repr(r), want=repr(want)))
    return Unit('uniform/nodes_on_bdry-normalisation', run, funcs=['odl.util.normalize:normalized_nodes_on_bdry'], config={})


def unit_subpart_native():
    """BOUNDED (never counted as proved): slices, index lists, byaxis and squeeze of the partitions of the native pool - the cells of the
    sub-partition are cells of the parent (boundaries taken from the parent's boundaries), its nodes are the selected nodes, and the tiling
    invariants hold for it."""
    def run(ctx):
        from contracts import replay_c14
        odl, np = replay_c14._odl()
        for case, bad in replay_c14.subpartition_cases(odl, np):
            ctx.bounded('sub-partition consistent with its parent', not bad, case, detail=bad)
    return Unit('subpart-native/pool', run, funcs=[PT + 'RectPartition.__getitem__', PT + 'RectPartition.squeeze', PT + 'RectPartition.byaxis', GR + 'RectGrid.__getitem__',
                                                   DOM + 'IntervalProd.__getitem__'], kind='B', bounded_in='partition pool of contracts/replay_c14.py x 14 index expressions per partition')


def units(tier, seed):
    us = [unit_bdry(), unit_sizes(), unit_index(False), unit_index(True), unit_cell_sides(False), unit_cell_sides(True)]
    for missing in (None, 'min_pt', 'max_pt', 'cell_sides'):
        for bl, br in itertools.product((False, True), repeat=2):
            us.append(unit_uniform(missing, bl, br))
            us.append(unit_uniform(missing, bl, br, spelling='pair'))       # 1-d per-side flags given as one pair (left, right)
    for bl, br in itertools.product((False, True), repeat=2):
        us.append(unit_uniform_grid(bl, br))
    for kind in ('IntervalProd', 'RectGrid', 'RectPartition'):
        for nself, ins, index in ((2, (1,), 0), (2, (1,), 1), (2, (2,), 2), (2, (1,), -1), (2, (1, 1), 1), (2, (2, 1), 0), (2, (2, 1), 1), (3, (1, 2, 1), 1), (1, (2, 2), -1), (2, (), 1)):
            us.append(unit_subpart_insert(kind, nself, ins, index))
        for nself, ins in ((2, (1,)), (1, (2, 1)), (2, (2, 2))):
            us.append(unit_subpart_insert(kind, nself, ins, None, meth='append'))
    us.append(unit_subpart_native())
    us.append(unit_nodes_on_bdry_normalisation())
    us.append(unit_canary())
    return us


def replay(ob):
    rp = ob.get('replay') or {}
    if rp.get('kind') != 'cell-sizes':
        from contracts import replay_c14
        r = replay_c14.replay(ob)
        if r is not None:
            return r
        return {'reproduced': False, 'detail': 'no native concretisation for this obligation kind'}
    import os
    import sys
    root = os.environ.get('PYVC_REPO', '/repo')
    if root not in sys.path:
        sys.path.insert(0, root)
    import odl
    import numpy as np
    m = ob.get('model') or {}
    n = int(m.get('n', 1))
    lo, hi = float(m.get('xmin', 0.0)), float(m.get('xmax', 1.0))
    if n < 1 or n > 1000 or not lo < hi:
        n, lo, hi = 1, 0.0, 1.0
    part = odl.uniform_partition(lo, hi, n)
    total = float(np.sum(part.cell_sizes_vecs[0]))
    bad = abs(total - (hi - lo)) > 1e-9 * max(1.0, abs(hi - lo))
    return {'reproduced': bool(bad), 'detail': 'uniform_partition(%r, %r, %d).cell_sizes_vecs sums to %r, extent is %r' % (lo, hi, n, total, hi - lo),
            'input': {'min': lo, 'max': hi, 'n': n}}
