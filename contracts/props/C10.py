"""C10 - proximals and solver building blocks are safe when out is aliased to the input.

For every proximal `_call` (every option combination), the operator-expression classes and the
default operators the solvers apply in place, the real Operator.__call__ is executed in three forms
on copies of one symbolic input - op(x), op(x, out=y), op(x, out=x) - and the value left in x by
the aliased call is proved equal to the value op(x) returns, for all sizes, values and parameters.
The expression classes are proved alias-safe given alias-safe operands (Operator.__call__ contract),
so arbitrary operator-arithmetic wrappers follow by structural induction.
"""
from pyvc import core, interp as ip, odlmodel as om
from pyvc.core import S, C, V, VVar, VConst, VFresh, VLin, VPw, Unsupported
from pyvc.harness import Unit
from contracts import lib, oplib, tlib, callforms, makers
from contracts.lib import content
from contracts.oplib import OP, AbsOp, FieldSpec

META = {
    'level': 'proof',
    'trusted_base': [
        'pyvc symbolic interpreter (A7); contracts of the element API: arithmetic (C01), x.ufuncs.* acting pointwise like NumPy (C17), '
        'norm/inner as the weighted sums (C02), mask indexing; contract of Operator.__new__ dispatch',
        'A1 reals; relative-epsilon fudge factors kept as the exact rational constants of the source',
    ],
    'assumptions': ['A1', 'A2', 'A5', 'A7', 'sigma, lam, gamma > 0'],
    'not_decided': ['the values computed by proj_simplex (sort + cumsum + argwhere): taken by contract (a function of the values of its input and the diameter; ProximalLInfty / ProximalConvexConjLinfty / proj_l1 around it are under contract)',
                    'ProximalConvexConjKLCrossEntropy (scipy.special.lambertw on the array)',
                    'ProximalL1L2 / ProximalConvexConjL1L2 / Huber on product spaces: see pspace units'],
}


def unit_prox(factory, opts, props=('C03', 'C10'), prop='C10'):
    def run(ctx):
        I = ctx.I
        mk = makers.prox_maker(factory, **opts)

        def path(st):
            tlib.install(st)
            fr = ip.Frame(st)
            m = mk(I, st, fr)
            res = callforms.run_forms(I, st, fr, m['inst'], m['domb'], m['ranb'], m['field'], m['stored'])
            return ('ok', (m, res, fr))
        info = {'factory': factory, 'options': {k: str(v) for k, v in opts.items()}}
        for st, (status, (m, res, fr)) in ctx.explore(path):
            callforms.check_forms(ctx, st, I, fr, res, m['ranb'], info, props=props)
    name = 'prox/%s/%s' % (factory, ','.join('%s=%s' % (k, v) for k, v in sorted(opts.items())))
    return Unit(name, run, funcs=[makers.PROX + factory], config={'factory': factory, 'options': str(opts)})


def unit_dop(clsname, variant, field, props=('C03', 'C10')):
    def run(ctx):
        I = ctx.I
        mk = makers.dop_maker(clsname, field, variant)

        def path(st):
            tlib.install(st)
            fr = ip.Frame(st)
            m = mk(I, st, fr)
            res = callforms.run_forms(I, st, fr, m['inst'], m['domb'], m['ranb'], m['field'], m['stored'])
            return ('ok', (m, res, fr))
        info = {'class': clsname, 'variant': str(variant), 'field': field}
        for st, (status, (m, res, fr)) in ctx.explore(path):
            exp = None
            if m.get('expected') is not None and not isinstance(m['domb'], FieldSpec):
                exp = m['expected'](VVar('x', m['domb'].field or 'real'))
            elif m.get('expected') is not None:
                exp = m['expected'](res['xscalar'])
            callforms.check_forms(ctx, st, I, fr, res, m['ranb'], info, props=props, expected=exp)
    return Unit('dop/%s/%s/%s' % (clsname, variant, field), run, funcs=[makers.DOPS + clsname + '._call'],
                config={'class': clsname, 'variant': str(variant), 'field': field})


def unit_expr_class(clsname, field, props=('C03', 'C10')):
    """operator-expression classes with all spaces equal (so that op(x, out=x) is well typed): alias-safe
    given operands that satisfy the Operator.__call__ contract"""
    from contracts.props import C04

    def run(ctx):
        I = ctx.I
        cls = I.get_class(OP + clsname)
        for variant in C04.VARIANTS[clsname]:
            if variant.get('ranF'):
                continue

            def path(st, variant=variant):
                tlib.install(st)
                fr = ip.Frame(st)
                X = makers.tspace(I, st, 'X', field)
                la, lb = variant.get('la', False), variant.get('lb', False)
                stored, kw = {}, {}
                if clsname in ('OperatorSum', 'OperatorPointwiseProduct', 'OperatorComp'):
                    args = [AbsOp(I, 'A', X, X, la).op, AbsOp(I, 'B', X, X, lb).op]
                    if variant.get('tmp'):
                        if clsname == 'OperatorSum':
                            kw = {'tmp_ran': X.element('tmp_ran'), 'tmp_dom': X.element('tmp_dom')}
                        else:
                            kw = {'tmp': X.element('tmp')}
                elif clsname in ('OperatorLeftScalarMult', 'OperatorRightScalarMult'):
                    args = [AbsOp(I, 'A', X, X, la).op, om.sym_scalar('s', field)]
                    if clsname == 'OperatorRightScalarMult' and variant.get('tmp'):
                        kw = {'tmp': X.element('tmp')}
                elif clsname == 'FunctionalLeftVectorMult':
                    v = stored['vec'] = X.element('vec')
                    args = [AbsOp(I, 'f', X, FieldSpec(I, field), la).op, v]
                else:
                    v = stored['vec'] = X.element('vec')
                    args = [AbsOp(I, 'A', X, X, la).op, v]
                inst = I.call(cls, args, kw, fr)
                res = callforms.run_forms(I, st, fr, inst, X, X, field, stored)
                exp = oplib.sem(I, fr, inst, VVar('x', field))
                return ('ok', (res, fr, X, exp))
            info = {'class': clsname, 'variant': variant, 'field': field}
            for st, (status, (res, fr, X, exp)) in ctx.explore(path):
                callforms.check_forms(ctx, st, I, fr, res, X, info, props=props, expected=exp)
    return Unit('expr/%s/%s' % (clsname, field), run, funcs=[OP + clsname + '._call'], config={'class': clsname, 'field': field})


def simplex_case_check(case):
    """native check of one proj_simplex case; returns None or the description of the disagreement"""
    import os
    import sys
    root = os.environ.get('PYVC_REPO', '/repo')
    if root not in sys.path:
        sys.path.insert(0, root)
    import numpy as np
    import odl
    from odl.solvers.nonsmooth.proximal_operators import proj_simplex
    n, d = case['n'], case['diameter']
    shape = tuple(case.get('shape') or (n,))
    a = np.array(case['x'], dtype=float).reshape(shape)
    space = odl.rn(shape) if case['space'] == 'NumpyTensorSpace' else odl.uniform_discr([0] * len(shape), [2] * len(shape), shape)
    try:
        x = space.element(a.copy())        # element(arr) wraps without copy: keep `a` as the independent record
        r1 = proj_simplex(x, d)
        same_x = np.array_equal(x.asarray(), a)
        out = space.element(np.full(shape, 7.5))
        r2 = proj_simplex(x, d, out)
        xa = space.element(a.copy())
        r3 = proj_simplex(xa, d, xa)
        P = odl.solvers.IndicatorSimplex(space, diameter=d).proximal(0.7)
        x4 = space.element(a.copy())
        r4 = P(x4)
        v = r1.asarray()
        if not same_x or not np.array_equal(x.asarray(), a):
            return 'proj_simplex modified its input: %r, was %r' % (x.asarray(), a)
        if not np.array_equal(x4.asarray(), a):
            return 'IndicatorSimplex.proximal modified its input: %r, was %r' % (x4.asarray(), a)
        if r2 is not out or r3 is not xa:
            return 'out is not returned'
        if not (np.allclose(r2.asarray(), v) and np.allclose(r3.asarray(), v) and np.allclose(r4.asarray(), v)):
            return 'out-of-place %r, in-place %r, aliased %r, IndicatorSimplex.proximal %r' % (v, r2.asarray(), r3.asarray(), r4.asarray())
        if np.any(v < -1e-12) or abs(v.sum() - d) > 1e-9:
            return 'not on the simplex: %r (sum %r, diameter %r)' % (v, v.sum(), d)
        pos = v > 1e-12
        tau = (a[pos] - v[pos]).mean()
        if not np.allclose(v, np.maximum(a - tau, 0), atol=1e-9):
            return 'not max(x - tau, 0): %r for x = %r' % (v, a)
    except Exception as e:
        return 'raised %s: %s' % (type(e).__name__, e)
    return None


def unit_simplex_bounded():
    """BOUNDED cross-check (never counted as proved) of the ASSUMED contract of proj_simplex (sort / cumsum / argwhere code outside the subset): on random inputs of
    sizes 1..9 (ties included) the input is bit-for-bit unchanged, `out` is returned, out-of-place == in-place == aliased (out=x), and the result is the Euclidean
    projection onto the simplex (non-negative, sums to the diameter, equals max(x - tau, 0) for one threshold tau); the same for IndicatorSimplex.proximal."""
    def run(ctx):
        import numpy as np
        rng = np.random.default_rng(17)
        for n in range(1, 10):
            for trial in range(6):
                for spname in ('NumpyTensorSpace', 'DiscretizedSpace'):
                    a = rng.standard_normal(n) * 2
                    if trial == 1:
                        a = np.round(a)            # ties
                    if trial == 2:
                        a = np.sort(a)[::-1].copy()
                    case = {'n': n, 'space': spname, 'x': a.tolist(), 'diameter': float(rng.uniform(0.3, 3.0))}
                    bad = simplex_case_check(case)
                    ctx.bounded('proj_simplex contract (frame, out, aliasing, projection)', not bad, case, detail=bad)
        # domains with several axes (the projection is onto the simplex of ALL entries)
        for shape in ((2, 3), (3, 4), (4, 2), (2, 2, 3)):
            for trial in range(4):
                for spname in ('NumpyTensorSpace', 'DiscretizedSpace'):
                    a = rng.standard_normal(shape) * 2
                    if trial == 1:
                        a = np.round(a)
                    case = {'n': int(np.prod(shape)), 'shape': list(shape), 'space': spname, 'x': a.ravel().tolist(), 'diameter': float(rng.uniform(0.3, 3.0))}
                    bad = simplex_case_check(case)
                    ctx.bounded('proj_simplex contract (frame, out, aliasing, projection)', not bad, case, detail=bad)
    return Unit('simplex/contract', run, funcs=[makers.PROX + 'proj_simplex'], kind='B', bounded_in='sizes 1..9 and shapes (2,3), (3,4), (4,2), (2,2,3); 4-6 random inputs each, rn and uniform_discr')

def unit_canary():
    """must-fail: a proximal that reads x after overwriting it through out (soft threshold written as
    out = x/max(|x|/t,1); out = x - out) must be refuted under aliasing"""
    def run(ctx):
        I = ctx.I

        def path(st):
            tlib.install(st)
            fr = ip.Frame(st)
            X = makers.tspace(I, st, 'X', 'real')
            x = X.element('x')
            old = content(x)
            t = makers.pos_scalar(st, 't')
            den = I.call(I._getattr(I._getattr(x, 'ufuncs', fr), 'absolute', fr), [], {}, fr)
            den = I.inplace('truediv', None, den, t, fr)
            I.call(I._getattr(I._getattr(den, 'ufuncs', fr), 'maximum', fr), [1], {'out': den}, fr)
            I.call(I._getattr(x, 'divide', fr), [den], {'out': x}, fr)         # aliased: out is x
            I.call(I._getattr(x, 'lincomb', fr), [1, x, -1, x], {}, fr)
            soft = VLin([(1, old), (-1, core.vdiv(old, VPw('maximum', (VLin([(1 / t, VPw('abs', (old,)))]), VConst(1)))))])
            return ('ok', (x, soft))
        for st, (status, (x, soft)) in ctx.explore(path):
            ctx.prove(st, 'canary', lib.eq_goal(st.lower, content(x), soft), {})
    return Unit('canary/aliased-soft-threshold', run, kind='canary', expect='refuted')


def units(tier, seed):
    us = []
    for f, opts in makers.PROX_CASES:
        us.append(unit_prox(f, opts))
    for field in ('real', 'complex'):
        for c, v in makers.DOP_CASES:
            if c in ('InnerProductOperator', 'NormOperator', 'DistOperator'):
                continue            # field-valued: no `out`
            us.append(unit_dop(c, v, field))
        from contracts.props import C04
        for c in sorted(C04.VARIANTS):
            us.append(unit_expr_class(c, field))
    us.append(unit_simplex_bounded())
    us.append(unit_canary())
    return us


def replay(ob):
    if ob.get('unit', '').startswith('simplex/'):
        bad = simplex_case_check(ob.get('model') or (ob.get('replay') or {}).get('case'))
        return {'reproduced': bool(bad), 'detail': bad or 'holds natively', 'input': ob.get('model')}
    from contracts import replay_forms
    return replay_forms.replay(ob)
