"""C17 - NumPy ufuncs on elements behave like NumPy on the underlying arrays.

NumPy's ufunc machinery is external; what ODL adds - and what is under contract here - is the dispatch around it:
NumpyTensor.__array_ufunc__ / Tensor.__array__ / writable_array / NumpyTensorSpace.element and DiscretizedSpaceElement.__array_ufunc__
are executed symbolically with an ABSTRACT ufunc (nin / nout, every method) whose calls are recorded, abstract ndarrays known by
identity (dtype, shape, ghost write log), for every combination of method x out kind x result dtype kind x dtype keyword:

forward/*   the recorded NumPy call receives exactly the caller's inputs with every element replaced by its underlying array object (no
            copy, order kept), the caller's keyword arguments unchanged, and as `out` the array underlying the given out (a cast
            temporary that is written back when a dtype is requested)
wrap/*      without out: the result array itself (no copy) is wrapped in a space of the same class with shape == result.shape,
            dtype == result.dtype and - for floating results of unchanged shape - the weighting of the operand
out/*       with out: the very object given is returned, and its array received the ufunc result (directly or by write-back)
errors/*    wrong number of out arguments: ValueError; foreign out type: NotImplemented
element/*   NumpyTensorSpace.element(arr) for an array of matching dtype and shape wraps arr itself (shared memory); x.asarray() is that
            array; an element of the space is returned as is
"""
import itertools

import z3

from pyvc import core, interp as ip, odlmodel as om, npmodel as npm
from pyvc.core import S, Unsupported
from pyvc.harness import Unit
from contracts import lib, uflib
from contracts.uflib import AbsArr, AbsUfunc

META = {
    'level': 'proof',
    'trusted_base': [
        'pyvc symbolic interpreter (A7); NumPy ufunc semantics are external: a ufunc call returns its out array(s) when given, otherwise fresh arrays; np.asarray / np.array(copy=False) return the same '
        'object for a matching dtype and a cast copy otherwise; obj[:] = arr copies values',
        'constructor of the result space type(self.space)(shape, dtype, weighting=) taken by its arguments (cut)',
    ],
    'assumptions': ['A7', 'NumPy calls __array_ufunc__ of the first operand that defines it with the documented (ufunc, method, *inputs, **kwargs) convention'],
    'not_decided': ['the numbers computed by NumPy itself', 'ProductSpaceElement.__array_ufunc__ / __array_wrap__; the legacy x.ufuncs namespace of tensors (wrap_ufunc_base) and the reductions of ProductSpaceUfuncs - the product-space wrappers wrap_ufunc_productspace are under contract',
                    'DiscretizedSpaceElement: methods outer / reduce result spaces (partition algebra)', 'float precision promotion rules of NumPy'],
}

NT = 'odl.space.npy_tensors:'
BT = 'odl.space.base_tensors:'
DS = 'odl.discr.discr_space:'
UT = 'odl.util.utility:'


class NullCtx(object):
    """contextlib.nullcontext(enter_result=None)"""

    def __init__(self, v=None):
        self.v = v

    def pv_enter(self, I, fr):
        return self.v

    def pv_exit(self, I, fr, exc):
        return None


def install(st):
    st.abstract_arrays = True
    st.ext_cuts = {'contextlib.nullcontext': lambda I, fr, enter_result=None: NullCtx(enter_result)}


def mk_space(I, st, name, dtype, shape, made):
    sp = ip.Obj(I.get_class(NT + 'NumpyTensorSpace'))
    sp.fields['_TensorSpace__shape'] = tuple(shape)
    sp.fields['_TensorSpace__dtype'] = npm.DT(dtype)
    sp.fields['_LinearSpace__field'] = om.field_obj(I, 'real')
    w = ip.Obj(I.get_class(NT + 'NumpyTensorSpaceConstWeighting'))
    c = S(z3.Real('wconst_' + name))
    st.assume(c > 0)
    w.fields['_ConstWeighting__const'] = c
    w.fields['_Weighting__impl'] = 'numpy'
    p = S(z3.Real('exponent_' + name))
    st.assume(p >= 1)
    w.fields['_Weighting__exponent'] = p
    sp.fields['_NumpyTensorSpace__weighting'] = w
    sp.partial = True
    sp.sname = name
    return sp


def mk_elem(I, sp, arr):
    x = ip.Obj(I.get_class(NT + 'NumpyTensor'))
    x.fields['_LinearSpaceElement__space'] = sp
    x.fields['_NumpyTensor__data'] = arr
    return x


def ctor_cut(made):
    def ctor(I_, fr_, self, shape, dtype=None, **kw):
        self.fields['_TensorSpace__shape'] = tuple(shape)
        self.fields['_TensorSpace__dtype'] = npm.as_dtype(dtype)
        self.fields['_LinearSpace__field'] = om.field_obj(I_, 'real')
        self.fields['ctor_kwargs'] = dict(kw)
        self.fields['_NumpyTensorSpace__weighting'] = kw.get('weighting', 'DEFAULT')
        made.append(self)
        return None
    return ctor


def sym_shape(st, name, nd):
    out = []
    for i in range(nd):
        n = S(z3.Int('%s%d' % (name, i)))
        st.assume(n >= 1)
        out.append(n)
    return tuple(out)


METHODS = ['__call__', '__call__2', 'reduce', 'accumulate', 'outer', 'at', 'reduceat']
OUTS = ['none', 'element', 'ndarray']


def unit_dispatch(method, outk, reskind, dtype_kw):
    """NumpyTensor.__array_ufunc__ in one configuration"""
    def run(ctx):
        I = ctx.I

        def path(st):
            install(st)
            fr = ip.Frame(st)
            log, made = [], []
            st.cuts[NT + 'NumpyTensorSpace.__init__'] = ctor_cut(made)
            shape = sym_shape(st, 'n', 2)
            sp = mk_space(I, st, 'X', 'float64', shape, made)
            d_self, d_other = AbsArr('data_x', 'float64', shape, log), AbsArr('data_y', 'float64', shape, log)
            x, y = mk_elem(I, sp, d_self), mk_elem(I, sp, d_other)
            raw = AbsArr('raw', 'float64', shape, log)
            nout = 2 if method == '__call__2' else 1
            m = '__call__' if method.startswith('__call__') else method
            res_dt = {'float': 'float64', 'int': 'int64', 'bool': 'bool'}[reskind]
            oshape = sym_shape(st, 'r', 1) if m in ('reduce', 'reduceat') else (shape + shape if m == 'outer' else shape)

            def res_shape_of(meth, args, kwargs):
                return oshape
            uf = AbsUfunc('absfunc', 2, nout, log, (res_dt, 'int32') if nout == 2 else res_dt, res_shape_of)      # two outputs of different dtypes (like np.frexp)
            inputs = {'__call__': [x, y], 'reduce': [x], 'accumulate': [x], 'outer': [x, raw], 'at': [x, (0, 1), 2.5], 'reduceat': [x, (0, 1)]}[m]
            if m == '__call__' and outk == 'ndarray':
                inputs = [raw, x]          # element second: mixed order
            kw = {}
            if m in ('reduce', 'accumulate'):
                kw['axis'] = S(z3.Int('axis'))
            if m == 'reduce':
                kw['keepdims'] = False
            if dtype_kw:
                kw['dtype'] = npm.DT('float32')
            user_kw = dict(kw)
            outs = []
            if outk != 'none' and m != 'at':
                for j in range(nout):
                    odt = 'float32' if dtype_kw == 'mismatch' else res_dt
                    if outk == 'element':
                        osp = mk_space(I, st, 'O%d' % j, odt, oshape, made)
                        outs.append(mk_elem(I, osp, AbsArr('data_out%d' % j, odt, oshape, log)))
                    else:
                        outs.append(AbsArr('out%d' % j, odt, oshape, log))
                kw['out'] = tuple(outs)
            try:
                ret = I.call(I._getattr(x, '__array_ufunc__', fr), [uf, m] + inputs, kw, fr)
            except ip.PyRaise as e:
                return ('raise', e.exc)
            return ('ok', dict(ret=ret, uf=uf, x=x, y=y, raw=raw, inputs=inputs, user_kw=user_kw, outs=outs, log=log, made=made, sp=sp, fr=fr, m=m, nout=nout, oshape=oshape, shape=shape))
        info = {'method': method, 'out': outk, 'result': reskind, 'dtype_kw': dtype_kw}
        for st, (status, r) in ctx.explore(path):
            if status == 'raise':
                ctx.fail(st, 'dispatch does not raise', 'raises %s' % lib.exc_desc(r), info)
                continue
            uf, m, fr = r['uf'], r['m'], r['fr']
            ctx.prove(st, 'forward: NumPy is called exactly once', len(uf.calls) == 1, info)
            if len(uf.calls) != 1:
                continue
            call = uf.calls[0]
            ctx.prove(st, 'forward: the requested method is called', call['method'] == m, info)
            exp_args = tuple(a.fields['_NumpyTensor__data'] if isinstance(a, ip.Obj) else a for a in r['inputs'])
            ctx.prove(st, 'forward: inputs are the caller\'s, elements replaced by their own arrays (identity, order kept)',
                      len(call['args']) == len(exp_args) and all(a is b or (not isinstance(a, (AbsArr, ip.Obj)) and a == b) for a, b in zip(call['args'], exp_args)), info)
            passed = dict(call['kwargs'])
            pout = passed.pop('out', None)
            ctx.prove(st, 'forward: keyword arguments of the caller are passed on unchanged', set(passed) == set(r['user_kw']) and all(passed[k] is r['user_kw'][k] or passed[k] == r['user_kw'][k] for k in passed), info)
            ret = r['ret']
            rets = ret if isinstance(ret, tuple) else (ret,)
            if m == 'at':
                ctx.prove(st, 'at: operates in place on the element\'s own array and returns None', ret is None and call['args'][0] is r['x'].fields['_NumpyTensor__data'], info)
                continue
            if not r['outs']:
                ctx.prove(st, 'forward: no out array is passed when the caller gave none', pout is None or (isinstance(pout, tuple) and all(o is None for o in pout)), info)
                ctx.prove(st, 'wrap: one result per ufunc output', len(rets) == r['nout'], info)
                for j, el in enumerate(rets):
                    res = call['result'][j]
                    if not isinstance(el, ip.Obj):
                        ctx.fail(st, 'wrap: result %d is an element' % j, 'returned %r' % (el,), info)
                        continue
                    ctx.prove(st, 'wrap: result %d is a NumpyTensor' % j, el.cls.name == 'NumpyTensor', info)
                    ctx.prove(st, 'wrap: result %d wraps the array NumPy returned (no copy)' % j, el.fields.get('_NumpyTensor__data') is res, info)
                    nsp = el.fields['_LinearSpaceElement__space']
                    ctx.prove(st, 'wrap: result %d lives in a space of the same class' % j, nsp.cls is r['sp'].cls, info)
                    ctx.prove(st, 'wrap: result %d space shape == result.shape' % j, tuple(nsp.fields['_TensorSpace__shape']) == tuple(res.shape) or
                              all(core.sc_eq(a, b).concrete() is True or a is b for a, b in zip(nsp.fields['_TensorSpace__shape'], res.shape)), info)
                    ctx.prove(st, 'wrap: result %d space dtype == result.dtype' % j, nsp.fields['_TensorSpace__dtype'] == res.dtype, info)
                    w = nsp.fields['_NumpyTensorSpace__weighting']
                    if r['nout'] == 1 and info['result'] == 'float':
                        if m in ('__call__', 'accumulate'):
                            ctx.prove(st, 'wrap: floating result of unchanged shape keeps the weighting of the operand', w is r['sp'].fields['_NumpyTensorSpace__weighting'], info)
                        else:
                            # changed shape: the constant cannot be carried over; the exponent is kept
                            ok = isinstance(w, ip.Obj) and (w is r['sp'].fields['_NumpyTensorSpace__weighting'] or
                                                            core.sc_eq(I._getattr(w, 'exponent', fr), I._getattr(r['sp'].fields['_NumpyTensorSpace__weighting'], 'exponent', fr)).concrete() is True)
                            ctx.prove(st, 'wrap: floating result of another shape keeps the exponent', ok, info)
                    elif info['result'] != 'float':
                        ctx.prove(st, 'wrap: non-floating result gets the default (no) weighting', w == 'DEFAULT', info)
                continue
            # out given
            pouts = pout if isinstance(pout, tuple) else (pout,)
            ctx.prove(st, 'out: the caller\'s out object(s) are returned (identity)', len(rets) == len(r['outs']) and all(a is b for a, b in zip(rets, r['outs'])), info)
            for j, o in enumerate(r['outs']):
                target = o.fields['_NumpyTensor__data'] if isinstance(o, ip.Obj) else o
                pa = pouts[j] if j < len(pouts) else None
                direct = pa is target
                wrote_back = any(ev[0] == 'write' and ev[1] is target and ev[2] is pa for ev in r['log'])
                ctx.prove(st, 'out: output %d - NumPy writes into the array underlying the given out, or into a temporary that is written back' % j,
                          isinstance(pa, AbsArr) and (direct or wrote_back), dict(info, direct=direct, wrote_back=wrote_back))
                if info['dtype_kw'] and isinstance(pa, AbsArr):
                    ctx.prove(st, 'out: output %d - with dtype= the array handed to NumPy has that dtype' % j, pa.dtype.name == 'float32', info)
    return Unit('dispatch/tensor/%s/out=%s/res=%s/dtype=%s' % (method, outk, reskind, dtype_kw), run, funcs=[NT + 'NumpyTensor.__array_ufunc__', UT + 'writable_array', NT + 'NumpyTensorSpace.element'],
                config={'method': method, 'out': outk, 'result': reskind, 'dtype_kw': dtype_kw})


def unit_discr(method, outk):
    """DiscretizedSpaceElement.__array_ufunc__ delegates to the ufunc protocol of its tensor (which is under contract above) and
    re-wraps: same partition and axis labels, the tensor space of the tensor result; out objects returned as given"""
    def run(ctx):
        I = ctx.I

        def path(st):
            install(st)
            fr = ip.Frame(st)
            log, made, calls, dmade = [], [], [], []
            shape = sym_shape(st, 'n', 2)
            tsp = mk_space(I, st, 'T', 'float64', shape, made)
            dsp = ip.Obj(I.get_class(DS + 'DiscretizedSpace'))
            class PartTok(object):
                def __init__(self, tag):
                    self.tag = tag

                def pv_getattr(self, I_, fr_, name):
                    if name == 'append':
                        return ip.Builtin('append', lambda I2, fr2, a, k: PartTok(('append', self.tag, getattr(a[0], 'tag', a[0]))))
                    if name == 'ndim':
                        return 2
                    raise Unsupported('partition.%s' % name)
            part = ip.Obj(I.get_class('odl.discr.partition:RectPartition')) if method != 'outer' else PartTok('P')
            grid = ip.Obj(I.get_class('odl.discr.grid:RectGrid'))
            grid.fields['_RectGrid__coord_vectors'] = tuple(npm.PArr(npm.Buf(core.VVar('cv%d' % i, 'real'), npm.DT('float64'), (shape[i],), True, True, name='cv%d' % i)) for i in range(2))
            if method != 'outer':
                part.fields['_RectPartition__grid'] = grid
                part.partial = True
            grid.partial = True
            dsp.fields.update({'_DiscretizedSpace__tspace': tsp, '_DiscretizedSpace__partition': part, '_TensorSpace__shape': shape, '_TensorSpace__dtype': npm.DT('float64'),
                               '_DiscretizedSpace__axis_labels': ('$x$', '$y$')})
            dsp.partial = True

            def delem(t):
                e = ip.Obj(I.get_class(DS + 'DiscretizedSpaceElement'))
                e.fields['_LinearSpaceElement__space'] = dsp
                e.fields['_DiscretizedSpaceElement__tensor'] = t
                return e
            tx, ty = mk_elem(I, tsp, AbsArr('dx', 'float64', shape, log)), mk_elem(I, tsp, AbsArr('dy', 'float64', shape, log))
            x, y = delem(tx), delem(ty)
            nout = 2 if method == '__call__2' else 1
            m = '__call__' if method.startswith('__call__') else method
            rdt = 'complex128' if method == 'outer' else 'float64'          # outer: a result dtype different from the first operand's (e.g. real x complex)
            rshape = shape + shape if method == 'outer' else shape
            res_t = [mk_elem(I, mk_space(I, st, 'R%d' % j, rdt, rshape, made), AbsArr('rt%d' % j, rdt, rshape, log)) for j in range(nout)]

            def tensor_ufunc(I_, fr_, self, ufunc, meth, *inputs, **kw):
                calls.append({'self': self, 'ufunc': ufunc, 'method': meth, 'inputs': inputs, 'kwargs': dict(kw)})
                if meth == 'at':
                    return None
                outs = kw.get('out') or ()
                rs = [outs[j] if j < len(outs) and outs[j] is not None else res_t[j] for j in range(nout)]
                return rs[0] if nout == 1 else tuple(rs)
            st.cuts[NT + 'NumpyTensor.__array_ufunc__'] = tensor_ufunc

            def dctor(I_, fr_, self, partition, tspace, **kw):
                self.fields.update({'_DiscretizedSpace__tspace': tspace, '_DiscretizedSpace__partition': partition, 'ctor_kwargs': dict(kw),
                                    '_TensorSpace__shape': tspace.fields['_TensorSpace__shape'], '_TensorSpace__dtype': tspace.fields['_TensorSpace__dtype']})
                dmade.append(self)
            st.cuts[DS + 'DiscretizedSpace.__init__'] = dctor

            def delement(I_, fr_, self, inp=None, **kw):
                e = ip.Obj(I.get_class(DS + 'DiscretizedSpaceElement'))
                e.fields['_LinearSpaceElement__space'] = self
                e.fields['_DiscretizedSpaceElement__tensor'] = inp
                return e
            st.cuts[DS + 'DiscretizedSpace.element'] = delement
            uf = AbsUfunc('absfunc', 2, nout, log, 'float64', lambda *a: shape)
            inputs = {'__call__': [x, y], 'accumulate': [x], 'at': [x, (0, 1), 2.5], 'outer': [x, y]}[m]
            if m == 'outer':
                st.cuts[NT + 'NumpyTensorSpace.__init__'] = ctor_cut(made)
            kw = {'axis': 0} if m == 'accumulate' else {}
            outs = []
            if outk != 'none' and m != 'at':
                for j in range(nout):
                    if outk == 'element':
                        outs.append(delem(mk_elem(I, tsp, AbsArr('do%d' % j, 'float64', shape, log))))
                    elif outk == 'tensor':
                        outs.append(mk_elem(I, tsp, AbsArr('to%d' % j, 'float64', shape, log)))
                    else:
                        outs.append(AbsArr('ao%d' % j, 'float64', shape, log))
                kw['out'] = tuple(outs)
            user_kw = {k: v for k, v in kw.items() if k != 'out'}
            try:
                ret = I.call(I._getattr(x, '__array_ufunc__', fr), [uf, m] + inputs, kw, fr)
            except ip.PyRaise as e:
                return ('raise', e.exc)
            return ('ok', dict(ret=ret, calls=calls, uf=uf, inputs=inputs, outs=outs, user_kw=user_kw, res_t=res_t, dsp=dsp, part=part, m=m, nout=nout, dmade=dmade, fr=fr))
        info = {'method': method, 'out': outk}
        for st, (status, r) in ctx.explore(path):
            if status == 'raise':
                ctx.fail(st, 'dispatch does not raise', 'raises %s' % lib.exc_desc(r), info)
                continue
            calls, m = r['calls'], r['m']
            ctx.prove(st, 'discr: the tensor protocol is invoked exactly once', len(calls) == 1, info)
            if len(calls) != 1:
                continue
            c = calls[0]
            ctx.prove(st, 'discr: same ufunc and method', c['ufunc'] is r['uf'] and c['method'] == m, info)
            exp = tuple(a.fields['_DiscretizedSpaceElement__tensor'] if isinstance(a, ip.Obj) else a for a in r['inputs'])
            ctx.prove(st, 'discr: inputs are the caller\'s, elements replaced by their tensors (identity, order kept)',
                      len(c['inputs']) == len(exp) and all(a is b or (not isinstance(a, ip.Obj) and a == b) for a, b in zip(c['inputs'], exp)), info)
            kwp = dict(c['kwargs'])
            pout = kwp.pop('out', None)
            ctx.prove(st, 'discr: keyword arguments are passed on unchanged', kwp == r['user_kw'], info)
            ret = r['ret']
            rets = ret if isinstance(ret, tuple) else (ret,)
            if m == 'at':
                ctx.prove(st, 'discr: at returns None', ret is None, info)
                continue
            if r['outs']:
                exp_out = tuple(o.fields.get('_DiscretizedSpaceElement__tensor', o) if isinstance(o, ip.Obj) else o for o in r['outs'])
                ctx.prove(st, 'discr: out elements are handed on as their tensors / arrays', isinstance(pout, tuple) and len(pout) == len(exp_out) and all(a is b for a, b in zip(pout, exp_out)), info)
                ctx.prove(st, 'discr: the caller\'s out object(s) are returned (identity)', len(rets) == len(r['outs']) and all(a is b for a, b in zip(rets, r['outs'])), info)
            else:
                ctx.prove(st, 'discr: one result per output', len(rets) == r['nout'], info)
                for j, el in enumerate(rets):
                    ok = isinstance(el, ip.Obj) and el.cls.name == 'DiscretizedSpaceElement'
                    ctx.prove(st, 'discr: result %d is a DiscretizedSpaceElement' % j, ok, info)
                    if not ok:
                        continue
                    ctx.prove(st, 'discr: result %d wraps the tensor result' % j, el.fields['_DiscretizedSpaceElement__tensor'] is r['res_t'][j], info)
                    nsp = el.fields['_LinearSpaceElement__space']
                    if m == 'outer':
                        ts = nsp.fields['_DiscretizedSpace__tspace']
                        rsp = r['res_t'][j].fields['_LinearSpaceElement__space']
                        ctx.prove(st, 'discr outer: partition of the result is partition(x).append(partition(y))', getattr(nsp.fields['_DiscretizedSpace__partition'], 'tag', None) == ('append', 'P', 'P'), info)
                        ctx.prove(st, 'discr outer: tensor space of the result has the SHAPE and DTYPE of the NumPy result', tuple(ts.fields['_TensorSpace__shape']) == tuple(rsp.fields['_TensorSpace__shape'])
                                  and ts.fields['_TensorSpace__dtype'] == rsp.fields['_TensorSpace__dtype'], dict(info, got=str(ts.fields['_TensorSpace__dtype']), want=str(rsp.fields['_TensorSpace__dtype'])))
                        kw_ = ts.fields.get('ctor_kwargs')
                        if kw_ is not None:
                            w1 = I._getattr(r['dsp'].fields['_DiscretizedSpace__tspace'].fields['_NumpyTensorSpace__weighting'], 'const', fr_of(r))
                            ctx.prove(st, 'discr outer: constant weightings multiply, exponent of the tensor result', core.sc_eq(kw_.get('weighting'), w1 * w1)
                                      and core.sc_eq(kw_.get('exponent'), I._getattr(rsp.fields['_NumpyTensorSpace__weighting'], 'exponent', fr_of(r))), info)
                        continue
                    ctx.prove(st, 'discr: result %d space: same partition, tensor space of the tensor result, same axis labels' % j,
                              nsp.fields['_DiscretizedSpace__partition'] is r['part'] and nsp.fields['_DiscretizedSpace__tspace'] is r['res_t'][j].fields['_LinearSpaceElement__space']
                              and nsp.fields.get('ctor_kwargs', {}).get('axis_labels') == ('$x$', '$y$'), info)
    return Unit('dispatch/discr/%s/out=%s' % (method, outk), run, funcs=[DS + 'DiscretizedSpaceElement.__array_ufunc__'], config={'method': method, 'out': outk})


def fr_of(r):
    return r['fr']


def unit_errors():
    def run(ctx):
        I = ctx.I
        for case in ('too_many_out', 'foreign_out', 'two_out_reduce'):
            def path(st, case=case):
                install(st)
                fr = ip.Frame(st)
                log, made = [], []
                st.cuts[NT + 'NumpyTensorSpace.__init__'] = ctor_cut(made)
                shape = sym_shape(st, 'n', 1)
                sp = mk_space(I, st, 'X', 'float64', shape, made)
                x = mk_elem(I, sp, AbsArr('data_x', 'float64', shape, log))
                uf = AbsUfunc('absfunc', 1, 1, log, 'float64', lambda *a: shape)
                o1, o2 = AbsArr('o1', 'float64', shape, log), AbsArr('o2', 'float64', shape, log)
                try:
                    if case == 'too_many_out':
                        ret = I.call(I._getattr(x, '__array_ufunc__', fr), [uf, '__call__', x], {'out': (o1, o2)}, fr)
                    elif case == 'two_out_reduce':
                        ret = I.call(I._getattr(x, '__array_ufunc__', fr), [uf, 'reduce', x], {'out': (o1, o2)}, fr)
                    else:
                        ret = I.call(I._getattr(x, '__array_ufunc__', fr), [uf, '__call__', x], {'out': ([1.0, 2.0],)}, fr)
                except ip.PyRaise as e:
                    return ('raise', (e.exc, uf))
                return ('ok', (ret, uf))
            info = {'case': case}
            for st, (status, (r, uf)) in ctx.explore(path):
                ctx.prove(st, 'errors: NumPy is not called', len(uf.calls) == 0, info)
                if case == 'foreign_out':
                    ctx.prove(st, 'errors: foreign out type gives NotImplemented', status == 'ok' and r is ip.NOTIMPL, info)
                else:
                    ctx.prove(st, 'errors: wrong number of out arguments raises ValueError', status == 'raise' and I.exc_isinstance(r, 'ValueError'), info)
    return Unit('errors/tensor', run, funcs=[NT + 'NumpyTensor.__array_ufunc__'])


def unit_element():
    def run(ctx):
        I = ctx.I
        for case in ('matching', 'other_dtype', 'element', 'wrong_shape', 'readonly'):
            def path(st, case=case):
                install(st)
                fr = ip.Frame(st)
                log, made = [], []
                shape = sym_shape(st, 'n', 2)
                sp = mk_space(I, st, 'X', 'float64', shape, made)
                arr = AbsArr('arr', 'float32' if case == 'other_dtype' else 'float64', sym_shape(st, 'm', 2) if case == 'wrong_shape' else shape, log, writeable=case != 'readonly')
                if case == 'wrong_shape':
                    st.assume(core.s_not(core.sbool(core.sc_eq(arr.shape[0], shape[0]))))
                inp = mk_elem(I, sp, arr) if case == 'element' else arr
                try:
                    el = I.call(I._getattr(sp, 'element', fr), [inp], {}, fr)
                except ip.PyRaise as e:
                    return ('raise', e.exc)
                return ('ok', (el, inp, arr, sp, fr))
            info = {'case': case}
            for st, (status, r) in ctx.explore(path):
                if case == 'wrong_shape':
                    ctx.prove(st, 'element: array of another shape raises ValueError', status == 'raise' and I.exc_isinstance(r, 'ValueError'), info)
                    continue
                if status == 'raise':
                    ctx.fail(st, 'element does not raise', 'raises %s' % lib.exc_desc(r), info)
                    continue
                el, inp, arr, sp, fr = r
                if case == 'element':
                    ctx.prove(st, 'element: a member of the space is returned as is', el is inp, info)
                    continue
                data = el.fields.get('_NumpyTensor__data')
                ctx.prove(st, 'element: result belongs to the space', el.fields.get('_LinearSpaceElement__space') is sp, info)
                if case == 'matching':
                    ctx.prove(st, 'element: an array of matching dtype and shape is wrapped without copy (shared memory)', data is arr, info)
                    ctx.prove(st, 'element: asarray() returns that array', I.call(I._getattr(el, 'asarray', fr), [], {}, fr) is arr, info)
                elif case == 'other_dtype':
                    ctx.prove(st, 'element: an array of another dtype is converted to the space dtype', isinstance(data, AbsArr) and data.dtype.name == 'float64' and data.origin == ('cast', arr), info)
                else:
                    ctx.prove(st, 'element: a read-only array is copied', isinstance(data, AbsArr) and data is not arr and data.origin == ('copy', arr), info)
    return Unit('element/tensor', run, funcs=[NT + 'NumpyTensorSpace.element', NT + 'NumpyTensor.asarray'])


def unit_canary():
    """must fail: claims that with dtype= and an out of another dtype NumPy writes directly into the out array"""
    def run(ctx):
        I = ctx.I

        def path(st):
            install(st)
            fr = ip.Frame(st)
            log, made = [], []
            st.cuts[NT + 'NumpyTensorSpace.__init__'] = ctor_cut(made)
            shape = sym_shape(st, 'n', 1)
            sp = mk_space(I, st, 'X', 'float64', shape, made)
            x = mk_elem(I, sp, AbsArr('data_x', 'float64', shape, log))
            uf = AbsUfunc('absfunc', 1, 1, log, 'float64', lambda *a: shape)
            o = AbsArr('o', 'float64', shape, log)
            I.call(I._getattr(x, '__array_ufunc__', fr), [uf, '__call__', x], {'out': (o,), 'dtype': npm.DT('float32')}, fr)
            return ('ok', (uf, o))
        for st, (status, (uf, o)) in ctx.explore(path):
            ctx.prove(st, 'canary', uf.calls[0]['kwargs'].get('out') is o, {})
    return Unit('canary/cast-out-is-direct', run, kind='canary', expect='refuted')


# --------------------------------------------------------------------------
# legacy ufunc namespace of product-space elements (odl.util.ufuncs:wrap_ufunc_productspace)

UFN = 'odl.util.ufuncs:'


def unit_pspace_legacy(n_in, n_out, x2kind, with_out, k=2):
    """The wrapper returned by wrap_ufunc_productspace(name, n_in, n_out, doc) on an element of a product space with k components: component i's own
    `ufuncs.<name>` is called exactly once, with the caller's keywords, with x2's component i when x2 BELONGS to the product space and with x2 itself
    (broadcast) otherwise - whatever the Python type of x2 -, with out's component i when out is given; the result is space.element(<component results>)
    resp. the caller's out object(s)."""
    def run(ctx):
        I = ctx.I
        factory = I.get_func(UFN + 'wrap_ufunc_productspace')

        def path(st):
            fr = ip.Frame(st)
            calls = []

            class PClass(object):
                """the class of product-space elements"""

                def pv_instancecheck(self, I_, v):
                    return isinstance(v, PEl)

            pclass = PClass()

            class Leaf(object):
                def __init__(self, tag):
                    self.tag = tag

                def __repr__(self):
                    return '<leaf %s>' % self.tag

                def pv_getattr(self, I_, fr_, name):
                    if name == 'ufuncs':
                        me = self

                        class UF(object):
                            def pv_getattr(self, I2, fr2, uname):
                                def call(I3, fr3, a, kw):
                                    calls.append((me, uname, tuple(a), dict(kw)))
                                    if 'out' in kw and kw['out'] is not None:
                                        return kw['out']
                                    if 'out1' in kw:
                                        return (kw['out1'], kw['out2'])
                                    return ('result', me.tag)
                                return ip.Builtin(uname, call)
                        return UF()
                    raise Unsupported('leaf .%s' % name)

            class PSp(object):
                def __init__(self, tag):
                    self.tag = tag
                    self.made = []

                def pv_contains(self, I_, fr_, item):
                    return isinstance(item, PEl) and item.space is self

                def pv_getattr(self, I_, fr_, name):
                    if name == 'element':
                        def el(I2, fr2, a, kw):
                            if a:
                                e = PEl('new', self, list(a[0]))
                            else:
                                e = PEl('empty%d' % len(self.made), self, [Leaf('empty%d.%d' % (len(self.made), i)) for i in range(k)])
                            self.made.append(e)
                            return e
                        return ip.Builtin('element', el)
                    raise Unsupported('space .%s' % name)

            class PEl(object):
                def __init__(self, tag, space, comps):
                    self.tag, self.space, self.comps = tag, space, comps

                def __repr__(self):
                    return '<pelem %s>' % self.tag

                def pv_iter(self, I_, fr_):
                    return iter(list(self.comps))

                def pv_len(self, I_, fr_):
                    return len(self.comps)

                def pv_type(self, I_, fr_):
                    return pclass

                def pv_isinstance(self, I_, cls):
                    return cls is pclass or getattr(cls, 'name', None) in ('ProductSpaceElement', 'LinearSpaceElement')

                def pv_getattr(self, I_, fr_, name):
                    if name == 'space':
                        return self.space
                    raise Unsupported('product-space element .%s' % name)

            class Self(object):
                def __init__(self, elem):
                    self.elem = elem

                def pv_getattr(self, I_, fr_, name):
                    if name == 'elem':
                        return self.elem
                    raise Unsupported('ufuncs object .%s' % name)
            sp, inner = PSp('P'), PSp('inner')
            x = PEl('x', sp, [Leaf('x%d' % i) for i in range(k)])
            if x2kind == 'member':
                x2 = PEl('y', sp, [Leaf('y%d' % i) for i in range(k)])
            elif x2kind == 'inner-pelem':
                x2 = PEl('v', inner, [Leaf('v%d' % i) for i in range(k)])      # a product-space element of ANOTHER (the inner) space with as many parts
            elif x2kind == 'leaf':
                x2 = Leaf('u')
            else:
                x2 = 1.5
            out = PEl('o', sp, [Leaf('o%d' % i) for i in range(k)]) if with_out else None
            out2 = PEl('p', sp, [Leaf('p%d' % i) for i in range(k)]) if with_out else None
            w = I.call(factory, ['myufunc', n_in, n_out, 'doc'], {}, fr)
            me = Self(x)
            try:
                if n_in == 1 and n_out == 1:
                    res = I.call(w, [me], {'out': out, 'flag': 7}, fr)
                elif n_in == 1:
                    res = I.call(w, [me], {'out1': out, 'out2': out2, 'flag': 7}, fr)
                else:
                    res = I.call(w, [me, x2], {'out': out, 'flag': 7}, fr)
            except ip.PyRaise as e:
                return ('raise', e.exc)
            return ('ok', dict(calls=calls, res=res, x=x, x2=x2, out=out, out2=out2, sp=sp))
        info = {'n_in': n_in, 'n_out': n_out, 'x2': x2kind, 'out': with_out, 'components': k}
        for st, (status, r) in ctx.explore(path):
            if status == 'raise':
                ctx.fail(st, 'dispatch does not raise', 'raises %s' % lib.exc_desc(r), info)
                continue
            calls, x, x2, out, out2, sp = r['calls'], r['x'], r['x2'], r['out'], r['out2'], r['sp']
            ctx.prove(st, 'legacy: one call of the ufunc of the same name per component, in order', len(calls) == k and all(c[0] is x.comps[i] and c[1] == 'myufunc' for i, c in enumerate(calls)),
                      dict(info, got=repr(calls)))
            if len(calls) != k:
                continue
            for i, (leaf, uname, a, kw) in enumerate(calls):
                if n_in == 2:
                    want = x2.comps[i] if x2kind == 'member' else x2
                    ctx.prove(st, 'legacy: component %d gets %s' % (i, 'component %d of x2 (x2 belongs to the space)' % i if x2kind == 'member' else 'x2 itself (broadcast: x2 does not belong to the space)'),
                              len(a) == 1 and a[0] is want, dict(info, got=repr(a)))
                else:
                    ctx.prove(st, 'legacy: no positional operand for a unary ufunc', a == (), dict(info, got=repr(a)))
                ctx.prove(st, 'legacy: the caller\'s keywords are handed on', kw.get('flag') == 7, dict(info, got=repr(kw)))
                if with_out or n_out == 2:
                    if n_out == 1:
                        ctx.prove(st, 'legacy: component %d writes into component %d of out' % (i, i), kw.get('out') is out.comps[i], dict(info, got=repr(kw)))
                    else:
                        o1 = out if with_out else (sp.made[0] if sp.made else None)
                        o2 = out2 if with_out else (sp.made[1] if len(sp.made) > 1 else None)
                        ctx.prove(st, 'legacy: component %d writes into components %d of out1 / out2' % (i, i), o1 is not None and o2 is not None and kw.get('out1') is o1.comps[i] and kw.get('out2') is o2.comps[i], dict(info, got=repr(kw)))
                else:
                    ctx.prove(st, 'legacy: out-of-place component call', kw.get('out') is None, dict(info, got=repr(kw)))
            res = r['res']
            if n_out == 2:
                ctx.prove(st, 'legacy: returns (out1, out2)', isinstance(res, tuple) and len(res) == 2 and (not with_out or (res[0] is out and res[1] is out2)) and res[0] is not res[1], dict(info, got=repr(res)))
            elif with_out:
                ctx.prove(st, 'legacy: the caller\'s out is returned (identity)', res is out, dict(info, got=repr(res)))
            else:
                ctx.prove(st, 'legacy: result is space.element(<component results in order>)', isinstance(res, PEl_types(res)) and getattr(res, 'space', None) is sp and
                          list(getattr(res, 'comps', [])) == [('result', 'x%d' % i) for i in range(k)], dict(info, got=repr(getattr(res, 'comps', res))))
    return Unit('legacy-pspace/nin=%d/nout=%d/x2=%s/out=%s/k=%d' % (n_in, n_out, x2kind, with_out, k), run, funcs=[UFN + 'wrap_ufunc_productspace'], config={'n_in': n_in, 'n_out': n_out, 'x2': x2kind, 'out': with_out})


def PEl_types(res):
    return type(res)


def unit_reduce_native_bounded():
    """BOUNDED (never counted as proved): ufunc.reduce on tensor and discretized elements for integer, negative and tuple axes against NumPy on the arrays (the result
    space of a discretized reduce is partition algebra outside the deductive units)"""
    def run(ctx):
        from contracts import replay_c17
        for case, bad in replay_c17.reduce_native_cases():
            ctx.bounded('reduce agrees with NumPy on the underlying array', not bad, case, detail=bad)
    return Unit('reduce-native/axes', run, funcs=['odl.discr.discr_space:DiscretizedSpaceElement.__array_ufunc__', 'odl.space.npy_tensors:NumpyTensor.__array_ufunc__'], kind='B',
                bounded_in='5 spaces (2-3 axes) x 3 ufuncs x 9-12 axis arguments')


def replay(ob):
    from contracts import replay_c17
    return replay_c17.replay(ob)


def units(tier, seed):
    us = []
    for method in METHODS:
        for outk in OUTS:
            for reskind in ('float', 'int'):
                for dtype_kw in (None, 'match', 'mismatch'):
                    if outk == 'none' and dtype_kw == 'mismatch':
                        continue
                    if method == 'at' and (outk != 'none' or dtype_kw):
                        continue
                    us.append(unit_dispatch(method, outk, reskind, dtype_kw))
    for method in ('__call__', '__call__2', 'accumulate', 'at', 'outer'):
        for outk in (('none',) if method == 'at' else ('none', 'element', 'tensor', 'ndarray')):
            us.append(unit_discr(method, outk))
    us.append(unit_errors())
    us.append(unit_element())
    us.append(unit_reduce_native_bounded())
    for with_out in (False, True):
        us.append(unit_pspace_legacy(1, 1, 'none', with_out))
        us.append(unit_pspace_legacy(1, 2, 'none', with_out))
        for x2kind in ('member', 'inner-pelem', 'leaf', 'scalar'):
            us.append(unit_pspace_legacy(2, 1, x2kind, with_out))
            us.append(unit_pspace_legacy(2, 1, x2kind, with_out, k=3))
    us.append(unit_canary())
    return us
