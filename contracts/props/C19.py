"""C19 - acquisition geometries are rigid-motion consistent for all parameters.

The geometry code is shape-manipulating NumPy on small arrays.  It is executed by the interpreter in *object-array mode*
(pyvc/objnp.py): arrays have the small concrete shapes of a configuration (scalar parameter, vectors of 2 parameters, broadcast
pairs) and SYMBOLIC entries; broadcasting / einsum / transposes are NumPy's own on dtype=object arrays, entry arithmetic is symbolic,
cos / sin of a symbolic angle are a pair (c, s) with c^2 + s^2 = 1.  Obligations are polynomial identities in these symbols:

rot/*        euler_matrix (2d, 3d ZXZ), axis_rotation_matrix (Rodrigues, unit axis): R R^T = I, det R = 1, R axis = axis, documented
             output shape, and the vectorised result equals, entry by entry, the single-parameter result
det/*        detector surfaces: surface_deriv is the derivative of surface (symbolic differentiation over c, s), surface_normal is a unit
             vector orthogonal to the derivative(s), vectorised == entrywise
geom/*       geometry classes (built field-wise with their class invariant): rotation matrix orthonormal with det 1; det_point_position ==
             det_refpoint + R surface; det_to_src consistent with src_position (unit length when normalised); parallel beams: ray direction
             independent of the detector point and orthogonal to the detector axes; vectorised == entrywise with the documented shape
"""
import itertools

import numpy as np
import z3

from pyvc import core, interp as ip, odlmodel as om, npmodel as npm, objnp
from pyvc.core import S, Unsupported
from pyvc.harness import Unit
from pyvc.objnp import ONd
from contracts import lib

META = {
    'level': 'proof',
    'trusted_base': [
        'pyvc symbolic interpreter (A7) in object-array mode: NumPy\'s own shape semantics on dtype=object arrays, symbolic entry arithmetic',
        'cos / sin as a pair (c, s) with c^2 + s^2 = 1 per distinct angle term; sqrt as r >= 0, r^2 = x; exact reals (A1)',
        'geometry instances are built field-wise with their class invariant (unit axes, orthonormal init matrix) - not through __init__',
    ],
    'assumptions': ['A1', 'A7', 'shapes: scalar parameters, vectors of 2 parameters and broadcast pairs (2,1) x (1,2) (configurations; values are symbolic)'],
    'not_decided': ['geometry constructors (__init__, frommatrix) and the factories cone_beam_geometry / helical_geometry (detector coverage of the volume; parallel_beam_geometry IS under contract)',
                    'slicing: only the constructor-argument contract of __getitem__ (the constructors themselves are not under contract)', 'ASTRA vector conversions', 'check_bounds=True paths (parameter range checks)'],
}

UT = 'odl.tomo.util.utility:'
DET = 'odl.tomo.geometry.detector:'
GEO = 'odl.tomo.geometry.geometry:'
PAR = 'odl.tomo.geometry.parallel:'
CONE = 'odl.tomo.geometry.conebeam:'


def install(st):
    st.object_arrays = True


def sym(n):
    return S(z3.Real(n))


def arr(x):
    return x.a if isinstance(x, ONd) else np.asarray(x, dtype=object)


def eq_all(a, b):
    """entrywise equality of two arrays / scalars as one S bool (False for a shape mismatch)"""
    a, b = arr(a), arr(b)
    if a.shape != b.shape:
        return core.sbool(False)
    terms = [core.sbool(core.sc_eq(core.S.lift(x) if not isinstance(x, S) else x, core.S.lift(y) if not isinstance(y, S) else y)) for x, y in zip(a.reshape(-1), b.reshape(-1))]
    return core.s_and(*terms) if terms else core.sbool(True)


def ident(n):
    return np.array([[1.0 if i == j else 0.0 for j in range(n)] for i in range(n)], dtype=object)


def matT(m):
    return np.swapaxes(arr(m), -1, -2)


def mm(a, b):
    return np.matmul(objnp.to_obj(arr(a)), objnp.to_obj(arr(b)))


def unit_axis(st, name='ax'):
    ax = [sym('%s%d' % (name, i)) for i in range(3)]
    st.assume(core.sc_eq(ax[0] * ax[0] + ax[1] * ax[1] + ax[2] * ax[2], 1))
    return ONd(np.array(ax, dtype=object))


def prove_rotation(ctx, st, R, n, info, tag=''):
    R = arr(R)
    ctx.prove(st, '%sR R^T == I' % tag, eq_all(mm(R, matT(R)), ident(n)), info)
    ctx.prove(st, '%sR^T R == I' % tag, eq_all(mm(matT(R), R), ident(n)), info)
    ctx.prove(st, '%sdet R == 1' % tag, core.sc_eq(objnp.det(R), 1), info)


SHAPES = {'scalar': None, 'vec2': (2,)}


def angles(name, shape):
    if shape is None:
        return sym(name), [()]
    a = np.empty(shape, dtype=object)
    idxs = list(np.ndindex(*shape))
    for i in idxs:
        a[i] = sym('%s_%s' % (name, '_'.join(map(str, i))))
    return ONd(a), idxs


def unit_rot(kind, shape_name):
    def run(ctx):
        I = ctx.I

        def path(st):
            install(st)
            fr = ip.Frame(st)
            shape = SHAPES[shape_name]
            out = {'fr': fr}
            try:
                if kind == 'euler2d':
                    phi, idxs = angles('phi', shape)
                    f = I.get_func(UT + 'euler_matrix')
                    out['R'] = I.call(f, [phi], {}, fr)
                    out['single'] = {i: I.call(f, [arr(phi)[i] if shape else phi], {}, fr) for i in idxs}
                    out['n'] = 2
                elif kind == 'euler3d':
                    phi, idxs = angles('phi', shape)
                    th, _ = angles('theta', shape)
                    ps, _ = angles('psi', shape)
                    f = I.get_func(UT + 'euler_matrix')
                    out['R'] = I.call(f, [phi, th, ps], {}, fr)
                    out['single'] = {i: I.call(f, [arr(phi)[i] if shape else phi, arr(th)[i] if shape else th, arr(ps)[i] if shape else ps], {}, fr) for i in idxs}
                    out['n'] = 3
                else:
                    ax = unit_axis(st)
                    ang, idxs = angles('angle', shape)
                    f = I.get_func(UT + 'axis_rotation_matrix')
                    out['R'] = I.call(f, [ax, ang], {}, fr)
                    out['single'] = {i: I.call(f, [ax, arr(ang)[i] if shape else ang], {}, fr) for i in idxs}
                    out['n'], out['axis'] = 3, ax
                    out['zero'] = I.call(f, [ax, 0.0], {}, fr)
                out['idxs'] = idxs
            except ip.PyRaise as e:
                return ('raise', e.exc)
            return ('ok', out)
        info = {'kind': kind, 'shape': shape_name}
        for st, (status, r) in ctx.explore(path):
            if status == 'raise':
                ctx.fail(st, 'evaluates without raising', 'raises %s' % lib.exc_desc(r), info)
                continue
            R, n = arr(r['R']), r['n']
            shape = SHAPES[shape_name]
            ctx.prove(st, 'documented output shape', R.shape == (shape or ()) + (n, n), dict(info, got=R.shape))
            if R.shape != (shape or ()) + (n, n):
                continue
            for i in r['idxs']:
                Ri = R[i] if shape else R
                ctx.prove(st, 'vectorised entry %r == single-parameter evaluation' % (i,), eq_all(Ri, r['single'][i]), info)
                prove_rotation(ctx, st, r['single'][i], n, info, tag='entry %r: ' % (i,))
                if kind == 'axis':
                    ctx.prove(st, 'entry %r: the rotation axis is fixed  R axis == axis' % (i,), eq_all(mm(arr(r['single'][i]), arr(r['axis'])), arr(r['axis'])), info)
            if kind == 'axis':
                ctx.prove(st, 'angle 0 gives the identity', eq_all(r['zero'], ident(3)), info)
    return Unit('rot/%s/%s' % (kind, shape_name), run, funcs=[UT + ('axis_rotation_matrix' if kind == 'axis' else 'euler_matrix')], config={'kind': kind, 'shape': shape_name})


# ---------------------------------------------------------------------------------------------------------
# field-wise builders (class invariants as assumptions)

def vec(st, name, n, unit=False):
    v = [sym('%s%d' % (name, i)) for i in range(n)]
    if unit:
        tot = v[0] * v[0]
        for x in v[1:]:
            tot = tot + x * x
        st.assume(core.sc_eq(tot, 1))
    return ONd(np.array(v, dtype=object))


def mk_partition(I, ndim):
    p = ip.Obj(I.get_class('odl.discr.partition:RectPartition'))
    s_ = ip.Obj(I.get_class('odl.set.domain:IntervalProd'))
    s_.fields['_IntervalProd__min_pt'] = ONd(np.zeros(ndim))
    s_.fields['_IntervalProd__max_pt'] = ONd(np.ones(ndim))
    g = ip.Obj(I.get_class('odl.discr.grid:RectGrid'))
    g.fields['_RectGrid__coord_vectors'] = tuple(ONd(np.array([0.0, 1.0])) for _ in range(ndim))
    p.fields['_RectPartition__set'] = s_
    p.fields['_RectPartition__grid'] = g
    p.partial = s_.partial = g.partial = True
    return p


def mk_detector(I, st, kind, name='det'):
    cls = {'flat1d': 'Flat1dDetector', 'flat2d': 'Flat2dDetector', 'circular': 'CircularDetector'}[kind]
    d = ip.Obj(I.get_class(DET + cls))
    nd = 2 if kind == 'flat2d' else 1
    d.fields['_Detector__partition'] = mk_partition(I, nd)
    d.fields['_Detector__space_ndim'] = nd + 1
    d.fields['_Detector__check_bounds'] = False
    d.partial = True
    if kind == 'flat1d':
        d.fields['_Flat1dDetector__axis'] = vec(st, name + '_ax', 2, unit=True)
        d.axis_given = d.fields['_Flat1dDetector__axis']
    elif kind == 'flat2d':
        a, b = vec(st, name + '_axa', 3, unit=True), vec(st, name + '_axb', 3, unit=True)
        d.fields['_Flat2dDetector__axes'] = ONd(np.array([a.a, b.a], dtype=object))
        d.axis_given = d.fields['_Flat2dDetector__axes']
        # linearly independent axes: the cross product does not vanish
        cr = np.cross(a.a, b.a)
        st.assume(cr[0] * cr[0] + cr[1] * cr[1] + cr[2] * cr[2] > 0)
    else:
        ax = vec(st, name + '_ax', 2, unit=True)
        r = sym(name + '_radius')
        st.assume(r > 0)
        sin_, cos_ = ax.a[0], -ax.a[1]
        rot = np.array([[cos_, -sin_], [sin_, cos_]], dtype=object)
        d.fields['_CircularDetector__axis'] = ax
        d.axis_given, d.radius_given = ax, r
        d.fields['_CircularDetector__radius'] = r
        d.fields['_CircularDetector__rotation_matrix'] = ONd(rot)
        d.fields['_CircularDetector__translation'] = ONd(-r * rot.dot(np.array([1.0, 0.0], dtype=object)))
    return d


def construct_detector(I, st, kind, name='det', fr=None):
    """the detector, built through its REAL constructor (object-array mode) from a symbolic unit axis / axes and radius"""
    cls = {'flat1d': 'Flat1dDetector', 'flat2d': 'Flat2dDetector', 'circular': 'CircularDetector'}[kind]
    nd = 2 if kind == 'flat2d' else 1
    part = mk_partition(I, nd)
    fr = fr or ip.Frame(st)
    if kind == 'flat1d':
        ax = vec(st, name + '_ax', 2, unit=True)
        d = I.call(I.get_class(DET + cls), [part, ax], {'check_bounds': False}, fr)
        d.axis_given = ax
    elif kind == 'flat2d':
        a, b = vec(st, name + '_axa', 3, unit=True), vec(st, name + '_axb', 3, unit=True)
        cr = np.cross(a.a, b.a)
        st.assume(cr[0] * cr[0] + cr[1] * cr[1] + cr[2] * cr[2] > 0)          # linearly independent axes
        nrm = objnp.norm(I, fr, ONd(np.cross(objnp.to_obj(np.array([a.a, b.a], dtype=object))[0], objnp.to_obj(np.array([a.a, b.a], dtype=object))[1])))
        st.assume(core.S.lift(nrm) > 0)                                        # ... in the form the constructor tests (same sqrt term)
        d = I.call(I.get_class(DET + cls), [part, [a, b]], {'check_bounds': False}, fr)
        d.axis_given = ONd(np.array([a.a, b.a], dtype=object))
    else:
        ax = vec(st, name + '_ax', 2, unit=True)
        r = sym(name + '_radius')
        st.assume(r > 0)
        d = I.call(I.get_class(DET + cls), [part, ax, r], {'check_bounds': False}, fr)
        d.axis_given, d.radius_given = ax, r
    return d


def unit_detector_ctor(kind):
    """the REAL constructor, given a unit axis / independent unit axes and a positive radius, establishes exactly the fields the field-wise
    builder `mk_detector` assumes in the det/* and geom/* units (assume-guarantee); det/* proves from those fields that the detector is
    aligned with the given axis at parameter 0"""
    def run(ctx):
        I = ctx.I

        def path(st):
            install_geo(st)
            fr = ip.Frame(st)
            try:
                real = construct_detector(I, st, kind, 'det', fr)
            except ip.PyRaise as e:
                return ('raise', e.exc)
            return ('ok', real)
        info = {'detector': kind}
        fields = {'flat1d': ['_Flat1dDetector__axis'], 'flat2d': ['_Flat2dDetector__axes'],
                  'circular': ['_CircularDetector__axis', '_CircularDetector__radius', '_CircularDetector__rotation_matrix', '_CircularDetector__translation']}[kind]
        n_ok = 0
        for st, (status, real) in ctx.explore(path):
            if status == 'raise':
                ctx.fail(st, 'constructor accepts a unit axis', 'raises %s' % lib.exc_desc(real), info)
                continue
            n_ok += 1
            model = mk_detector(I, st, kind)           # same symbol names: the builder's fields as functions of (axis, radius)
            for f in fields:
                ctx.prove(st, 'constructor establishes %s as assumed by the field-wise builder' % f.split('__')[-1], eq_all(arr(real.fields[f]) if isinstance(real.fields[f], ONd) else np.array([real.fields[f]], dtype=object),
                                                                                                                 arr(model.fields[f]) if isinstance(model.fields[f], ONd) else np.array([model.fields[f]], dtype=object)), info)
            ctx.prove(st, 'constructor stores space_ndim and check_bounds', real.fields.get('_Detector__space_ndim') == model.fields['_Detector__space_ndim'] and real.fields.get('_Detector__check_bounds') is False, info)
        if n_ok == 0:
            ctx.unsupported('unit', 'no constructor path completes (vacuous)')
    return Unit('ctor/%s' % kind, run, funcs=[DET + '*Detector.__init__'], config={'detector': kind})


def perpendicular_vector_contract(I, fr, vec_):
    """contract of odl.tomo.util.utility.perpendicular_vector (boolean-mask assignment; cross-checked natively by the thorough tier):
    for rows (x, y[, z]) with (x, y) != 0 the unit vector (-y, x[, 0]) / |(x, y)|, for rows (0, 0, z) the vector (1, 0, 0)"""
    v = arr(vec_)
    squeeze = v.ndim == 1
    v2 = v.reshape((-1, v.shape[-1]))
    out = np.empty(v2.shape, dtype=object)
    for k in range(v2.shape[0]):
        x, y = v2[k, 0], v2[k, 1]
        n2 = x * x + y * y
        allzero = core.sbool(core.sc_eq(n2, 0)) if v2.shape[1] == 2 else core.s_and(core.sbool(core.sc_eq(n2, 0)), core.sbool(core.sc_eq(v2[k, 2], 0)))
        if I.truth(allzero, fr):
            raise ip.PyRaise(I.make_exc('ValueError', 'zero vector'))
        if I.truth(core.s_not(core.sbool(core.sc_eq(n2, 0))), fr):
            n = core.ssqrt(n2)
            out[k, 0], out[k, 1] = -y / n, x / n
            if v2.shape[1] == 3:
                out[k, 2] = 0.0
        else:
            out[k, 0], out[k, 1], out[k, 2] = 1.0, 0.0, 0.0
    out = out.reshape(v.shape)
    return ONd(out)


def install_geo(st):
    install(st)
    st.cuts[UT + 'perpendicular_vector'] = perpendicular_vector_contract


PSHAPES = {'scalar': None, 'vec2': (2,), 'col': (2, 1), 'row': (1, 2)}


def param(name, shape, k=1):
    """detector / motion parameter(s): k == 1 a single array, k > 1 a tuple of arrays of that shape"""
    if k == 1:
        return angles(name, shape)
    ps, idxs = [], None
    for j in range(k):
        p, idxs = angles('%s%d' % (name, j), shape)
        ps.append(p)
    return tuple(ps), idxs


def at(p, i, shape):
    if isinstance(p, tuple):
        return tuple(at(q, i, shape) for q in p)
    return arr(p)[i] if shape else p


def sympy_of(e, table):
    """z3 polynomial term -> sympy (symbols only)"""
    import sympy
    from pyvc import vc
    return vc.to_sympy(e, table) if hasattr(vc, 'to_sympy') else None


def unit_detector(kind, shape_name):
    def run(ctx):
        I = ctx.I

        def path(st):
            install_geo(st)
            fr = ip.Frame(st)
            shape = PSHAPES[shape_name]
            d = mk_detector(I, st, kind)
            k = 2 if kind == 'flat2d' else 1
            p, idxs = param('u', shape, k)
            out = dict(fr=fr, d=d, p=p, idxs=idxs)
            try:
                for nm in ('surface', 'surface_deriv', 'surface_normal', 'surface_measure'):
                    out[nm] = I.call(I._getattr(d, nm, fr), [p], {}, fr)
                    out[nm + '1'] = {i: I.call(I._getattr(d, nm, fr), [at(p, i, shape)], {}, fr) for i in idxs}
            except ip.PyRaise as e:
                return ('raise', e.exc)
            return ('ok', out)
        info = {'detector': kind, 'shape': shape_name}
        for st, (status, r) in ctx.explore(path):
            if status == 'raise':
                ctx.fail(st, 'evaluates without raising', 'raises %s' % lib.exc_desc(r), info)
                continue
            shape = PSHAPES[shape_name]
            d = r['d']
            sdim = 3 if kind == 'flat2d' else 2
            expect = {'surface': (sdim,), 'surface_deriv': ((2, sdim) if kind == 'flat2d' else (sdim,)), 'surface_normal': (sdim,), 'surface_measure': ()}
            for nm in ('surface', 'surface_deriv', 'surface_normal', 'surface_measure'):
                full = arr(r[nm])
                want = (shape or ()) + expect[nm]
                ctx.prove(st, '%s: documented output shape' % nm, full.shape == want, dict(info, got=full.shape, want=want))
                if full.shape != want:
                    continue
                for i in r['idxs']:
                    ctx.prove(st, '%s: vectorised entry %r == single-parameter evaluation' % (nm, i), eq_all(full[i] if shape else full, r[nm + '1'][i]), info)
            if shape_name == 'scalar':
                zero = 0.0 if kind != 'flat2d' else (0.0, 0.0)
                I_, fr_ = ctx.I, r['fr']
                s0 = arr(I_.call(I_._getattr(d, 'surface', fr_), [zero], {}, fr_))
                d0 = arr(I_.call(I_._getattr(d, 'surface_deriv', fr_), [zero], {}, fr_))
                given = arr(d.axis_given)
                ctx.prove(st, 'surface(0) is the reference point (origin of the detector frame)', eq_all(s0, np.zeros(sdim, dtype=object)), info)
                scale = getattr(d, 'radius_given', 1.0)
                ctx.prove(st, 'the detector is aligned with the given axis at parameter 0  (surface_deriv(0) == [radius *] axis)', eq_all(d0, scale * given), info)
            for i in r['idxs']:
                surf, der, nrm, meas = [arr(r[nm + '1'][i]) for nm in ('surface', 'surface_deriv', 'surface_normal', 'surface_measure')]
                ders = der if kind == 'flat2d' else der[None]
                for dv in ders:
                    dot = dv[0] * nrm[0]
                    for a_, b_ in zip(dv[1:], nrm[1:]):
                        dot = dot + a_ * b_
                    ctx.prove(st, 'entry %r: surface_normal is orthogonal to the surface derivative' % (i,), core.sc_eq(dot, 0), info)
                if kind == 'flat2d':
                    # normal = cross / |cross|: unfold the definitions  normal_j = num_j / r,  r = sqrt(X)  and prove the code-dependent
                    # polynomial identities num_j == (d0 x d1)_j and X == |d0 x d1|^2; unit length then is an abstract lemma
                    cr = np.cross(ders[0], ders[1])
                    T = cr[0] * cr[0] + cr[1] * cr[1] + cr[2] * cr[2]
                    ok = True
                    for j in range(3):
                        uq = core.unfold_quot(nrm[j])
                        if uq is None:
                            ctx.fail(st, 'entry %r: normal[%d] is a quotient by the length of the cross product' % (i, j), 'normal[%d] = %s' % (j, nrm[j]), info)
                            ok = False
                            continue
                        num, den = uq
                        X = core.unfold_sqrt(den)
                        ctx.prove(st, 'entry %r: normal[%d] == (d0 x d1)[%d] / r' % (i, j, j), core.sc_eq(num, cr[j]), info)
                        if X is None:
                            ctx.fail(st, 'entry %r: the denominator of normal[%d] is a square root' % (i, j), 'denominator %s' % den, info)
                        else:
                            ctx.prove(st, 'entry %r: r^2 == |d0 x d1|^2  (denominator of normal[%d])' % (i, j), core.sc_eq(X, T), info)
                    N, Cq, r_ = [sym('N%d' % j) for j in range(3)], [sym('C%d' % j) for j in range(3)], sym('r')
                    ctx.prove_lemma('lemma: n_j r == c_j, r^2 == c_0^2 + c_1^2 + c_2^2 > 0  ==>  n_0^2 + n_1^2 + n_2^2 == 1   (unit length of cross / |cross|)',
                                    [core.sc_eq(N[j] * r_, Cq[j]) for j in range(3)] + [core.sc_eq(r_ * r_, Cq[0] * Cq[0] + Cq[1] * Cq[1] + Cq[2] * Cq[2]), r_ > 0],
                                    core.sc_eq(N[0] * N[0] + N[1] * N[1] + N[2] * N[2], 1), info)
                else:
                    n2 = nrm[0] * nrm[0]
                    for a_ in nrm[1:]:
                        n2 = n2 + a_ * a_
                    ctx.prove(st, 'entry %r: surface_normal has unit length' % (i,), core.sc_eq(n2, 1), info)
                m = core.S.lift(meas.reshape(-1)[0] if isinstance(meas, np.ndarray) else meas)
                if kind == 'flat2d':
                    cr = np.cross(ders[0], ders[1])
                    m2 = cr[0] * cr[0] + cr[1] * cr[1] + cr[2] * cr[2]
                else:
                    m2 = ders[0][0] * ders[0][0] + ders[0][1] * ders[0][1]
                ctx.prove(st, 'entry %r: surface_measure is the length of the derivative (area element)' % (i,), core.s_and(core.sbool(m >= 0), core.sbool(core.sc_eq(m * m, m2))), info)
                # derivative: symbolic differentiation of the surface w.r.t. the parameter(s) over (cos u, sin u)
                pvals = at(r['p'], i, shape)
                pvals = pvals if isinstance(pvals, tuple) else (pvals,)
                for j, pv in enumerate(pvals):
                    c, s_ = core.trig(pv)
                    for comp in range(sdim):
                        dcomp = diff(surf[comp], pv, c, s_)
                        ctx.prove(st, 'entry %r: surface_deriv[%d][%d] == d surface[%d] / d param%d' % (i, j, comp, comp, j), core.sc_eq(ders[j][comp], dcomp), info)
    return Unit('det/%s/%s' % (kind, shape_name), run, funcs=[DET + '*Detector.surface*'], config={'detector': kind, 'shape': shape_name})


def diff(e, t, c, s_):
    """d e / d t for a polynomial term e in t, c = cos t, s = sin t and symbols that do not depend on t (sum / product rule,
    d c = -s, d s = c), computed on the z3 term"""
    e = core.S.lift(e).t
    t_, c_, s__ = core.S.lift(t).t, core.S.lift(c).t, core.S.lift(s_).t
    if not (z3.is_const(t_) and t_.decl().kind() == z3.Z3_OP_UNINTERPRETED):
        raise Unsupported('differentiation w.r.t. a non-variable')

    def d(x):
        if z3.is_rational_value(x) or z3.is_int_value(x):
            return z3.RealVal(0)
        if z3.is_const(x) and x.decl().kind() == z3.Z3_OP_UNINTERPRETED:
            if x.eq(t_):
                return z3.RealVal(1)
            if x.eq(c_):
                return -s__
            if x.eq(s__):
                return c_
            nm = x.decl().name()
            if nm.startswith(('quot!', 'sqrt!', 'cos!', 'sin!')):
                raise Unsupported('differentiation through a defined symbol %s' % nm)
            return z3.RealVal(0)
        k = x.decl().kind()
        ch = x.children()
        if k == z3.Z3_OP_ADD:
            return z3.Sum([d(y) for y in ch])
        if k == z3.Z3_OP_SUB:
            r = d(ch[0])
            for y in ch[1:]:
                r = r - d(y)
            return r
        if k == z3.Z3_OP_UMINUS:
            return -d(ch[0])
        if k == z3.Z3_OP_MUL:
            terms = []
            for j in range(len(ch)):
                f = d(ch[j])
                for m, y in enumerate(ch):
                    if m != j:
                        f = f * y
                terms.append(f)
            return z3.Sum(terms)
        if k == z3.Z3_OP_TO_REAL:
            return z3.RealVal(0)
        if k == z3.Z3_OP_DIV and z3.is_rational_value(ch[1]):
            return d(ch[0]) / ch[1]
        raise Unsupported('differentiation of %s' % x.decl().name())
    return S(z3.simplify(d(z3.simplify(e))))


# ---------------------------------------------------------------------------------------------------------
# geometry classes

def base_fields(I, st, g, ndim, det, transl=True):
    g.fields['_Geometry__ndim'] = ndim
    g.fields['_Geometry__motion_partition'] = mk_partition(I, 1)
    g.fields['_Geometry__detector'] = det
    g.fields['_Geometry__check_bounds'] = False
    g.fields['_Geometry__translation'] = vec(st, 'transl', ndim)
    g.fields['_Geometry__implementation_cache'] = {}
    g.partial = True


def zero_shift(n):
    def f(I, fr, args, kwargs):
        return ONd(np.zeros((1, n)))             # the default of the constructors: lambda x: np.array([0.0] * n, dtype=float, ndmin=2)
    return ip.Builtin('zero_shift', f)


def mk_geometry(I, st, kind):
    if kind == 'parallel2d':
        g = ip.Obj(I.get_class(PAR + 'Parallel2dGeometry'))
        base_fields(I, st, g, 2, mk_detector(I, st, 'flat1d'))
        g.fields['_ParallelBeamGeometry__det_pos_init'] = vec(st, 'dpos', 2)
    elif kind == 'parallel3d_axis':
        g = ip.Obj(I.get_class(PAR + 'Parallel3dAxisGeometry'))
        base_fields(I, st, g, 3, mk_detector(I, st, 'flat2d'))
        g.fields['_ParallelBeamGeometry__det_pos_init'] = vec(st, 'dpos', 3)
        g.fields['_AxisOrientedGeometry__axis'] = vec(st, 'axis', 3, unit=True)
    elif kind == 'parallel3d_euler':
        g = ip.Obj(I.get_class(PAR + 'Parallel3dEulerGeometry'))
        base_fields(I, st, g, 3, mk_detector(I, st, 'flat2d'))
        g.fields['_Geometry__motion_partition'] = mk_partition(I, 3)
        g.fields['_ParallelBeamGeometry__det_pos_init'] = vec(st, 'dpos', 3)
    elif kind in ('fanbeam', 'fanbeam_curved'):
        g = ip.Obj(I.get_class(CONE + 'FanBeamGeometry'))
        base_fields(I, st, g, 2, mk_detector(I, st, 'flat1d' if kind == 'fanbeam' else 'circular'))
        g.fields['_FanBeamGeometry__src_to_det_init'] = vec(st, 's2d', 2, unit=True)
        rs, rd = sym('src_radius'), sym('det_radius')
        st.assume(rs >= 0)
        st.assume(rd >= 0)
        st.assume(rs + rd > 0)
        g.fields['_FanBeamGeometry__src_radius'], g.fields['_FanBeamGeometry__det_radius'] = rs, rd
        g.fields['_FanBeamGeometry__src_shift_func'] = zero_shift(2)
        g.fields['_FanBeamGeometry__det_shift_func'] = zero_shift(2)
    elif kind == 'conebeam':
        g = ip.Obj(I.get_class(CONE + 'ConeBeamGeometry'))
        base_fields(I, st, g, 3, mk_detector(I, st, 'flat2d'))
        ax = vec(st, 'axis', 3, unit=True)
        s2d = vec(st, 's2d', 3, unit=True)
        # class invariant: the source-detector direction is perpendicular to the rotation axis
        st.assume(core.sc_eq(ax.a[0] * s2d.a[0] + ax.a[1] * s2d.a[1] + ax.a[2] * s2d.a[2], 0))
        g.fields['_AxisOrientedGeometry__axis'] = ax
        g.fields['_ConeBeamGeometry__src_to_det_init'] = s2d
        rs, rd = sym('src_radius'), sym('det_radius')
        st.assume(rs >= 0)
        st.assume(rd >= 0)
        st.assume(rs + rd > 0)
        g.fields['_ConeBeamGeometry__src_radius'], g.fields['_ConeBeamGeometry__det_radius'] = rs, rd
        g.fields['_ConeBeamGeometry__pitch'] = sym('pitch')
        g.fields['_ConeBeamGeometry__offset_along_axis'] = sym('offset')
        g.fields['_ConeBeamGeometry__src_shift_func'] = zero_shift(3)
        g.fields['_ConeBeamGeometry__det_shift_func'] = zero_shift(3)
    else:
        raise KeyError(kind)
    return g


GEOS = {'parallel2d': dict(ndim=2, mk=1, dk=1, parallel=True), 'parallel3d_axis': dict(ndim=3, mk=1, dk=2, parallel=True),
        'parallel3d_euler': dict(ndim=3, mk=3, dk=2, parallel=True), 'fanbeam': dict(ndim=2, mk=1, dk=1, parallel=False),
        'fanbeam_curved': dict(ndim=2, mk=1, dk=1, parallel=False), 'conebeam': dict(ndim=3, mk=1, dk=2, parallel=False)}


def dotv(a, b):
    a, b = arr(a).reshape(-1), arr(b).reshape(-1)
    t = a[0] * b[0]
    for x, y in zip(a[1:], b[1:]):
        t = t + x * y
    return core.S.lift(t)


def lemma_dot_preserved(ctx, n, info):
    """orthonormal matrices preserve inner products, proved in two steps: (R x).(R y) == sum_kl x_k y_l (R^T R)_kl is a polynomial identity;
    with (R^T R)_kl == delta_kl the right-hand side is x.y"""
    R = [[sym('L_r%d%d' % (i, j)) for j in range(n)] for i in range(n)]
    x, y = [sym('L_x%d' % i) for i in range(n)], [sym('L_y%d' % i) for i in range(n)]

    def sm(ts):
        t = ts[0]
        for u in ts[1:]:
            t = t + u
        return t
    G = [[sm([R[i][k] * R[i][l] for i in range(n)]) for l in range(n)] for k in range(n)]
    Rx = [sm([R[i][k] * x[k] for k in range(n)]) for i in range(n)]
    Ry = [sm([R[i][k] * y[k] for k in range(n)]) for i in range(n)]
    lhs = sm([a * b for a, b in zip(Rx, Ry)])
    ctx.prove_lemma('lemma (n=%d): (R x).(R y) == sum_kl x_k y_l (R^T R)_kl' % n, [], core.sc_eq(lhs, sm([x[k] * y[l] * G[k][l] for k in range(n) for l in range(n)])), info)
    g = [[sym('L_g%d%d' % (k, l)) for l in range(n)] for k in range(n)]
    ctx.prove_lemma('lemma (n=%d): (R^T R)_kl == delta_kl  ==>  sum_kl x_k y_l (R^T R)_kl == x.y' % n,
                    [core.sc_eq(g[k][l], 1.0 if k == l else 0.0) for k in range(n) for l in range(n)],
                    core.sc_eq(sm([x[k] * y[l] * g[k][l] for k in range(n) for l in range(n)]), sm([x[k] * y[k] for k in range(n)])), info)


def prove_normalised(ctx, st, nvec, raw, info, tag):
    """nvec == raw / |raw| by unfolding the quotient / sqrt definitions: numerators == raw, radicand == raw.raw (polynomial identities);
    unit length and `positive multiple of raw` then follow from the abstract lemma"""
    nvec, raw = arr(nvec).reshape(-1), arr(raw).reshape(-1)
    T = dotv(raw, raw)
    for j in range(len(raw)):
        uq = core.unfold_quot(nvec[j])
        if uq is None:
            # a component may be a plain zero / numeral when raw[j] is: then nvec[j] |raw| == raw[j] directly
            ctx.prove(st, '%s: component %d of the normalised vector is raw[%d] / |raw|' % (tag, j, j), core.s_and(core.sbool(core.sc_eq(raw[j], 0)), core.sbool(core.sc_eq(nvec[j], 0))), info)
            continue
        num, den = uq
        X = core.unfold_sqrt(den)
        ctx.prove(st, '%s: numerator of component %d == raw[%d]' % (tag, j, j), core.sc_eq(num, raw[j]), info)
        if X is None:
            ctx.fail(st, '%s: the denominator of component %d is a square root' % (tag, j), 'denominator %s' % den, info)
        else:
            ctx.prove(st, '%s: denominator of component %d == |raw|  (radicand == raw.raw)' % (tag, j), core.sc_eq(X, T), info)


def lemma_normalised(ctx, n, info):
    N, Cq, r_ = [sym('N%d' % j) for j in range(n)], [sym('C%d' % j) for j in range(n)], sym('r')
    tot = Cq[0] * Cq[0]
    nn = N[0] * N[0]
    for j in range(1, n):
        tot, nn = tot + Cq[j] * Cq[j], nn + N[j] * N[j]
    ctx.prove_lemma('lemma (n=%d): n_j r == c_j, r^2 == c.c > 0, r >= 0  ==>  n.n == 1' % n, [core.sc_eq(N[j] * r_, Cq[j]) for j in range(n)] + [core.sc_eq(r_ * r_, tot), r_ > 0], core.sc_eq(nn, 1), info)


def unit_geometry(kind, mshape_name, dshape_name):
    G = GEOS[kind]

    def run(ctx):
        I = ctx.I

        def path(st):
            install_geo(st)
            fr = ip.Frame(st)
            ms, ds = PSHAPES[mshape_name], PSHAPES[dshape_name]
            try:
                g = mk_geometry(I, st, kind)
            except ip.PyRaise as e:
                return ('raise', e.exc)
            a, aidx = param('ang', ms, G['mk'])
            u, uidx = param('u', ds, G['dk'])
            out = dict(fr=fr, g=g, a=a, u=u, aidx=aidx, uidx=uidx)
            call = lambda nm, *args, **kw: I.call(I._getattr(g, nm, fr), list(args), kw, fr)
            try:
                out['R'] = call('rotation_matrix', a)
                out['ref'] = call('det_refpoint', a)
                out['pos'] = call('det_point_position', a, u)
                out['d2s'] = call('det_to_src', a, u)
                if not G['parallel']:
                    out['src'] = call('src_position', a)
                    out['d2s_raw'] = call('det_to_src', a, u, normalized=False)
                out['1'] = {}
                for i in aidx:
                    ai = at(a, i, ms)
                    e = {'R': call('rotation_matrix', ai), 'ref': call('det_refpoint', ai)}
                    if not G['parallel']:
                        e['src'] = call('src_position', ai)
                    e['axes'] = call('det_axis' if G['dk'] == 1 else 'det_axes', ai)
                    for j in uidx:
                        uj = at(u, j, ds)
                        e[('pos', j)] = call('det_point_position', ai, uj)
                        e[('d2s', j)] = call('det_to_src', ai, uj)
                        e[('surf', j)] = I.call(I._getattr(g.fields['_Geometry__detector'], 'surface', fr), [uj], {}, fr)
                        if not G['parallel']:
                            e[('d2s_raw', j)] = call('det_to_src', ai, uj, normalized=False)
                    out['1'][i] = e
            except ip.PyRaise as e:
                return ('raise', e.exc)
            return ('ok', out)
        info = {'geometry': kind, 'mshape': mshape_name, 'dshape': dshape_name}
        for st, (status, r) in ctx.explore(path):
            if status == 'raise':
                ctx.fail(st, 'evaluates without raising', 'raises %s' % lib.exc_desc(r), info)
                continue
            ms, ds, n = PSHAPES[mshape_name], PSHAPES[dshape_name], G['ndim']
            bshape = np.broadcast(np.empty(ms or ()), np.empty(ds or ())).shape if False else None
            g = r['g']
            transl = arr(g.fields['_Geometry__translation'])
            # documented shapes (parameters broadcast against each other) and vectorised == entrywise
            bsh = np.broadcast_shapes(ms or (), ds or ())

            def sub(idx, shape):
                """index into an array of `shape` that broadcasts to index `idx` of the broadcast shape"""
                if not shape:
                    return ()
                idx = idx[len(idx) - len(shape):]
                return tuple(0 if shape[k] == 1 else idx[k] for k in range(len(shape)))
            want = {'R': (ms or ()) + (n, n), 'ref': (ms or ()) + (n,), 'pos': bsh + (n,), 'd2s': bsh + (n,)}
            if not G['parallel']:
                want['src'] = (ms or ()) + (n,)
            for nm, w in want.items():
                full = arr(r[nm])
                ctx.prove(st, '%s: documented output shape' % nm, full.shape == w, dict(info, got=full.shape, want=w))
                if full.shape != w:
                    continue
                if nm in ('R', 'ref', 'src'):
                    for i in r['aidx']:
                        ctx.prove(st, '%s: vectorised entry %r == single-parameter evaluation' % (nm, i), eq_all(full[i] if ms else full, r['1'][i][nm]), info)
                else:
                    for b in (list(np.ndindex(*bsh)) if bsh else [()]):
                        i, j = sub(b, ms), sub(b, ds)
                        ctx.prove(st, '%s: vectorised entry %r == single-parameter evaluation at (angle %r, point %r)' % (nm, b, i, j),
                                  eq_all(full[b] if bsh else full, r['1'][i][(nm, j)]), info)
            lemma_dot_preserved(ctx, n, info)
            lemma_normalised(ctx, n, info)
            det = g.fields['_Geometry__detector']
            axes0 = arr(det.fields.get('_Flat1dDetector__axis', det.fields.get('_Flat2dDetector__axes', det.fields.get('_CircularDetector__axis'))))
            axes0 = axes0 if axes0.ndim == 2 else axes0[None]
            for k_, ax0 in enumerate(axes0):
                ctx.prove(st, 'detector axis %d has unit length (class invariant)' % k_, core.sc_eq(dotv(ax0, ax0), 1), info)
            for i in r['aidx']:
                e = r['1'][i]
                R = arr(e['R'])
                prove_rotation(ctx, st, R, n, info, tag='angle %r: ' % (i,))
                axes = arr(e['axes'])
                axes = axes if axes.ndim == 2 else axes[None]
                for j in r['uidx']:
                    pos, surf, ref = arr(e[('pos', j)]), arr(e[('surf', j)]), arr(e['ref'])
                    ctx.prove(st, 'angle %r, point %r: det_point_position == det_refpoint + R surface' % (i, j), eq_all(pos, ref + mm(R, surf)), info)
                    d2s = arr(e[('d2s', j)])
                    if G['parallel']:
                        # ray direction = R n(u) with n the unit normal of the detector (det/* units) and rotated axes = R axes_init:
                        # unit length and orthogonality to the rotated axes follow from the lemma `orthonormal matrices preserve inner products`
                        nd = arr(I_call(ctx, r, 'surface_normal', at(r['u'], j, ds)))
                        ctx.prove(st, 'angle %r, point %r: parallel beam - det_to_src == R surface_normal(u)' % (i, j), eq_all(d2s, mm(R, nd)), info)
                        ctx.prove(st, 'angle %r, point %r: parallel beam - ray direction is the same for all detector points' % (i, j), eq_all(d2s, e[('d2s', r['uidx'][0])]), info)
                        for k_, ax0 in enumerate(axes0):
                            uqs = [core.unfold_quot(x) for x in nd.reshape(-1)]
                            if all(q is not None for q in uqs):
                                numv = np.array([q[0] for q in uqs], dtype=object)
                                ctx.prove(st, 'angle %r, point %r: detector normal orthogonal to detector axis %d (numerators)' % (i, j, k_), core.sc_eq(dotv(numv, ax0), 0), info)
                            else:
                                ctx.prove(st, 'angle %r, point %r: detector normal orthogonal to detector axis %d' % (i, j, k_), core.sc_eq(dotv(nd, ax0), 0), info)
                    else:
                        raw, src = arr(e[('d2s_raw', j)]), arr(e['src'])
                        ctx.prove(st, 'angle %r, point %r: det_to_src == src_position - det_point_position' % (i, j), eq_all(raw, src - pos), info)
                        prove_normalised(ctx, st, d2s, raw, info, 'angle %r, point %r: normalised det_to_src' % (i, j))
                for k_, ax in enumerate(axes):
                    ctx.prove(st, 'angle %r: rotated detector axis %d == R axis_init' % (i, k_), eq_all(ax, mm(R, axes0[k_])), info)
                if not G['parallel']:
                    src, ref = arr(e['src']), arr(e['ref'])
                    dvec = ref - src
                    rs, rd = [g.fields['_%s__%s' % (g.cls.name, nm)] for nm in ('src_radius', 'det_radius')]
                    ctx.prove(st, 'angle %r: |det_refpoint - src_position| == src_radius + det_radius  (no shifts)' % (i,), core.sc_eq(dotv(dvec, dvec), (rs + rd) * (rs + rd)), info)
                    s2d = arr(g.fields['_%s__src_to_det_init' % g.cls.name])
                    axial = 0.0
                    if kind == 'conebeam':
                        ang = at(r['a'], i, ms)
                        axial = (g.fields['_ConeBeamGeometry__offset_along_axis'] + g.fields['_ConeBeamGeometry__pitch'] * ang / (2 * np.pi)) * arr(g.fields['_AxisOrientedGeometry__axis'])
                    ctx.prove(st, 'angle %r: src_position == translation + R (-src_radius src_to_det_init) [+ (offset + pitch angle / 2 pi) axis]' % (i,),
                              eq_all(src, transl + mm(R, -rs * s2d) + axial), info)
                    ctx.prove(st, 'angle %r: det_refpoint == translation + R (det_radius src_to_det_init) [+ (offset + pitch angle / 2 pi) axis]' % (i,),
                              eq_all(ref, transl + mm(R, rd * s2d) + axial), info)
    return Unit('geom/%s/m=%s/d=%s' % (kind, mshape_name, dshape_name), run, funcs=[GEO + 'Geometry.det_point_position', PAR + '*', CONE + '*'] if False else [kind],
                config={'geometry': kind, 'mshape': mshape_name, 'dshape': dshape_name})


def I_call(ctx, r, nm, arg):
    I, fr = ctx.I, r['fr']
    return I.call(I._getattr(r['g'].fields['_Geometry__detector'], nm, fr), [arg], {}, fr)


def radial2(g, v, kind):
    """squared length of the component of v perpendicular to the rotation axis (all of v in 2d)"""
    if kind.startswith('fanbeam'):
        return dotv(v, v)
    ax = arr(g.fields['_AxisOrientedGeometry__axis'])
    along = dotv(v, ax)
    return dotv(v, v) - along * along


# ---------------------------------------------------------------------------------------------------------
# factory: parallel_beam_geometry - the detector covers the volume

def unit_parallel_factory(ndim):
    """parallel_beam_geometry(space): the detector partition handed to the geometry constructor covers the projection of EVERY point of the
    volume for EVERY view: horizontally [-rho, rho] with |p . e| <= |p_xy| <= rho for all unit vectors e (Cauchy-Schwarz), vertically
    [min_h, max_h]; the constructor calls are cuts (their arguments are the claim), `IntervalProd.corners` is taken by its contract"""
    def run(ctx):
        I = ctx.I

        def path(st):
            install(st)
            fr = ip.Frame(st)
            lo = [sym('lo%d' % k) for k in range(ndim)]
            hi = [sym('hi%d' % k) for k in range(ndim)]
            for a, b in zip(lo, hi):
                st.assume(a < b)
            cs = [sym('cell%d' % k) for k in range(ndim)]
            for c in cs:
                st.assume(c > 0)
            calls = {'upart': [], 'geom': []}

            class Dom(object):
                def pv_getattr(self, I_, fr_, name):
                    if name == 'corners':
                        def corners(I2, fr2, a, k):
                            pts = list(itertools.product(*[(lo[j], hi[j]) for j in range(ndim)]))
                            return ONd(np.array(pts, dtype=object))
                        return ip.Builtin('corners', corners)
                    if name == 'min_pt':
                        return ONd(np.array(lo, dtype=object))
                    if name == 'max_pt':
                        return ONd(np.array(hi, dtype=object))
                    if name == 'mid_pt':
                        return ONd(np.array([(a + b) / 2 for a, b in zip(lo, hi)], dtype=object))
                    if name == 'extent':
                        return ONd(np.array([b - a for a, b in zip(lo, hi)], dtype=object))
                    raise Unsupported('domain.%s' % name)

            class Part(object):
                def pv_getattr(self, I_, fr_, name):
                    if name == 'cell_sides':
                        return ONd(np.array(cs, dtype=object))
                    raise Unsupported('partition.%s' % name)

            class Space(object):
                def pv_getattr(self, I_, fr_, name):
                    d = {'domain': Dom(), 'partition': Part(), 'ndim': ndim, 'shape': tuple(S(z3.Int('shape%d' % k)) for k in range(ndim))}
                    if name in d:
                        return d[name]
                    raise Unsupported('space.%s' % name)

            def upart(I_, fr_, min_pt=None, max_pt=None, shape=None, **kw):
                calls['upart'].append((min_pt, max_pt, shape))
                return ('partition', len(calls['upart']) - 1)
            st.cuts[PAR + 'uniform_partition'] = upart
            st.cuts['odl.discr.partition:uniform_partition'] = upart
            for cn in ('Parallel2dGeometry', 'Parallel3dAxisGeometry'):
                st.cuts[PAR + cn + '.__init__'] = (lambda cn: (lambda I_, fr_, self, *a, **k: calls['geom'].append((cn, a, k))))(cn)
            try:
                I.call(I.get_func(PAR + 'parallel_beam_geometry'), [Space()], {}, fr)
            except ip.PyRaise as e:
                return ('raise', e.exc)
            return ('ok', dict(calls=calls, lo=lo, hi=hi))
        info = {'ndim': ndim}
        for st, (status, r) in ctx.explore(path):
            if status == 'raise':
                ctx.fail(st, 'no_raise', 'raises %s' % lib.exc_desc(r), info)
                continue
            calls, lo, hi = r['calls'], r['lo'], r['hi']
            ok = len(calls['geom']) == 1 and len(calls['upart']) == 2 and calls['geom'][0][0] == ('Parallel2dGeometry' if ndim == 2 else 'Parallel3dAxisGeometry')
            ctx.prove(st, 'one angle partition, one detector partition, the geometry class of the dimension', ok, info)
            if not ok:
                continue
            cn, a, k = calls['geom'][0]
            ctx.prove(st, 'the geometry is built from (angle partition, detector partition)', a[0] == ('partition', 0) and a[1] == ('partition', 1), info)
            dmin, dmax, _ = calls['upart'][1]
            amin, amax, _ = calls['upart'][0]
            ctx.prove(st, 'angles cover [0, pi]', core.s_and(core.sbool(core.sc_eq(amin, 0)), core.sbool(core.sc_eq(amax, np.pi))), info)
            dmin_h = core.S.lift(arr(dmin).reshape(-1)[0] if isinstance(dmin, (ONd, list, tuple)) else dmin)
            dmax_h = core.S.lift(arr(dmax).reshape(-1)[0] if isinstance(dmax, (ONd, list, tuple)) else dmax)
            # a generic point of the volume and a generic horizontal unit vector (detector axis of some view)
            p = [sym('p%d' % j) for j in range(ndim)]
            for j in range(ndim):
                st.assume(p[j] >= lo[j])
                st.assume(p[j] <= hi[j])
            e0, e1 = sym('e0'), sym('e1')
            st.assume(core.sc_eq(e0 * e0 + e1 * e1, 1))
            proj = p[0] * e0 + p[1] * e1
            pp = p[0] * p[0] + p[1] * p[1]
            ctx.prove(st, 'detector range is symmetric: [-rho, rho]', core.sc_eq(dmin_h, -dmax_h), info)
            ctx.prove(st, 'rho >= distance of every point of the volume from the rotation axis  (rho >= 0, rho^2 >= p_x^2 + p_y^2)',
                      core.s_and(core.sbool(dmax_h >= 0), core.sbool(dmax_h * dmax_h >= pp)), info)
            st.assume(proj * proj <= pp)        # Cauchy-Schwarz instance for the unit vector e
            st.assume(dmax_h >= 0)
            st.assume(dmax_h * dmax_h >= pp)    # (proved above)
            ctx.prove(st, 'full horizontal coverage: the projection of every point of the volume lies in the detector range for every view',
                      core.s_and(core.sbool(proj <= dmax_h), core.sbool(proj >= dmin_h)), info)
            if ndim == 3:
                dv0, dv1 = core.S.lift(arr(dmin).reshape(-1)[1]), core.S.lift(arr(dmax).reshape(-1)[1])
                ctx.prove(st, 'full vertical coverage', core.s_and(core.sbool(p[2] >= dv0), core.sbool(p[2] <= dv1)), info)
    return Unit('factory/parallel_beam_geometry/ndim=%d' % ndim, run, funcs=[PAR + 'parallel_beam_geometry'], config={'ndim': ndim})


def unit_cone_factory():
    """cone_beam_geometry(space, src_radius, det_radius), 2-d (fan beam, flat detector): the detector partition [-w/2, w/2] must contain the
    detector coordinate u = (rs + rd) q_t / (rs + q_n) of the ray from the source through every volume point in every view (q = the point in
    the rotating frame: any point with |q| = |p|, p in the volume)"""
    def run(ctx):
        I = ctx.I

        def path(st):
            install(st)
            fr = ip.Frame(st)
            lo, hi = [sym('lo0'), sym('lo1')], [sym('hi0'), sym('hi1')]
            for a, b in zip(lo, hi):
                st.assume(a < b)
            cs = [sym('cell0'), sym('cell1')]
            for c in cs:
                st.assume(c > 0)
            rs, rd = sym('src_radius'), sym('det_radius')
            st.assume(rs > 0)
            st.assume(rd >= 0)
            calls = {'upart': [], 'geom': []}

            class Dom(object):
                def pv_getattr(self, I_, fr_, name):
                    if name == 'corners':
                        return ip.Builtin('corners', lambda I2, fr2, a, k: ONd(np.array(list(itertools.product((lo[0], hi[0]), (lo[1], hi[1]))), dtype=object)))
                    raise Unsupported('domain.%s' % name)

            class Part(object):
                def pv_getattr(self, I_, fr_, name):
                    if name == 'cell_sides':
                        return ONd(np.array(cs, dtype=object))
                    raise Unsupported('partition.%s' % name)

            class Space(object):
                def pv_getattr(self, I_, fr_, name):
                    d = {'domain': Dom(), 'partition': Part(), 'ndim': 2}
                    if name in d:
                        return d[name]
                    raise Unsupported('space.%s' % name)

            def upart(I_, fr_, min_pt=None, max_pt=None, shape=None, **kw):
                calls['upart'].append((min_pt, max_pt, shape))
                return ('partition', len(calls['upart']) - 1)
            st.cuts[CONE + 'uniform_partition'] = upart
            st.cuts['odl.discr.partition:uniform_partition'] = upart
            st.cuts[CONE + 'FanBeamGeometry.__init__'] = lambda I_, fr_, self, *a, **k: calls['geom'].append(('FanBeamGeometry', a, k))
            st.np_overrides = {'arctan': lambda I_, fr_, x, **k: S(z3.Real('arctan!%d' % len(calls['upart']))), 'hypot': lambda I_, fr_, a, b, **k: core.ssqrt(core.S.lift(a) * core.S.lift(a) + core.S.lift(b) * core.S.lift(b))}
            try:
                I.call(I.get_func(CONE + 'cone_beam_geometry'), [Space(), rs, rd], {}, fr)
            except ip.PyRaise as e:
                return ('raise', (e.exc, rs, lo, hi))
            return ('ok', dict(calls=calls, lo=lo, hi=hi, rs=rs, rd=rd))
        info = {'factory': 'cone_beam_geometry', 'ndim': 2}
        n_ok = 0
        for st, (status, r) in ctx.explore(path):
            if status == 'raise':
                exc = r[0]
                ctx.prove(st, 'only "source too close to the object" may be raised', I.exc_isinstance(exc, 'ValueError'), info)
                continue
            n_ok += 1
            calls, lo, hi, rs, rd = r['calls'], r['lo'], r['hi'], r['rs'], r['rd']
            ok = len(calls['geom']) == 1 and len(calls['upart']) == 2
            ctx.prove(st, 'one angle partition, one detector partition, a FanBeamGeometry', ok, info)
            if not ok:
                continue
            cn, a, k = calls['geom'][0]
            ctx.prove(st, 'geometry built from (angles, detector, src_radius, det_radius)', a[0] == ('partition', 0) and a[1] == ('partition', 1) and a[2] is rs and a[3] is rd, info)
            dmin, dmax, _ = calls['upart'][1]
            dmin, dmax = core.S.lift(dmin), core.S.lift(dmax)
            p = [sym('p0'), sym('p1')]
            for j in range(2):
                st.assume(p[j] >= lo[j])
                st.assume(p[j] <= hi[j])
            qn, qt = sym('q_n'), sym('q_t')         # the point in the rotating frame of some view: same distance from the axis
            st.assume(core.sc_eq(qn * qn + qt * qt, p[0] * p[0] + p[1] * p[1]))
            ctx.prove(st, 'the source is outside the volume in every view  (rs + q_n > 0)', rs + qn > 0, info)
            st.assume(rs + qn > 0)
            ctx.prove(st, 'full horizontal coverage: detector coordinate (rs + rd) q_t / (rs + q_n) of every volume point lies in the detector range, every view',
                      core.s_and(core.sbool((rs + rd) * qt <= dmax * (rs + qn)), core.sbool((rs + rd) * qt >= dmin * (rs + qn))), info,
                      replay={'kind': 'cone-coverage'})
        if n_ok == 0:
            ctx.unsupported('unit', 'no path completes normally (vacuous)')
    return Unit('factory/cone_beam_geometry/ndim=2', run, funcs=[CONE + 'cone_beam_geometry'], config={'ndim': 2, 'factory': 'cone_beam_geometry'})


# ---------------------------------------------------------------------------------------------------------
# slicing: g[indices] is built from the parent's own CONSTRUCTOR arguments

class Sent(object):
    """an opaque value known by identity (a constructor argument of the parent geometry)"""

    def __init__(self, name):
        self.name = name

    def __repr__(self):
        return '<%s>' % self.name


SLICE_SPEC = {
    # class: (module prefix, {constructor keyword: where the parent keeps the value THE CONSTRUCTOR WAS GIVEN}, detector part slice)
    'Parallel2dGeometry': (PAR, {'det_pos_init': '_det_pos_init_arg', 'det_axis_init': '_det_axis_init_arg', 'translation': '_Geometry__translation'}, 1),
    'Parallel3dAxisGeometry': (PAR, {'axis': '_AxisOrientedGeometry__axis', 'det_pos_init': '_det_pos_init_arg', 'det_axes_init': '_det_axes_init_arg',
                                     'translation': '_Geometry__translation'}, 'rest'),
    'FanBeamGeometry': (CONE, {'src_radius': '_FanBeamGeometry__src_radius', 'det_radius': '_FanBeamGeometry__det_radius', 'det_curvature_radius': 'detector.radius',
                               'src_to_det_init': '_FanBeamGeometry__src_to_det_init', 'det_axis_init': '_det_axis_init_arg', 'src_shift_func': '_FanBeamGeometry__src_shift_func',
                               'det_shift_func': '_FanBeamGeometry__det_shift_func', 'translation': '_Geometry__translation'}, 1),
    'ConeBeamGeometry': (CONE, {'src_radius': '_ConeBeamGeometry__src_radius', 'det_radius': '_ConeBeamGeometry__det_radius', 'det_curvature_radius': 'detector.radius',
                                'pitch': '_ConeBeamGeometry__pitch', 'axis': '_AxisOrientedGeometry__axis', 'offset_along_axis': '_ConeBeamGeometry__offset_along_axis',
                                'src_to_det_init': '_src_to_det_init_arg', 'det_axes_init': '_det_axes_init_arg', 'src_shift_func': '_ConeBeamGeometry__src_shift_func',
                                'det_shift_func': '_ConeBeamGeometry__det_shift_func', 'translation': '_Geometry__translation'}, 'rest'),
}


def unit_slicing(cname):
    """the slice is constructed from the sliced partitions and the values the parent's constructor was given - not from values the
    constructor has already transformed (det_pos_init is translated in place by __init__) -, every constructor parameter the parent
    carries is handed on, and the parent's own values are not written to"""
    mod, spec, dslice = SLICE_SPEC[cname]

    def run(ctx):
        I = ctx.I

        def path(st):
            fr = ip.Frame(st)
            g = ip.Obj(I.get_class(mod + cname))
            det = ip.Obj(I.get_class(DET + 'CircularDetector'))
            det.fields['_CircularDetector__radius'] = Sent('detector.radius')
            det.partial = True
            g.fields['_Geometry__detector'] = det
            sents = {}
            for kw, where in spec.items():
                sents[kw] = det.fields['_CircularDetector__radius'] if where == 'detector.radius' else Sent(where)
                if where != 'detector.radius':
                    g.fields[where] = sents[kw]
            # values the constructor derives (and that must NOT be fed back): the translated reference point
            g.fields['_ParallelBeamGeometry__det_pos_init'] = Sent('det_pos_init (already translated by __init__)')
            g.partial = True
            calls = []

            class Part(object):
                def __init__(self, tag):
                    self.tag = tag

                def pv_getitem(self, I_, fr_, idx):
                    return Part(self.tag + [('index', idx)])

                def pv_getattr(self, I_, fr_, name):
                    if name == 'byaxis':
                        return Part(self.tag + ['byaxis'])
                    raise Unsupported('partition.%s' % name)
            st.cuts[GEO + 'Geometry.partition'] = lambda I_, fr_, self: Part(['partition'])
            st.cut_props.add(GEO + 'Geometry.partition')
            st.cuts[mod + cname + '.__init__'] = lambda I_, fr_, self, *a, **k: calls.append((a, k))
            idx = (slice(1, 3), slice(None))
            try:
                I.call(I._getattr(g, '__getitem__', fr), [idx], {}, fr)
            except ip.PyRaise as e:
                return ('raise', e.exc)
            return ('ok', dict(calls=calls, sents=sents, idx=idx, g=g))
        info = {'class': cname}
        for st, (status, r) in ctx.explore(path):
            if status == 'raise':
                ctx.fail(st, 'slicing does not raise', 'raises %s' % lib.exc_desc(r), info)
                continue
            calls, sents, idx = r['calls'], r['sents'], r['idx']
            ctx.prove(st, 'the slice is built by one constructor call of the same class', len(calls) == 1, info)
            if len(calls) != 1:
                continue
            a, k = calls[0]
            exp_a = ['partition', ('index', idx), 'byaxis', ('index', 0)]
            exp_d = ['partition', ('index', idx), 'byaxis', ('index', 1 if dslice == 1 else slice(1, None))]
            ctx.prove(st, 'angle / detector partitions are the sliced joint partition by axis', len(a) == 2 and getattr(a[0], 'tag', None) == exp_a and getattr(a[1], 'tag', None) == exp_d, info)
            ctx.prove(st, 'every constructor parameter the parent carries is handed on (no more, no less)', set(k) == set(sents), dict(info, missing=sorted(set(sents) - set(k)), extra=sorted(set(k) - set(sents))))
            for kw in sorted(set(k) & set(sents)):
                ctx.prove(st, 'slice: %s is the value the parent\'s constructor was given' % kw, k[kw] is sents[kw], dict(info, got=repr(k[kw]), want=repr(sents[kw])))
    return Unit('slicing/%s' % cname, run, funcs=[mod + cname + '.__getitem__'], config={'class': cname})


def unit_slicing_native(cname):
    """BOUNDED stand-in (never counted as proved) for the part of slicing the field-wise units cannot see - the constructors keep REFERENCES to caller-supplied vectors:
    geometries built through the real constructors from tuples and from float ndarrays owned by the caller (translations, initial positions, axes), sliced, must agree
    with their parent and with each other at the kept angles, and slicing must not change the parent."""
    def run(ctx):
        from contracts import replay_c19
        try:
            bad = replay_c19.check_slicing(cname)
        except Exception as e:
            bad = 'native evaluation raised %s: %s' % (type(e).__name__, e)
        ctx.bounded('slices of geometries built through the real constructors (tuple and caller-owned ndarray arguments) agree with their parent', not bad, {'class': cname}, detail=bad)
    return Unit('slicing-native/%s' % cname, run, funcs=['odl.tomo.geometry:%s.__init__' % cname, 'odl.tomo.geometry:%s.__getitem__' % cname], kind='B', config={'class': cname},
                bounded_in='one or two concrete geometries per class, slice [1:4]')


def unit_factory_mirror_native(factory):
    """BOUNDED (never counted as proved): necessary conditions of detector coverage for the 3-d factories that are not under contract - a volume and its mirror image in z get
    detectors of equal extent and shape (a reflection maps rays to rays), and a volume does not get a shorter detector than a sub-volume."""
    def run(ctx):
        from contracts import replay_c19
        try:
            bad = replay_c19.check_factory_mirror(factory)
        except Exception as e:
            bad = 'native evaluation raised %s: %s' % (type(e).__name__, e)
        ctx.bounded('factory: mirror-symmetric volumes get mirror-symmetric detectors, sub-volumes do not need more detector', not bad, {'factory': factory}, detail=bad)
    return Unit('factory-native/mirror/%s' % factory, run, funcs=['odl.tomo.geometry:%s' % factory], kind='B', config={'factory': factory}, bounded_in='3 volumes, 3-d')


def unit_canary():
    """must fail: the transpose of a 2d rotation claimed equal to the rotation"""
    def run(ctx):
        I = ctx.I

        def path(st):
            install(st)
            fr = ip.Frame(st)
            R = I.call(I.get_func(UT + 'euler_matrix'), [sym('phi')], {}, fr)
            return ('ok', R)
        for st, (status, R) in ctx.explore(path):
            ctx.prove(st, 'canary', eq_all(arr(R), matT(R)), {})
    return Unit('canary/rotation-equals-its-transpose', run, kind='canary', expect='refuted')


def replay(ob):
    from contracts import replay_c19
    if ob.get('unit', '').startswith('factory-native/mirror/'):
        try:
            bad = replay_c19.check_factory_mirror(ob['unit'].split('/')[-1])
        except Exception as e:
            bad = 'raised %s: %s' % (type(e).__name__, e)
        return {'reproduced': bool(bad), 'detail': bad or 'holds natively'}
    return replay_c19.replay(ob)


def units(tier, seed):
    us = []
    for kind in ('euler2d', 'euler3d', 'axis'):
        for sh in SHAPES:
            us.append(unit_rot(kind, sh))
    for kind in ('flat1d', 'flat2d', 'circular'):
        us.append(unit_detector_ctor(kind))
        for sh in ('scalar', 'vec2'):
            us.append(unit_detector(kind, sh))
    for kind in GEOS:
        for msh, dsh in (('scalar', 'scalar'), ('vec2', 'scalar'), ('scalar', 'vec2'), ('vec2', 'vec2'), ('col', 'row')):
            if kind == 'conebeam' and ((msh, dsh) != ('scalar', 'scalar') and not (tier == 'thorough' and (msh, dsh) == ('vec2', 'vec2'))):
                continue            # helical cone beam: heavy polynomial identities; the vectorised configuration runs in the thorough tier only
            us.append(unit_geometry(kind, msh, dsh))
    for nd in (2, 3):
        us.append(unit_parallel_factory(nd))
    us.append(unit_cone_factory())
    for cn in SLICE_SPEC:
        us.append(unit_slicing(cn))
        us.append(unit_slicing_native(cn))
    for fac in ('cone_beam_geometry', 'parallel_beam_geometry'):
        us.append(unit_factory_mirror_native(fac))
    us.append(unit_canary())
    return us
